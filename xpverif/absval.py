"""Abstract values for E5 (absint)."""
from __future__ import annotations

from dataclasses import dataclass, field, replace
from typing import Any, Optional


class V:
    __slots__ = ()


@dataclass(frozen=True)
class _Bot(V):
    def __repr__(self):
        return "⊥"


@dataclass(frozen=True)
class _Top(V):
    why: str = field(default="", compare=False)

    def __repr__(self):
        return "⊤"


BOT = _Bot()
TOP = _Top()


@dataclass(frozen=True)
class NoneV(V):
    def __repr__(self):
        return "None"


NONE = NoneV()


@dataclass(frozen=True)
class Const(V):
    value: Any  # hashable python constant (str, int, bool, bytes, Ellipsis, tuple)

    def __repr__(self):
        return f"Const({self.value!r})"


@dataclass(frozen=True)
class Scalar(V):
    kind: str  # Str Int Bool Bytes Float PyConst
    origin: str = field(default="", compare=True)  # e.g. "a.string" for token text

    def __repr__(self):
        return self.kind + (f"<{self.origin}>" if self.origin else "")


STR = Scalar("Str")
INT = Scalar("Int")
BOOL = Scalar("Bool")
PYCONST = Scalar("PyConst")


@dataclass(frozen=True)
class Tok(V):
    label: str = ""
    kind: str = ""  # NAME / NUMBER / lit / ... when known

    def __repr__(self):
        return f"Tok({self.label}{':' + self.kind if self.kind else ''})"


@dataclass(frozen=True)
class PosPair(V):
    base: str
    which: str  # start | end

    def __repr__(self):
        return f"{self.base}.{self.which}"


@dataclass(frozen=True)
class LocInt(V):
    base: str
    which: str  # start | end
    idx: int  # 0 line, 1 column
    adj: int = 0

    def __repr__(self):
        return f"{self.base}.{self.which}[{self.idx}]" + (f"{self.adj:+d}" if self.adj else "")


@dataclass(frozen=True)
class Ctx(V):
    name: str  # Load Store Del

    def __repr__(self):
        return self.name


@dataclass(frozen=True)
class Node(V):
    cls: str  # concrete ast class name, or an abstract base ("expr", "stmt") when only that is known
    ctx: Optional[str] = None  # own ctx
    sub: frozenset = frozenset()  # contexts occurring in structural (ctx-inheriting) children
    missing: frozenset = frozenset()  # required fields not supplied yet
    shape: Optional[str] = None  # bounded structural description (only inside one action evaluation)
    label: str = field(default="", compare=True)
    located: Optional[bool] = None  # True: complete location given; False: incomplete; None: class has none
    locsrc: tuple = ()  # (sorted bases of the start line, sorted bases of the end line) — only inside one evaluation

    def __repr__(self):
        s = self.cls
        if self.ctx:
            s += f"[{self.ctx}" + ("|" + ",".join(sorted(self.sub)) if self.sub - {self.ctx} else "") + "]"
        if self.missing:
            s += f"-{sorted(self.missing)}"
        return s

    def deep(self) -> frozenset:
        return (frozenset([self.ctx]) if self.ctx else frozenset()) | self.sub


@dataclass(frozen=True)
class ListV(V):
    elem: V
    nonempty: bool = False

    def __repr__(self):
        return f"List{'+' if self.nonempty else ''}({self.elem!r})"


@dataclass(frozen=True)
class TupleV(V):
    elems: tuple

    def __repr__(self):
        return "(" + ", ".join(map(repr, self.elems)) + ")"


@dataclass(frozen=True)
class DictV(V):
    items: tuple  # ((key, V, required), ...) sorted by key
    open: bool = False

    def get(self, k):
        for kk, v, req in self.items:
            if kk == k:
                return v, req
        return None

    def with_item(self, k, v, required=True):
        items = [(kk, vv, rr) for kk, vv, rr in self.items if kk != k] + [(k, v, required)]
        return DictV(tuple(sorted(items, key=lambda x: x[0])), self.open)

    def __repr__(self):
        return "{" + ", ".join(f"{k}{'' if r else '?'}: {v!r}" for k, v, r in self.items) + ("…" if self.open else "") + "}"


@dataclass(frozen=True)
class Iter(V):
    elem: V


@dataclass(frozen=True)
class Union(V):
    members: frozenset

    def __repr__(self):
        return " | ".join(sorted(map(repr, self.members)))


@dataclass(frozen=True)
class Obj(V):
    """Opaque object with a name: modules, classes, self, bound things."""
    kind: str  # module | class | self | tokenizer | func | method
    name: str = ""
    extra: Any = None

    def __repr__(self):
        return f"<{self.kind} {self.name}>"


SELF = Obj("self")
TOKENIZER = Obj("tokenizer")


# ------------------------------------------------------------------ lattice operations
def members(v: V) -> list[V]:
    if isinstance(v, Union):
        return list(v.members)
    if v is BOT or isinstance(v, _Bot):
        return []
    return [v]


def mk_union(vs) -> V:
    flat: list[V] = []
    for v in vs:
        for m in members(v):
            if isinstance(m, _Top):
                return TOP
            flat.append(m)
    # merge lists / iters structurally
    lists = [m for m in flat if isinstance(m, ListV)]
    others = [m for m in flat if not isinstance(m, ListV)]
    out = set(others)
    if lists:
        elem = mk_union([l.elem for l in lists])
        out.add(ListV(elem, all(l.nonempty for l in lists)))
    # merge DictVs
    dicts = [m for m in out if isinstance(m, DictV)]
    if len(dicts) > 1:
        for d in dicts:
            out.discard(d)
        out.add(join_dicts(dicts))
    if not out:
        return BOT
    if len(out) == 1:
        return next(iter(out))
    if len(out) > 80:
        # widen: forget shapes and labels
        out = {strip(m) for m in out}
        if len(out) > 120:
            return TOP
    return Union(frozenset(out))


def join(a: V, b: V) -> V:
    if a == b:
        return a
    return mk_union([a, b])


def join_dicts(ds: list) -> DictV:
    keys = []
    for d in ds:
        for k, _, _ in d.items:
            if k not in keys:
                keys.append(k)
    items = []
    for k in keys:
        vals, req = [], True
        for d in ds:
            g = d.get(k)
            if g is None:
                req = False
            else:
                vals.append(g[0])
                req = req and g[1]
        items.append((k, mk_union(vals), req))
    return DictV(tuple(sorted(items, key=lambda x: x[0])), any(d.open for d in ds))


def strip(v: V, depth: int = 0) -> V:
    """Forget shapes/labels (used at rule boundaries so that the fixpoint has finite height)."""
    if isinstance(v, Node):
        return Node(v.cls, v.ctx, v.sub, v.missing, None, "", v.located)
    if isinstance(v, Tok):
        return Tok("", v.kind)
    if isinstance(v, Scalar):
        return Scalar(v.kind)
    if isinstance(v, Const):
        if isinstance(v.value, str):
            return STR
        if isinstance(v.value, bool):
            return v
        if isinstance(v.value, int):
            return INT
        return v
    if isinstance(v, (LocInt,)):
        return INT
    if isinstance(v, PosPair):
        return TupleV((INT, INT))
    if depth > 5:
        return TOP
    if isinstance(v, ListV):
        return ListV(strip(v.elem, depth + 1), v.nonempty)
    if isinstance(v, TupleV):
        return TupleV(tuple(strip(e, depth + 1) for e in v.elems))
    if isinstance(v, Iter):
        return Iter(strip(v.elem, depth + 1))
    if isinstance(v, DictV):
        return DictV(tuple((k, strip(x, depth + 1), r) for k, x, r in v.items), v.open)
    if isinstance(v, Union):
        return mk_union([strip(m, depth) for m in v.members])
    return v


def is_falsy_const(v: V) -> Optional[bool]:
    """True: definitely falsy; False: definitely truthy; None: unknown."""
    if isinstance(v, NoneV):
        return True
    if isinstance(v, Const):
        try:
            return not bool(v.value)
        except Exception:
            return None
    if isinstance(v, (Node, Tok, Ctx, Obj, PosPair)):
        return False
    if isinstance(v, ListV):
        return False if v.nonempty else None
    if isinstance(v, TupleV):
        return len(v.elems) == 0
    if isinstance(v, DictV):
        return None
    return None


def truthy(v: V) -> V:
    """The part of v that can be truthy."""
    out = []
    for m in members(v):
        f = is_falsy_const(m)
        if f is True:
            continue
        if isinstance(m, ListV):
            out.append(ListV(m.elem, True))
        else:
            out.append(m)
    if isinstance(v, _Top):
        return TOP
    return mk_union(out)


def falsy(v: V) -> V:
    out = []
    for m in members(v):
        f = is_falsy_const(m)
        if f is False:
            continue
        if isinstance(m, ListV):
            out.append(ListV(BOT, False))
        else:
            out.append(m)
    if isinstance(v, _Top):
        return TOP
    return mk_union(out)


def can_be_none(v: V) -> bool:
    return any(isinstance(m, NoneV) for m in members(v))


def without_none(v: V) -> V:
    if isinstance(v, _Top):
        return v
    return mk_union([m for m in members(v) if not isinstance(m, NoneV)])
