"""E2: decompile a pegen-generated parser module into the grammar IR.

Two dialects:
  X  peg_parser/parser.py  (tasks/generator.py: combinator calls, seq_alts whole-rule form)
  P  pegen/grammar_parser.py (stock pegen: _loop0_N/_loop1_N/_gather_N/_tmp_N helper methods)

Fail closed: any statement or conjunct outside the enumerated shapes raises DecompileError
(carrying file:line), which callers turn into ANALYSIS-ERROR / a C16 report.
"""
from __future__ import annotations

import ast
from typing import Optional

from .ir import (Alt, Cut, Forced, Gather, Grammar, Group, Item, Lit, Look, NamedItem, Opt, Pos,
                 Ref, Rep, Rule, Tok)


class DecompileError(Exception):
    def __init__(self, msg: str, file: str, line: int, method: str = ""):
        super().__init__(f"{file}:{line}: {method + ': ' if method else ''}{msg}")
        self.file, self.line, self.method, self.msg = file, line, method, msg


X_TOKEN_METHODS = {"name": "NAME", "keyword": "KEYWORD", "soft_keyword": "SOFT_KEYWORD",
                   "any_token": "ANY_TOKEN"}
P_TOKEN_METHODS = {"name": "NAME", "number": "NUMBER", "string": "STRING", "op": "OP",
                   "fstring_start": "FSTRING_START", "fstring_middle": "FSTRING_MIDDLE",
                   "fstring_end": "FSTRING_END", "type_comment": "TYPE_COMMENT",
                   "soft_keyword": "SOFT_KEYWORD"}
P_EXPECT_TOKENS = {"NEWLINE", "DEDENT", "INDENT", "ENDMARKER", "ASYNC", "AWAIT"}
COMBINATORS = {"expect", "token", "repeated", "gathered", "positive_lookahead", "negative_lookahead",
               "expect_forced", "seq_alts"}


def _is_self_attr(e: ast.AST) -> Optional[str]:
    if isinstance(e, ast.Attribute) and isinstance(e.value, ast.Name) and e.value.id == "self":
        return e.attr
    return None


def _is_self_call(e: ast.AST) -> Optional[tuple[str, list]]:
    if isinstance(e, ast.Call) and not e.keywords:
        n = _is_self_attr(e.func)
        if n:
            return n, e.args
    return None


class _Decompiler:
    def __init__(self, path: str, relfile: str, dialect: str):
        self.path, self.file, self.dialect = path, relfile, dialect
        self.src = open(path, encoding="utf-8").read()
        self.mod = ast.parse(self.src)
        self.methods: dict[str, ast.FunctionDef] = {}
        self.rules: dict[str, Rule] = {}
        self.inprogress: set[str] = set()
        self.cur = ""
        self.stats = {"if_return": 0, "resets": 0, "marks": 0, "loc_peeks": 0, "seq_alts_rules": 0,
                      "cuts": 0, "invalid_brackets": 0, "conjunct_shapes": {}}

    def err(self, msg, node):
        return DecompileError(msg, self.file, getattr(node, "lineno", 0), self.cur)

    # ---------------------------------------------------------------- module level
    def run(self) -> Grammar:
        classes = [n for n in self.mod.body if isinstance(n, ast.ClassDef)]
        if len(classes) != 1:
            raise DecompileError(f"expected exactly one class, found {len(classes)}", self.file, 1)
        cls = classes[0]
        g = Grammar(rules={}, file=self.file, klass=cls.name,
                    bases=tuple(ast.unparse(b) for b in cls.bases))
        for st in cls.body:
            if isinstance(st, ast.FunctionDef):
                if st.name in self.methods:
                    raise self.err(f"duplicate method {st.name}", st)
                self.methods[st.name] = st
            elif isinstance(st, ast.Assign) and len(st.targets) == 1 and isinstance(st.targets[0], ast.Name) \
                    and st.targets[0].id in ("KEYWORDS", "SOFT_KEYWORDS"):
                try:
                    val = ast.literal_eval(st.value)
                except Exception:
                    raise self.err("keyword table is not a literal", st)
                if not isinstance(val, tuple) or not all(isinstance(x, str) for x in val):
                    raise self.err("keyword table is not a tuple of strings", st)
                if st.targets[0].id == "KEYWORDS":
                    g.keywords = val
                else:
                    g.soft_keywords = val
            elif isinstance(st, ast.Expr) and isinstance(st.value, ast.Constant):
                continue
            else:
                raise self.err(f"unexpected class-level statement {type(st).__name__}", st)
        if g.keywords is None or g.soft_keywords is None:
            raise DecompileError("KEYWORDS/SOFT_KEYWORDS table missing", self.file, cls.lineno)
        for name in self.methods:
            self.rule(name)
        for name, r in self.rules.items():
            if self._is_helper(name):
                g.helpers[name] = r
            else:
                g.rules[name] = r
        g.metas["stats"] = self.stats
        # module-level imports / functions are part of the header (subheader) — record for C16
        g.metas["module_prelude"] = [n for n in self.mod.body if not isinstance(n, ast.ClassDef)]
        return g

    def _is_helper(self, name: str) -> bool:
        return name.startswith(("_tmp_", "_loop0_", "_loop1_", "_gather_"))

    # ---------------------------------------------------------------- rules
    def rule(self, name: str) -> Rule:
        if name in self.rules:
            return self.rules[name]
        if name in self.inprogress:
            raise DecompileError(f"helper {name} is recursive", self.file, self.methods[name].lineno, name)
        self.inprogress.add(name)
        prev = self.cur
        self.cur = name
        try:
            r = self._rule(self.methods[name])
        finally:
            self.cur = prev
            self.inprogress.discard(name)
        self.rules[name] = r
        return r

    def _rule(self, fn: ast.FunctionDef) -> Rule:
        a = fn.args
        if [x.arg for x in a.args] != ["self"] or a.vararg or a.kwarg or a.kwonlyargs or a.posonlyargs:
            raise self.err("rule method must take exactly (self)", fn)
        deco = None
        for d in fn.decorator_list:
            if isinstance(d, ast.Name) and d.id in ("memoize", "memoize_left_rec", "logger") and deco is None:
                deco = d.id
            else:
                raise self.err(f"unexpected decorator {ast.unparse(d)}", d)
        rule = Rule(name=fn.name, type=ast.unparse(fn.returns) if fn.returns else None, alts=[],
                    memo=(deco == "memoize"), decorator=deco, pos=Pos(self.file, fn.lineno),
                    helper=self._is_helper(fn.name))
        body = list(fn.body)
        if body and isinstance(body[0], ast.Expr) and isinstance(body[0].value, ast.Constant):
            body = body[1:]
        # _without_invalid bracket
        if len(body) >= 2 and self._is_assign(body[0], "_prev_call_invalid", "self.call_invalid_rules") \
                and self._is_assign(body[1], "self.call_invalid_rules", "False"):
            rule.brackets_invalid = True
            self.stats["invalid_brackets"] += 1
            body = body[2:]
        # whole-rule seq_alts
        if len(body) == 1 and isinstance(body[0], ast.Return) and body[0].value is not None:
            sc = _is_self_call(body[0].value)
            if sc and sc[0] == "seq_alts":
                if rule.brackets_invalid:
                    raise self.err("seq_alts form inside an invalid bracket loses the restore", body[0])
                rule.whole_seq_alts = True
                self.stats["seq_alts_rules"] += 1
                grp = self._seq_alts_group(sc[1], body[0])
                rule.alts = grp.alts
                return rule
            raise self.err("single-statement body is not a seq_alts return", body[0])
        if self.dialect == "P" and fn.name.startswith(("_loop0_", "_loop1_")):
            return self._loop_rule(rule, body, fn)
        if self.dialect == "P" and fn.name.startswith("_gather_"):
            return self._gather_rule(rule, body, fn)
        # mark = self._mark()
        if not body or not self._is_assign(body[0], "mark", "self._mark()"):
            raise self.err("expected `mark = self._mark()`", body[0] if body else fn)
        self.stats["marks"] += 1
        i = 1
        if self.dialect == "X":
            if i < len(body) and self._is_loc_peek_x(body[i]):
                rule.uses_locations = True
                self.stats["loc_peeks"] += 1
                i += 1
        else:
            if i + 1 < len(body) and self._is_assign(body[i], "tok", "self._tokenizer.peek()") \
                    and self._is_assign(body[i + 1], "(start_lineno, start_col_offset)", "tok.start"):
                rule.uses_locations = True
                self.stats["loc_peeks"] += 1
                i += 2
        # alternatives
        n = len(body)
        while i < n:
            st = body[i]
            has_cut = False
            if self._is_assign(st, "cut", "False"):
                has_cut = True
                self.stats["cuts"] += 1
                i += 1
                st = body[i] if i < n else None
            if isinstance(st, ast.If):
                alt = self._alt(st, rule)
                if alt.has_cut() != has_cut:
                    raise self.err("`cut = False` and `cut := True` do not agree", st)
                i += 1
                if not (i < n and self._is_expr(body[i], "self._reset(mark)")):
                    raise self.err("alt not followed by `self._reset(mark)`", st)
                self.stats["resets"] += 1
                i += 1
                if has_cut:
                    if not (i < n and isinstance(body[i], ast.If) and isinstance(body[i].test, ast.Name)
                            and body[i].test.id == "cut" and not body[i].orelse):
                        raise self.err("cut alt not followed by `if cut: return None`", st)
                    self._check_return_none(body[i].body, rule, body[i])
                    i += 1
                rule.alts.append(alt)
                continue
            # trailer: [restore] return None
            self._check_return_none(body[i:], rule, st)
            i = n
            break
        else:
            raise self.err("method falls off the end without `return None`", fn)
        if not rule.alts:
            raise self.err("rule has no alternatives", fn)
        return rule

    def _check_return_none(self, stmts, rule: Rule, where):
        stmts = list(stmts)
        if rule.brackets_invalid:
            if not stmts or not self._is_assign(stmts[0], "self.call_invalid_rules", "_prev_call_invalid"):
                raise self.err("exit without restoring call_invalid_rules", where)
            stmts = stmts[1:]
        if len(stmts) != 1 or not isinstance(stmts[0], ast.Return) or not (
                stmts[0].value is None or (isinstance(stmts[0].value, ast.Constant) and stmts[0].value.value is None)):
            raise self.err("expected `return None`", where)

    @staticmethod
    def _is_assign(st, target: str, value: str) -> bool:
        return isinstance(st, ast.Assign) and len(st.targets) == 1 and \
            ast.unparse(st.targets[0]) == target and ast.unparse(st.value) == value

    @staticmethod
    def _is_expr(st, text: str) -> bool:
        return isinstance(st, ast.Expr) and ast.unparse(st.value) == text

    @staticmethod
    def _is_loc_peek_x(st) -> bool:
        return isinstance(st, ast.Assign) and len(st.targets) == 1 and \
            ast.unparse(st.targets[0]) == "(_lnum, _col)" and ast.unparse(st.value) == "self._tokenizer.peek().start"

    # ---------------------------------------------------------------- alternatives
    def _alt(self, st: ast.If, rule: Rule) -> Alt:
        if st.orelse:
            raise self.err("alt `if` has an else branch", st)
        self.stats["if_return"] += 1
        conj = st.test.values if isinstance(st.test, ast.BoolOp) and isinstance(st.test.op, ast.And) else [st.test]
        if isinstance(st.test, ast.BoolOp) and not isinstance(st.test.op, ast.And):
            raise self.err("alt condition is not a conjunction", st)
        alt = Alt(items=[], action=None, pos=Pos(self.file, st.lineno))
        for k, c in enumerate(conj):
            if ast.unparse(c) == "self.call_invalid_rules":
                if k != 0:
                    raise self.err("call_invalid_rules guard is not the first conjunct", c)
                alt.invalid_guard = True
                continue
            alt.items.append(self._conjunct(c))
        # body
        body = list(st.body)
        if self.dialect == "P" and len(body) >= 2 and \
                self._is_assign(body[0], "tok", "self._tokenizer.get_last_non_whitespace_token()"):
            if not self._is_assign(body[1], "(end_lineno, end_col_offset)", "tok.end"):
                raise self.err("bad end-location prologue", body[1])
            body = body[2:]
        if rule.brackets_invalid:
            if not body or not self._is_assign(body[0], "self.call_invalid_rules", "_prev_call_invalid"):
                raise self.err("alt returns without restoring call_invalid_rules", st)
            alt.restores_invalid = True
            body = body[1:]
        if len(body) != 1 or not isinstance(body[0], ast.Return) or body[0].value is None:
            raise self.err("alt body is not a single `return <action>`", st)
        alt.action = body[0].value
        alt.action_src = ast.unparse(alt.action)
        alt.uses_locations = any(
            isinstance(n, ast.Call) and ast.unparse(n.func) == "self.span" for n in ast.walk(alt.action)
        ) if self.dialect == "X" else any(
            isinstance(n, ast.Name) and n.id in ("start_lineno", "end_lineno") for n in ast.walk(alt.action))
        if alt.uses_locations and not rule.uses_locations:
            raise self.err("action uses locations but the rule does not peek the start token", st)
        return alt

    def _shape(self, k: str):
        d = self.stats["conjunct_shapes"]
        d[k] = d.get(k, 0) + 1

    def _conjunct(self, c: ast.expr) -> NamedItem:
        name = None
        shape = ""
        optional = False
        if isinstance(c, ast.Tuple):
            if len(c.elts) != 1:
                raise self.err("tuple conjunct with != 1 element", c)
            optional = True
            shape += "T"
            c = c.elts[0]
        if isinstance(c, ast.NamedExpr):
            if not isinstance(c.target, ast.Name):
                raise self.err("walrus target is not a name", c)
            name = c.target.id
            shape += "N"
            c = c.value
            if name == "cut":
                if not (isinstance(c, ast.Constant) and c.value is True) or optional:
                    raise self.err("`cut` bound to something other than True", c)
                self._shape("cut")
                return NamedItem(None, Cut(pos=Pos(self.file, c.lineno)))
        if isinstance(c, ast.Tuple):
            raise self.err("nested tuple conjunct", c)
        item, sh = self._call_item(c)
        self._shape(shape + ":" + sh)
        if optional:
            # `(x,)`: always-true conjunct.  x* and [x+] and [x*] generate the same code; canonical = Rep0.
            if isinstance(item, Rep):
                item = Rep(item.item, 0, pos=item.pos)
            else:
                item = Opt(item, pos=item.pos)
        return NamedItem(name, item)

    def _call_item(self, c: ast.expr) -> tuple[Item, str]:
        pos = Pos(self.file, getattr(c, "lineno", 0))
        sc = _is_self_call(c)
        if not sc:
            raise self.err(f"unsupported conjunct `{ast.unparse(c)[:80]}`", c)
        fn, args = sc
        if fn == "expect":
            v = self._const_str(args, 1, c)[0]
            if self.dialect == "P" and v in P_EXPECT_TOKENS:
                return Tok(v, pos=pos), "expect-token"
            return Lit(v, pos=pos), "expect"
        if fn == "token" and self.dialect == "X":
            return Tok(self._const_str(args, 1, c)[0], pos=pos), "token"
        tokmap = X_TOKEN_METHODS if self.dialect == "X" else P_TOKEN_METHODS
        if fn in tokmap and fn not in self.methods:
            if args:
                raise self.err(f"{fn}() takes no arguments", c)
            return Tok(tokmap[fn], pos=pos), fn
        if fn == "repeated" and self.dialect == "X":
            if not args:
                raise self.err("repeated() without function", c)
            it, sh = self._callable_item(args[0], args[1:], c)
            return Rep(it, 1, pos=pos), f"repeated({sh})"
        if fn == "gathered" and self.dialect == "X":
            if len(args) < 2:
                raise self.err("gathered() needs func and separator", c)
            if isinstance(args[0], ast.Tuple):
                it, sh = self._callable_item(args[0].elts[0], args[0].elts[1:], c)
            else:
                it, sh = self._callable_item(args[0], [], c)
            sep, sh2 = self._callable_item(args[1], args[2:], c)
            return Gather(sep, it, pos=pos), f"gathered({sh},{sh2})"
        if fn in ("positive_lookahead", "negative_lookahead"):
            if not args:
                raise self.err("lookahead without function", c)
            it, sh = self._callable_item(args[0], args[1:], c)
            return Look(it, fn == "positive_lookahead", pos=pos), f"{fn}({sh})"
        if fn == "expect_forced":
            if len(args) != 2 or not (isinstance(args[1], ast.Constant) and isinstance(args[1].value, str)):
                raise self.err("expect_forced(call, text) expected", c)
            it, sh = self._call_item(args[0])
            return Forced(it, args[1].value, pos=pos), f"forced({sh})"
        if fn == "seq_alts" and self.dialect == "X":
            return self._seq_alts_group(args, c), "seq_alts"
        if fn in COMBINATORS:
            raise self.err(f"combinator {fn} not valid in this dialect/position", c)
        if args:
            raise self.err(f"rule call self.{fn}() with arguments", c)
        if fn not in self.methods:
            raise self.err(f"call to unknown rule method self.{fn}()", c)
        return self._rule_ref(fn, pos)

    def _rule_ref(self, fn: str, pos: Pos) -> tuple[Item, str]:
        if fn.startswith("_tmp_"):
            helper = self.rule(fn)
            return Group(helper.alts, pos=pos, helper=fn), "_tmp"
        if self.dialect == "P" and fn.startswith(("_loop0_", "_loop1_")):
            helper = self.rule(fn)
            return Rep(helper.alts[0].items[0].item, 1 if fn.startswith("_loop1_") else 0, pos=pos), "_loop"
        if self.dialect == "P" and fn.startswith("_gather_"):
            helper = self.rule(fn)
            g = helper.alts[0].items[0].item
            return Gather(g.sep, g.item, pos=pos), "_gather"
        return Ref(fn, pos=pos), "rule"

    def _callable_item(self, f: ast.expr, args: list, where) -> tuple[Item, str]:
        """`self.x` (+ args) passed as a callable to a combinator."""
        pos = Pos(self.file, getattr(f, "lineno", 0))
        n = _is_self_attr(f)
        if not n:
            raise self.err(f"callable argument `{ast.unparse(f)}` is not a bound method of self", where)
        if n == "expect":
            return Lit(self._const_str(args, 1, where)[0], pos=pos), "expect"
        if n == "token" and self.dialect == "X":
            return Tok(self._const_str(args, 1, where)[0], pos=pos), "token"
        tokmap = X_TOKEN_METHODS if self.dialect == "X" else P_TOKEN_METHODS
        if n in tokmap and n not in self.methods:
            if args:
                raise self.err(f"{n} takes no arguments", where)
            return Tok(tokmap[n], pos=pos), n
        if n in COMBINATORS:
            raise self.err(f"combinator self.{n} passed as a callable", where)
        if args:
            raise self.err(f"rule self.{n} passed with arguments", where)
        if n not in self.methods:
            raise self.err(f"unknown rule method self.{n}", where)
        return self._rule_ref(n, pos)

    def _seq_alts_group(self, args: list, where) -> Group:
        alts = []
        for a in args:
            if isinstance(a, ast.Tuple):
                if not a.elts:
                    raise self.err("empty tuple in seq_alts", where)
                it, _ = self._callable_item(a.elts[0], a.elts[1:], where)
            else:
                it, _ = self._callable_item(a, [], where)
            alts.append(Alt(items=[NamedItem("_v", it)], action=ast.Name("_v", ast.Load()),
                            action_src="_v", default_action=True, pos=Pos(self.file, where.lineno)))
        if len(alts) < 2:
            raise self.err("seq_alts with fewer than two alternatives", where)
        return Group(alts, pos=Pos(self.file, where.lineno))

    def _const_str(self, args, n, where) -> list[str]:
        if len(args) != n or not all(isinstance(a, ast.Constant) and isinstance(a.value, str) for a in args):
            raise self.err("expected constant string argument(s)", where)
        return [a.value for a in args]

    # ---------------------------------------------------------------- dialect P helpers
    def _loop_rule(self, rule: Rule, body, fn) -> Rule:
        # mark = self._mark(); children = []; while <conj>: children.append(X); mark = self._mark()
        # self._reset(mark); return children
        ok = (len(body) == 5 and self._is_assign(body[0], "mark", "self._mark()")
              and self._is_assign(body[1], "children", "[]") and isinstance(body[2], ast.While)
              and self._is_expr(body[3], "self._reset(mark)")
              and isinstance(body[4], ast.Return) and ast.unparse(body[4].value) == "children")
        if not ok:
            raise self.err("unsupported _loop helper shape", fn)
        w = body[2]
        conj = w.test.values if isinstance(w.test, ast.BoolOp) else [w.test]
        items = [self._conjunct(c) for c in conj]
        if len(w.body) != 2 or not self._is_assign(w.body[1], "mark", "self._mark()"):
            raise self.err("unsupported _loop body", w)
        app = w.body[0]
        if not (isinstance(app, ast.Expr) and isinstance(app.value, ast.Call)
                and ast.unparse(app.value.func) == "children.append" and len(app.value.args) == 1):
            raise self.err("unsupported _loop append", w)
        action = app.value.args[0]
        if len(items) == 1:
            inner = items[0].item
            if not (isinstance(action, ast.Name) and action.id == items[0].name):
                raise self.err("_loop helper with a non-trivial action", w)
        else:
            # separator + elem form created by gathers: `(self.expect(',')) and (elem := x)` -> elem
            inner = Group([Alt(items=items, action=action, action_src=ast.unparse(action),
                               pos=Pos(self.file, w.lineno))], pos=Pos(self.file, w.lineno))
        rule.alts = [Alt(items=[NamedItem(None, inner)], action=None, pos=Pos(self.file, w.lineno))]
        return rule

    def _gather_rule(self, rule: Rule, body, fn) -> Rule:
        # if (elem := X) is not None and (seq := self._loop0_N()) is not None: return [elem] + seq
        raise self.err("_gather helpers are not present in the shipped grammar_parser.py; unsupported", fn)


def decompile(path: str, relfile: str, dialect: str) -> Grammar:
    return _Decompiler(path, relfile, dialect).run()
