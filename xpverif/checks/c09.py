"""C09 — tokenizer agrees with CPython's: agreement of tables and sub-languages, non-interference of the xonsh
additions (DESIGN §4 C09, K1–K5).  Oracle: the running interpreter's `tokenize` / `token` modules."""
from __future__ import annotations

import ast
import token as pytoken
import tokenize as pytokenize

from .. import constfold, irtools, repo, rx
from ..common import AnalysisError, Check, norm_stmt, parse_py
from ..ir import Lit, Tok, walk_alt_items
from ..pyflow import Index, own_nodes


def rule_k1(chk: Check, F, thorough: bool):
    # in-line blanks: CPython's `[ \f\t]*` is used as an optional prefix, here as a token of its own (at least one character)
    ws_ref = pytokenize.Whitespace[:-1] + "+" if pytokenize.Whitespace.endswith("*") else pytokenize.Whitespace
    pairs = [("Number", pytokenize.Number), ("Name", pytokenize.Name), ("Comment", pytokenize.Comment), ("Whitespace", ws_ref)]
    # continuation / end-of-input and newline alternatives of the master pattern
    branches = {}
    for n in parse_py(repo.TOKENIZE).body:
        if isinstance(n, ast.Assign) and len(n.targets) == 1 and norm_stmt(n.targets[0]) == "PseudoToken" and isinstance(n.value, ast.Call):
            for kw in n.value.keywords:
                if kw.arg:
                    try:
                        branches[kw.arg] = F.need(kw.value.id) if isinstance(kw.value, ast.Name) else constfold.fold_expr(kw.value)
                    except Exception:
                        pass
    if not branches:
        raise AnalysisError("the named alternatives of PseudoToken could not be read from its definition")
    named = dict(pairs)
    named["PseudoToken:End"] = r"\\\r?\n|\Z"
    named["PseudoToken:NL"] = r"\r?\n"
    for name, ref in named.items():
        if name.startswith("PseudoToken:"):
            g = name.split(":", 1)[1]
            if g not in branches:
                chk.count("K1-sublanguage")
                chk.fail("K1-sublanguage", name, repo.TOKENIZE, f"the master pattern has no `{g}` alternative")
                continue
            mine = branches[g]
        else:
            mine = F.need(name)
        chk.count("K1-sublanguage")
        where = f"{repo.TOKENIZE}:{name}"
        # a lexeme of the Python lexicon is a regular language of its own text: a look-behind makes it depend on what precedes it
        # (`x=1#c`: whether `#c` is a comment would depend on the `1`), which CPython's never does
        import re as _re_k1
        if _re_k1.search(r"\(\?<[=!]", mine):
            chk.fail("K1-sublanguage", name, where,
                     f"`{name}` uses a look-behind: whether a piece of text is this lexeme then depends on the character in front of it, "
                     f"while tokenize.{name} depends on the text alone")
            continue
        try:
            same_tree = rx.normalised_tree(mine) == rx.normalised_tree(ref)
        except rx.Unsupported as e:
            raise AnalysisError(f"{name}: {e}")
        if same_tree:
            chk.ok("K1-sublanguage", name, where, "same regular expression as tokenize." + name)
            continue
        an = rx.Analysis({"mine": mine, "ref": ref}, exhaustive=thorough)
        diff = an.witness_difference("mine", "ref")
        if diff is not None:
            w, a, b = diff
            chk.fail("K1-sublanguage", name, where,
                     f"`{name}` no longer denotes CPython's language: {w!r} is {'accepted' if a else 'rejected'} here and "
                     f"{'accepted' if b else 'rejected'} by tokenize.{name}")
        else:
            chk.undecided("K1-sublanguage", name, where,
                          "same language as CPython's pattern but a different expression: which of several possible matches the "
                          "regex engine prefers is not decided")
    # string bodies: language equal to CPython's and prefix-free (so the match is determined by the language alone)
    endpats = F.need("endpats")
    refs = {"'": pytokenize.Single, '"': pytokenize.Double, "'''": pytokenize.Single3, '"""': pytokenize.Double3}
    chk.count("K1-string-body")
    chk.require(set(endpats) == set(refs), "K1-string-body", "endpats:keys", repo.TOKENIZE,
                f"string terminators are {sorted(endpats)}; CPython has {sorted(refs)}")
    for q, ref in refs.items():
        if q not in endpats:
            continue
        chk.count("K1-string-body")
        an = rx.Analysis({"mine": endpats[q], "ref": ref}, exhaustive=thorough)
        diff = an.witness_difference("mine", "ref")
        key = f"endpats[{q}]"
        if diff is not None:
            w, a, b = diff
            chk.fail("K1-string-body", key, repo.TOKENIZE,
                     f"the body pattern for {q} strings differs from CPython's on {w!r} ({'accepted' if a else 'rejected'} here, "
                     f"{'accepted' if b else 'rejected'} there)")
            continue
        pf = an.witness_not_prefix_free("mine")
        chk.require(pf is None, "K1-string-body", key, repo.TOKENIZE,
                    f"the body pattern for {q} strings can stop at two different places ({pf}): which one is taken depends on regex "
                    f"priorities, not on the language" if pf else "")
    # prefixes
    mine = set(constfold.string_prefix_set())
    ref = set(pytokenize._all_string_prefixes())
    extra = mine - ref
    chk.count("K1-string-prefix")
    chk.require(ref <= mine, "K1-string-prefix", "python-prefixes", repo.TOKENIZE,
                f"CPython string prefixes not accepted: {sorted(ref - mine)}")
    chk.count("K1-string-prefix")
    ok = all(p.isalpha() and "p" in p.lower() for p in extra)
    chk.require(ok, "K1-string-prefix", "xonsh-prefixes", repo.TOKENIZE,
                f"prefixes beyond CPython's must be the p-family (path literals), letters only; found {sorted(extra)}")
    ss = F.need("StringStart")
    chk.count("K1-string-prefix")
    chk.require(ss.startswith("(?P<StringPrefix>(") and ")(?P<Quote>(" in ss and all(p == "" or p.isalpha() for p in mine),
                "K1-string-prefix", "prefix-then-quote", repo.TOKENIZE,
                "a string start must be a letters-only prefix immediately followed by a mandatory quote")


def rule_k2(chk: Check, F):
    ops = set(F.need("OPS"))
    missing = sorted(set(pytoken.EXACT_TOKEN_TYPES) - ops)
    chk.count("K2-operators")
    chk.require(not missing, "K2-operators", "OPS>=EXACT_TOKEN_TYPES", repo.TOKENIZE,
                f"Python operators missing from OPS: {missing} (they would be split or become ERRORTOKENs)")
    special = F.need("Special")
    branches = rx.top_branches(special[1:-1] if special.startswith("(") and special.endswith(")") else special)
    lits = []
    for name, w, sub in branches:
        s = "".join(chr(av) for op, av in sub if str(op) == "LITERAL")
        if len(s) != len(list(sub)):
            raise AnalysisError("Special is not an alternation of literals")
        lits.append(s)
    chk.count("K2-operators")
    chk.require(set(lits) == ops, "K2-operators", "Special==OPS", repo.TOKENIZE,
                f"the operator alternation and OPS differ: {sorted(set(lits) ^ ops)}")
    bad = [(a, b) for i, a in enumerate(lits) for b in lits[i + 1:] if b.startswith(a) and a != b]
    chk.count("K2-operators")
    chk.require(not bad, "K2-operators", "longest-first", repo.TOKENIZE,
                f"operator `{bad[0][0] if bad else ''}` is tried before the longer `{bad[0][1] if bad else ''}` that starts with it: the "
                f"longer operator can never be produced (e.g. `==` read as `=` `=`)")


def rule_k3(chk: Check, F, ir, thorough: bool):
    ops = set(F.need("OPS"))
    xonly = sorted(o for o in ops if o not in pytoken.EXACT_TOKEN_TYPES)
    pychars = set("".join(pytoken.EXACT_TOKEN_TYPES))
    # adjacency relation of the Python fragment of the grammar
    from .c02 import xonsh_helpers
    ix = Index()
    helpers = xonsh_helpers(ix)
    xterms = {"'" + o + "'" for o in xonly} | {"SEARCH_PATH", "MACRO_PARAM", "WS"}

    def py_ok(a):
        if a.action is not None and any(isinstance(n, ast.Call) and isinstance(n.func, ast.Attribute) and n.func.attr in helpers
                                        and norm_stmt(n.func.value) == "self" for n in ast.walk(a.action)):
            return False
        return not any(isinstance(it, (Lit, Tok)) and irtools.term_key(it) in xterms for it in walk_alt_items(a))

    adj = irtools.adjacency(ir.rules, py_ok)
    chk.units["python_adjacent_pairs"] = len(adj)
    pyops = sorted(pytoken.EXACT_TOKEN_TYPES, key=len, reverse=True)

    def split(op: str) -> list[str]:
        out, i = [], 0
        while i < len(op):
            m = next((p for p in pyops if op.startswith(p, i)), None)
            if m is None:
                return []
            out.append(m)
            i += len(m)
        return out

    for op in xonly:
        chk.count("K3-non-interference")
        key = f"operator {op}"
        foreign = [c for c in op if c not in pychars]
        if foreign:
            chk.ok("K3-non-interference", key, repo.TOKENIZE, f"contains {foreign[0]!r}, which no Python token contains")
            continue
        parts = split(op)
        pairs = list(zip(parts, parts[1:]))
        absent = [p for p in pairs if ("'" + p[0] + "'", "'" + p[1] + "'") not in adj]
        if absent:
            chk.ok("K3-non-interference", key, repo.TOKENIZE, f"Python never places `{absent[0][0]}` directly before `{absent[0][1]}`")
        elif op == "@(":
            chk.ok("K3-non-interference", key, repo.TOKENIZE, "documented exception: `@(` changes how `@(` in decorators is split")
        else:
            chk.fail("K3-non-interference", key, repo.TOKENIZE,
                     f"the xonsh operator `{op}` is spelled with Python characters and Python can place {' '.join(parts)} side by side: "
                     f"valid Python text containing `{op}` is now split differently from CPython")
    # SearchPath sits before Number/Special/Name in the alternation: every match must contain a character Python never uses
    sp = F.need("SearchPath")
    an = rx.Analysis({"sp": sp, "nobt": r"[^`]*"}, exhaustive=thorough)
    w = an.witness_intersection(["sp", "nobt"])
    chk.count("K3-non-interference")
    chk.require(w is None, "K3-non-interference", "SearchPath", repo.TOKENIZE,
                f"the search-path pattern matches {w!r}, which contains no backtick: it would capture Python text before the "
                f"number/operator/name patterns get a chance")
    # order of the Python alternatives
    pt = F.need("PseudoToken")
    order = [n for n, w_, s in rx.top_branches(pt)]
    chk.units["pseudo_token_alternatives"] = order
    for a, b, why in (("StringStart", "Name", "string prefixes are made of name characters"),
                      ("Number", "Name", "digits are name characters"),
                      ("Number", "Special", "`.5` must not be read as `.` `5`"),
                      ("Comment", "Special", "a comment swallows the rest of the line"),
                      ("SearchPath", "Name", "search-path prefixes are name characters")):
        chk.count("K3-alternative-order")
        ok = a in order and b in order and order.index(a) < order.index(b)
        chk.require(ok, "K3-alternative-order", f"{a}<{b}", repo.TOKENIZE,
                    f"`{a}` must be tried before `{b}` ({why}); order is {order}")


def rule_k6(chk: Check, F, ix: Index, thorough: bool):
    """Backslash-continued one-quote strings: the continuation test must hold for LF and CRLF line ends alike (finite-domain
    evaluation); and a search path has a unique end (an escaped backtick does not end it)."""
    import copy
    f = ix.get("TokenizerState.in_continued_string")
    chk.count("K6-continuation")
    # decided by evaluating the test from source: a one-quote string goes on exactly when a string is open and its line ends in an
    # *unescaped* backslash before LF / CRLF — an odd number of backslashes (`'a\\\\` + newline ends in an escaped backslash: CPython
    # reports an unterminated string literal there)
    import types as _types
    from .c17 import EvalError as _EvErr, _mini_eval as _mini
    BS = "\\"
    cases = {"'abc" + BS + "\n": True, "'abc" + BS + "\r\n": True, "'abc\n": False, "'abc\r\n": False, "'abc": False, BS + "\n": True,
             "x" + BS + " \n": False, "'a" + BS * 2 + "\n": False, "'a" + BS * 3 + "\n": True, "'a" + BS * 2 + "\r\n": False,
             "'a" + BS * 4 + "\n": False, "'a" + BS: False, "": False, "\n": False}
    bad, und = [], ""
    import re as _re6
    from .c17 import module_pure_constants as _mpc6
    try:
        _env6 = dict(_mpc6(repo.TOKENIZE))
    except Exception:
        _env6 = {}
    _env6["_compile"] = _re6.compile
    _env6["re"] = _types.SimpleNamespace(search=_re6.search, match=_re6.match, fullmatch=_re6.fullmatch, compile=_re6.compile,
                                         DOTALL=_re6.DOTALL, S=_re6.S)
    for line, want in cases.items():
        try:
            got = bool(_mini(f.node, dict(_env6, self=_types.SimpleNamespace(line=line, end_progs=(1,), pos=0, max=len(line))), {"compile", "_compile"}, local_calls=True))
        except _EvErr as e:
            und = str(e)
            break
        if got != want:
            bad.append((line, got))
    if und:
        chk.undecided("K6-continuation", "in_continued_string", f.where, f"continuation test not evaluable: {und}")
    else:
        try:
            off = bool(_mini(f.node, dict(_env6, self=_types.SimpleNamespace(line="'abc" + BS + "\n", end_progs=(), pos=0, max=6)), {"compile", "_compile"}, local_calls=True))
        except _EvErr:
            off = False
        chk.require(not bad and not off, "K6-continuation", "in_continued_string", f.where,
                    f"a one-quote string continues on the next line exactly when a string is open and its line ends in an unescaped backslash "
                    f"(an odd number of them) + LF or CRLF; the test gives (line, answer) {bad or 'True with no open string'}")
    # the "line goes on" flag is consumed by the line it was set for: whenever the line loop does not take the new-statement
    # branch, it clears the flag (or raises) before scanning the line — otherwise the next logical line skips indentation
    # handling (`if x:⏎    f'{a +\⏎ b}'⏎y` put `y` inside the block)
    from ..pyflow import stmt_paths
    tk = ix.get("_tokenize")
    outer = [n for n in tk.node.body if isinstance(n, ast.While) and isinstance(n.test, ast.Constant) and n.test.value is True]
    chk.count("K6-continuation")
    if len(outer) != 1:
        raise AnalysisError("line loop of _tokenize not found")
    dispatch = [st for st in outer[0].body if isinstance(st, ast.If)]
    # the mode dispatch is the `if` chain that asks about the open string / bracket depth (an end-of-input block may precede it)
    dispatch = [st for st in dispatch if "end_progs" in norm_stmt(st.test) or "parenlev" in norm_stmt(st.test)] or dispatch
    leaks = []
    stale: list = []
    if dispatch:
        try:
            for pth in stmt_paths([dispatch[0]]):
                conds = {x[1]: x[2] for x in pth if x[0] == "cond"}
                effects = [x[1] for x in pth if x[0] == "do"]
                # (an open string or f-string takes its own branch; a backslash continuation inside the braces of an f-string sets
                # the flag too, so that branch consumes it like the others)
                if any("next_statement(" in e for e in effects):
                    continue  # a new logical line: indentation is handled
                if pth[-1][1] in ("raise", "break", "continue", "return"):
                    continue
                # the flag is known to be off on this path ...
                off = conds.get("state.continued") is False or conds.get("not state.continued") is True or \
                    any(("not state.continued" in c.split(" or ")[0].split(" and ") or "not state.continued" in c.split(" and ")) and t is True
                        and " or " not in c for c, t in conds.items())
                # ... or it is cleared here
                if not off and "state.continued = False" not in effects:
                    leaks.append([x[1:] for x in pth if x[0] == "cond"])
                # a test of the flag after it was cleared on the same path always reads False
                seq = [x for x in pth if x[0] in ("do", "cond")]
                cleared = next((i for i, x in enumerate(seq) if x[0] == "do" and x[1] == "state.continued = False"), None)
                if cleared is not None and any(x[0] == "cond" and "state.continued" in x[1] for x in seq[cleared + 1:]):
                    stale.append([x[1] for x in seq[cleared + 1:] if x[0] == "cond" and "state.continued" in x[1]][0])
        except AnalysisError as e:
            leaks.append(f"dispatch not analysable: {e}")
    else:
        leaks.append("no dispatch")
    chk.require(not leaks, "K6-continuation", "_tokenize:continued-flag-consumed", tk.where,
                f"a continued line can be scanned without clearing `state.continued` (path {leaks[:1]}): the flag leaks into the next "
                f"logical line, whose indentation is then ignored (`x = (1 + \\⏎ 2)⏎    y = 3` is accepted)")
    chk.count("K6-continuation")
    chk.require(not stale, "K6-continuation", "_tokenize:flag-read-after-clear", tk.where,
                f"`{stale[0] if stale else ''}` is evaluated after `state.continued = False` on the same path, so the flag always reads False "
                f"there: input that ends right after a backslash continuation is no longer refused and its last logical line gets no NEWLINE")
    sp = F.need("SearchPath")
    an = rx.Analysis({"sp": sp}, exhaustive=thorough)
    pf = an.witness_not_prefix_free("sp")
    # a backslash escapes the next character, a backtick included: no match may end at an escaped backtick
    chk.count("K6-continuation")
    try:
        an2 = rx.Analysis({"sp": sp, "esc": r"(?:[^\\]|\\(?:.|\n))*\\`"}, exhaustive=False)
        w = an2.witness_intersection(["sp", "esc"])
    except rx.Unsupported as e:
        raise AnalysisError(f"SearchPath escape rule: {e}")
    chk.require(w is None, "K6-continuation", "SearchPath:escaped-backtick", repo.TOKENIZE,
                f"the search-path pattern matches {w!r}, ending at a backtick that is escaped by a backslash: `a\\`b` is cut in two")
    # the search-path lexeme itself: optional prefix of the letters r g p f in any order and number (or @name), then a backtick
    # body in which a backslash escapes the next character — language equality with this reference, whatever the spelling
    chk.count("K6-continuation")
    REF_SP = r"(?:[rgpf]+|@\w*)?`(?:[^\n`\\]|\\.)*`"
    try:
        an3 = rx.Analysis({"mine": sp, "ref": REF_SP}, exhaustive=thorough)
        d3 = an3.witness_difference("mine", "ref")
    except rx.Unsupported as e:
        raise AnalysisError(f"SearchPath language: {e}")
    chk.require(d3 is None, "K6-continuation", "SearchPath:language", repo.TOKENIZE,
                f"the search-path pattern and its definition (letters r/g/p/f in any order or @name, backtick body with backslash escapes) "
                f"differ on {d3!r} (text, matched here, matched by the definition): such a spelling falls apart into NAME + search path")
    chk.count("K6-continuation")
    chk.require(pf is None, "K6-continuation", "SearchPath:unique-end", repo.TOKENIZE,
                f"the search-path pattern can end at two places ({pf}): an escaped backtick inside the path ends the token early")


def rule_k4(chk: Check, F, ix: Index):
    chk.count("K4-indentation")
    chk.require(F.need("tabsize") == pytokenize.tabsize == 8, "K4-indentation", "tabsize", repo.TOKENIZE,
                f"tab stops are every {F.values.get('tabsize')} columns; CPython uses 8")
    f = ix.get("next_statement")
    loop = next((n for n in own_nodes(f.node) if isinstance(n, ast.While) and "state.pos < state.max" in norm_stmt(n.test)), None)
    if loop is None:
        # the measuring loop may live in a function split off from next_statement: the scanner function that does tab-stop arithmetic
        for q2, f2 in sorted(ix.funcs.items()):
            if f2.rel == repo.TOKENIZE and "tabsize" in norm_stmt(f2.node) and f2.node.name != "next_statement":
                cand = next((n for n in own_nodes(f2.node) if isinstance(n, ast.While) and "state.pos < state.max" in norm_stmt(n.test)), None)
                if cand is not None:
                    f, loop = f2, cand
                    break
    CH = "state.line[state.pos]"
    if loop is None:
        # the same walk written over the characters themselves: `for ch in state.line[...]` (the position advances in the body)
        loop = next((n for n in own_nodes(f.node) if isinstance(n, ast.For) and isinstance(n.target, ast.Name) and not n.orelse
                     and norm_stmt(n.iter) in ("state.line", "state.line[state.pos:]")
                     and any(norm_stmt(s) == "state.pos += 1" for s in ast.walk(n) if isinstance(s, ast.stmt))), None)
        if loop is not None:
            CH = loop.target.id
    if loop is None:
        uses = sorted({n.func.attr for n in ast.walk(f.node) if isinstance(n, ast.Call) and isinstance(n.func, ast.Attribute)
                       and n.func.attr in ("expandtabs", "lstrip", "strip")})
        if uses:
            chk.count("K4-indentation")
            chk.fail("K4-indentation", "indentation-measure", f.where,
                     f"indentation is measured with str.{'/'.join(uses)} instead of character by character: `expandtabs` knows tab stops "
                     f"but not the form-feed reset (a form feed sets the column back to 0), and `lstrip` decides by itself which characters "
                     f"are indentation")
            return
        raise AnalysisError("indentation measuring loop not found")
    # one iteration of the measuring loop as a path set, evaluated for every (character, column): what happens to the column,
    # and whether the character is consumed as indentation — the shape of the if/elif chain is irrelevant
    from ..pyflow import stmt_paths
    import copy

    def subst(text: str) -> ast.expr:
        e = ast.parse(text.replace(CH, "_ch"), mode="eval").body
        return e

    try:
        paths = stmt_paths(loop.body)
    except AnalysisError as e:
        raise AnalysisError(f"indentation measuring loop is not straight-line decision code: {e}")

    def step(ch: str, col: int):
        """(new column, consumed?) for one character, or None if no path applies."""
        for pth in paths:
            env = {"_ch": ch, "column": col}
            ok = True
            for x in pth:
                if x[0] == "cond":
                    try:
                        if bool(constfold.fold_expr(subst(x[1]), env)) != x[2]:
                            ok = False
                            break
                    except Exception as e:
                        raise AnalysisError(f"indentation test `{x[1]}` not evaluable: {e}")
            if not ok:
                continue
            advanced = False
            for x in pth:
                if x[0] != "do":
                    continue
                st = ast.parse(x[1]).body[0]
                tgt = norm_stmt(st.targets[0] if isinstance(st, ast.Assign) else st.target) if isinstance(st, (ast.Assign, ast.AugAssign)) else ""
                if tgt == "column":
                    if isinstance(st, ast.AugAssign):
                        val = constfold.fold_expr(subst(norm_stmt(st.value)), env)
                        if not isinstance(st.op, ast.Add):
                            raise AnalysisError(f"unsupported column update `{x[1]}`")
                        env["column"] = env["column"] + val
                    else:
                        env["column"] = constfold.fold_expr(subst(norm_stmt(st.value)), env)
                elif tgt == "state.pos":
                    advanced = True
            return env["column"], (advanced and pth[-1][1] != "break")
        return None

    ref = {" ": lambda c: c + 1, "\t": lambda c: (c // 8 + 1) * 8, "\f": lambda c: 0}
    for ch, fn in ref.items():
        chk.count("K4-indentation")
        key = f"column-after-{ch!r}"
        bad = None
        for c in range(64):
            r = step(ch, c)
            if r is None or not r[1] or r[0] != fn(c):
                bad = (c, r, fn(c))
                break
        chk.require(bad is None, "K4-indentation", key, f.where,
                    f"after {ch!r} at column {bad[0]} the measure gives {bad[1]} (column, consumed), CPython gives column {bad[2]} and "
                    f"goes on" if bad else "")
    # form feed / tab / space are the only indentation characters: anything else ends the measure without changing the column
    chk.count("K4-indentation")
    others = []
    for ch in ("x", "#", "\n", "\r", "\v", "\xa0", "_", "0"):
        r = step(ch, 5)
        if r is None or r[1] or r[0] != 5:
            others.append((ch, r))
    chk.require(not others, "K4-indentation", "indent-characters", f.where,
                f"only space, tab and form feed are indentation; the measure also consumes or counts {others[:3]}")


def rule_k5(chk: Check, F, ix: Index):
    f = ix.get("next_psuedo_matches")
    ops = F.need("OPS")
    opener = closer = None
    for n in own_nodes(f.node):
        if isinstance(n, ast.If) and isinstance(n.test, ast.Compare) and any("state.parenlev += 1" == norm_stmt(s) for s in n.body):
            opener = n.test
            cur = n
            while len(cur.orelse) == 1 and isinstance(cur.orelse[0], ast.If):
                cur = cur.orelse[0]
                if any("state.parenlev -= 1" == norm_stmt(s) for s in cur.body):
                    closer = cur.test
                    break
    if opener is None or closer is None:
        raise AnalysisError("bracket depth tests not found in next_psuedo_matches")
    opens, closes = set(), set()
    for op in ops:
        if constfold.fold_expr(opener, {"token": op}):
            opens.add(op)
        elif constfold.fold_expr(closer, {"token": op}):
            closes.add(op)
    chk.count("K5-bracket-depth")
    chk.require(opens == {o for o in ops if o[-1] in "([{"}, "K5-bracket-depth", "openers", f.where,
                f"operators that raise the bracket depth: {sorted(opens)}; expected every operator ending in an opening bracket")
    chk.count("K5-bracket-depth")
    chk.require(closes == {")", "]", "}"}, "K5-bracket-depth", "closers", f.where,
                f"operators that lower the bracket depth: {sorted(closes)}; expected exactly ) ] }}")


def run(chk: Check):
    chk.explanation = (
        "Agreement, with the running interpreter's tokenize/token modules as oracle, of every table and sub-language the two "
        "tokenizers are built from: number/name/comment patterns (same expression, else automata equivalence with a witness), "
        "string bodies (language equality and prefix-freeness), string prefixes, operator set and longest-first order, tab stops and "
        "the indentation arithmetic (finite-domain evaluation over columns 0..63), bracket-depth tests evaluated over all "
        "operators; and non-interference of the xonsh additions (foreign characters, or token pairs the Python fragment of the "
        "grammar can never place side by side; search paths need a backtick). Equality of token streams for all sources is not "
        "decided.")
    chk.trusted = ["stdlib tokenize/token tables", "xpverif.constfold", "xpverif.rx automata", "xpverif.irtools adjacency"]
    chk.assumptions = ["the CFG reading over-approximates the PEG, so an absent adjacent pair is absent from Python",
                       "quick tier: alphabet classes sampled (ASCII + literal neighbourhoods + category samples); thorough: all code points"]
    F = constfold.fold_tokenize()
    ix = Index()
    ir = repo.ir_x()
    thorough = chk.tier == "thorough"
    rule_k1(chk, F, thorough)
    rule_k2(chk, F)
    rule_k3(chk, F, ir, thorough)
    rule_k4(chk, F, ix)
    rule_k5(chk, F, ix)
    rule_k6(chk, F, ix, thorough)
    # the wrapper's token filter decides which NEWLINE/NL/COMMENT tokens the grammar sees (CPython's NL vs NEWLINE distinction)
    from .c01 import rule_is_blank
    rule_is_blank(chk, "K7-token-filter")
    from .c08 import rule_l1, rule_l4
    rule_l1(chk, ix)   # positions are part of the agreement with CPython's tokens
    rule_l4(chk, ix)
    from .c08 import rule_l5, rule_l2
    rule_l5(chk, ix)
    rule_l2(chk, ix)   # text buffered over several lines reaches the token stream (FSTRING_MIDDLE / STRING) whole
    chk.floor("K1-sublanguage", 3)
    chk.floor("K1-string-body", 5)
    chk.floor("K3-non-interference", 10)
    chk.floor("K4-indentation", 5)
