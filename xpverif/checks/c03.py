"""C03 — totality: termination of the scan loops and the inventory of what may be raised (DESIGN §4 C03)."""
from __future__ import annotations

import ast
import re
from typing import Optional

from .. import asdl, pyflow, repo, typed
from ..absval import Node, NoneV, members, _Top
from ..common import AnalysisError, Check, norm_stmt, parse_py
from ..ir import Tok as TokItem, walk_alt_items, walk_alts
from ..pyflow import CFG, Index, own_nodes

ENTRY_POINTS = ("Parser.parse_string", "Parser.parse_file", "generate_tokens", "Parser.parse")
ALLOWED_EXC = {"SyntaxError", "IndentationError", "TokenError"}


def entry_roots(ix: Index) -> list[str]:
    """Entry points plus everything the generated parser (dispatched dynamically by parse()) calls on self."""
    roots = list(ENTRY_POINTS)
    gen = parse_py(repo.PARSER_X)
    used = {n.attr for n in ast.walk(gen) if isinstance(n, ast.Attribute) and isinstance(n.value, ast.Name) and n.value.id == "self"}
    for name in used:
        q = f"Parser.{name}"
        if q in ix.funcs:
            roots.append(q)
    for n in ast.walk(gen):
        if isinstance(n, ast.FunctionDef):
            for d in n.decorator_list:
                if isinstance(d, ast.Name) and d.id in ix.funcs:
                    roots.append(d.id)
    return sorted(set(roots))


def is_pos_attr(e: ast.AST) -> bool:
    return isinstance(e, ast.Attribute) and e.attr == "pos"


# ------------------------------------------------------------------ T1: scan loop progress
def rule_t1(chk: Check, ix: Index):
    f = ix.get("_tokenize")
    where0 = f.where
    loops = [n for n in own_nodes(f.node) if isinstance(n, ast.While) and "state.pos < state.max" in norm_stmt(n.test)]
    if len(loops) != 1:
        raise AnalysisError("the per-line scan loop `while state.pos < state.max` of _tokenize was not found")
    loop = loops[0]
    # One iteration of the scan loop as a path set.  On every path: a token came out of the master pattern, or the position is
    # known to have moved since a snapshot taken at the top of the iteration, or the fallback runs — it emits an ERRORTOKEN for
    # the character nothing matched and steps over it.
    from ..pyflow import stmt_paths
    import re as _re
    chk.count("T1-scan-progress")
    try:
        paths = stmt_paths(loop.body, opaque_loops=True)
    except AnalysisError as e:
        chk.undecided("T1-scan-progress", "_tokenize:fallback", where0, f"scan loop body not analysable: {e}")
        paths = set()
    have_fallback = False
    stuck, stale, no_inc = [], [], []
    for pth in paths:
        items = [x for x in pth if x[0] in ("cond", "do")]
        conds = [(x[1], x[2]) for x in pth if x[0] == "cond"]
        eff = [x[1] for x in pth if x[0] == "do"]
        got_token = any((("next_psuedo_matches(state)" in c or _re.fullmatch(r"\w+( is not None)?", c)) and t is True and "state.pos" not in c)
                        or (_re.fullmatch(r"\w+ is None", c) and t is False) for c, t in conds)
        moved = None
        snap = None
        for c, t in conds:
            m = _re.fullmatch(r"(\w+) (==|!=) state\.pos", c) or _re.fullmatch(r"state\.pos (==|!=) (\w+)", c)
            if m:
                g = m.groups()
                snap, op = (g[0], g[1]) if g[1] in ("==", "!=") else (g[1], g[0])
                moved = (t is True) == (op == "!=")
        fell_back = any("Token.ERRORTOKEN" in e for e in eff)
        if fell_back:
            have_fallback = True
            if not any(_re.fullmatch(r"state\.pos \+= [1-9]\d*", e) for e in eff):
                no_inc.append(eff)
        if snap is not None:
            # the snapshot is taken from state.pos in this iteration, before anything that may move the position
            idx = next((i for i, x in enumerate(items) if x[0] == "do" and x[1] == f"{snap} = state.pos"), None)
            movers = [i for i, x in enumerate(items) if "(state)" in x[1] or _re.search(r"state\.pos (\+)?= ", x[1])]
            if idx is None or any(i < idx for i in movers):
                stale.append(snap)
        if not (got_token or moved or fell_back):
            stuck.append(conds)
    if paths:
        chk.require(have_fallback, "T1-scan-progress", "_tokenize:fallback", where0,
                    "the scan loop has no ERRORTOKEN fallback for characters nothing matches")
        chk.count("T1-scan-progress")
        chk.require(not no_inc, "T1-scan-progress", "_tokenize:fallback-increments", where0,
                    "the ERRORTOKEN fallback must advance state.pos by at least one character")
        chk.count("T1-scan-progress")
        chk.require(not stale, "T1-scan-progress", "_tokenize:snapshot-fresh", f"{f.rel}:{loop.lineno}",
                    f"the loop compares state.pos with `{stale[0] if stale else ''}`, which is not re-taken from state.pos at the top of each "
                    f"iteration (before anything that can move the position): once a token has advanced state.pos the stale snapshot "
                    f"never equals it again, the fallback never fires and an unmatched character loops forever")
        chk.count("T1-scan-progress")
        chk.require(not stuck, "T1-scan-progress", "_tokenize:every-path-progresses", where0,
                    f"an iteration can end without a token, without the position having moved and without the fallback: {stuck[:1]}")
    # (ii) monotone writes to .pos everywhere in tokenize.py
    mod = ix.modules[repo.TOKENIZE]
    for g in [x for x in ix.funcs.values() if x.rel == repo.TOKENIZE]:
        for n in own_nodes(g.node):
            tgt = val = None
            if isinstance(n, ast.Assign):
                for t in n.targets:
                    elts = t.elts if isinstance(t, ast.Tuple) else [t]
                    for i, e in enumerate(elts):
                        if is_pos_attr(e):
                            tgt = e
                            val = n.value.elts[i] if isinstance(t, ast.Tuple) and isinstance(n.value, ast.Tuple) else n.value
            elif isinstance(n, ast.AugAssign) and is_pos_attr(n.target):
                tgt, val = n.target, n
            if tgt is None:
                continue
            chk.count("T1-monotone-pos")
            k = f"{g.qual}:{norm_stmt(n)}"
            w = f"{g.rel}:{n.lineno}"
            ok, why = _monotone(g, n, val)
            chk.require(ok, "T1-monotone-pos", k, w, f"write to .pos is not provably non-decreasing: {why}")
    # (iv) next_psuedo_matches returns before matching at end of line
    npm = ix.get("next_psuedo_matches")
    body0 = [st for st in npm.node.body if not (isinstance(st, ast.Expr) and isinstance(st.value, ast.Constant))]
    first = body0[0] if body0 else npm.node.body[0]
    chk.count("T1-scan-progress")
    chk.require(isinstance(first, ast.If) and "state.pos == state.max" in norm_stmt(first.test) and
                isinstance(first.body[0], ast.Return), "T1-scan-progress", "next_psuedo_matches:eol-guard", npm.where,
                "next_psuedo_matches must return before matching when state.pos == state.max (the \\Z branch is zero-width)")


def _branches(n: ast.If):
    """(test, body) for each branch of an if/elif chain; the final else has test None."""
    out = [(n.test, n.body)]
    cur = n
    while len(cur.orelse) == 1 and isinstance(cur.orelse[0], ast.If):
        cur = cur.orelse[0]
        out.append((cur.test, cur.body))
    if cur.orelse:
        out.append((None, cur.orelse))
    return out


def _snapshot_name(guard: ast.expr) -> Optional[str]:
    if isinstance(guard, ast.Compare) and len(guard.ops) == 1 and isinstance(guard.ops[0], ast.Eq):
        a, b = guard.left, guard.comparators[0]
        if is_pos_attr(a) and isinstance(b, ast.Name):
            return b.id
        if is_pos_attr(b) and isinstance(a, ast.Name):
            return a.id
    return None


def _monotone(g, stmt, val) -> tuple[bool, str]:
    if g.node.name in ("__init__", "move_next_line"):
        return True, "start of a new line"
    if isinstance(val, ast.AugAssign):
        v = val.value
        if isinstance(val.op, ast.Add) and ((isinstance(v, ast.Constant) and isinstance(v.value, int) and v.value >= 0)
                                            or (isinstance(v, ast.Call) and norm_stmt(v.func) == "len")):
            return True, ""
        return False, norm_stmt(val)
    if isinstance(val, ast.Attribute) and val.attr == "max":
        return True, ""
    if isinstance(val, ast.BinOp) and isinstance(val.op, ast.Add) and isinstance(val.left, ast.Name) and \
            isinstance(val.right, ast.Constant) and isinstance(val.right.value, int) and val.right.value >= 0:
        # a match boundary plus a non-negative constant: boundaries of a match started at .pos are >= .pos
        return _monotone(g, stmt, val.left)
    if isinstance(val, ast.Name):
        # a local bound from a regex match end / span, or a parameter of that meaning
        defs = []
        for n in own_nodes(g.node):
            if isinstance(n, ast.Assign):
                for t in n.targets:
                    elts = t.elts if isinstance(t, ast.Tuple) else [t]
                    if any(isinstance(e, ast.Name) and e.id == val.id for e in elts):
                        defs.append(n.value)
        def boundary(e, depth=0) -> bool:
            """A match boundary, a boundary plus a non-negative constant, or a local all of whose definitions are such."""
            if _is_match_end(e):
                return True
            if isinstance(e, ast.BinOp) and isinstance(e.op, ast.Add) and isinstance(e.right, ast.Constant) and \
                    isinstance(e.right.value, int) and e.right.value >= 0:
                return boundary(e.left, depth + 1)
            if isinstance(e, ast.Name) and depth < 4:
                ds = []
                for n2 in own_nodes(g.node):
                    if isinstance(n2, ast.Assign):
                        for t2 in n2.targets:
                            elts2 = t2.elts if isinstance(t2, ast.Tuple) else [t2]
                            if any(isinstance(x, ast.Name) and x.id == e.id for x in elts2):
                                ds.append(n2.value)
                return bool(ds) and all(boundary(d, depth + 1) for d in ds)
            return False
        if defs and all(boundary(d) for d in defs):
            return True, ""
        params = [a.arg for a in g.node.args.args]
        if not defs and val.id in params:
            return True, "parameter (call sites checked by L2 in C08)"
        return False, f"`{val.id}` is not taken from a match end"
    return False, norm_stmt(val) if isinstance(val, ast.AST) else str(val)


def _is_match_end(e: ast.expr) -> bool:
    s = norm_stmt(e)
    return (isinstance(e, ast.Call) and isinstance(e.func, ast.Attribute) and e.func.attr in ("span", "end")) or \
        s.endswith(".max")


# ------------------------------------------------------------------ T2: EOF exits
def rule_t2(chk: Check, ix: Index):
    f = ix.get("_tokenize")
    outer = [n for n in f.node.body if isinstance(n, ast.While) and isinstance(n.test, ast.Constant) and n.test.value is True]
    if len(outer) != 1:
        raise AnalysisError("outer `while True` line loop of _tokenize not found")
    loop = outer[0]
    chain = [n for n in loop.body if isinstance(n, ast.If)]
    if not chain:
        raise AnalysisError("mode dispatch of the line loop not found")
    # end of input handled once, in front of the dispatch: an `if <EOF>:` block every path of which leaves the loop or raises
    from ..pyflow import stmt_paths
    hoisted = False
    if _eof_test(chain[0].test) and not chain[0].orelse:
        try:
            ps = stmt_paths(list(chain[0].body), opaque_loops=True, split_bool=True)
            hoisted = bool(ps) and all(p[-1][1] in ("break", "raise", "return") for p in ps)
            # leaving quietly is right between two statements only: a path that ends the scan without raising must have
            # established that no string is open, no bracket is open and no continuation is pending
            for p in ps:
                if p[-1][1] in ("break", "return"):
                    c = {x[1]: x[2] for x in p if x[0] == "cond"}
                    closed = c.get("state.end_progs") is False or c.get("not state.end_progs") is True
                    flat = c.get("state.parenlev == 0") is True or c.get("state.parenlev > 0") is False or c.get("state.parenlev") is False
                    fresh = c.get("state.continued") is False or c.get("not state.continued") is True
                    chk.count("T2-eof-exit")
                    chk.require(closed and flat and fresh, "T2-eof-exit", "_tokenize:eof-block:quiet-exit", f"{f.rel}:{chain[0].lineno}",
                                f"the end-of-input block in front of the dispatch leaves the scan without an error on a path that has not "
                                f"established that no string is open, the bracket depth is 0 and no continuation is pending (facts: {c}): "
                                f"input that ends inside a triple-quoted string, inside brackets or after a backslash is then accepted")
        except AnalysisError:
            hoisted = False
        chain = chain[1:]
        if not chain:
            raise AnalysisError("mode dispatch of the line loop not found")
    branches = _branches(chain[0])
    chk.units["line_loop_branches"] = [norm_stmt(t) if t is not None else "else" for t, _ in branches]
    for test, body in branches:
        name = norm_stmt(test) if test is not None else "else"
        chk.count("T2-eof-exit")
        ok, how = (True, "end of input is handled in front of the dispatch") if hoisted else _eof_leaves(ix, body, loop, name)
        chk.require(ok, "T2-eof-exit", f"_tokenize:{name}", f"{f.rel}:{body[0].lineno}",
                    f"at end of input (readline returned '') the branch `{name}` must leave the line loop or raise; {how}")


EOF_ATOMS = ("not state.line", "state.line == ''", "len(state.line) == 0", "not len(state.line)")
# facts that hold whenever a fresh line has just been read (move_next_line resets the position): harmless as extra conjuncts
IMPLIED_AT_LINE_START = ("state.pos == 0",)


def _eof_test(e: ast.expr) -> bool:
    """Is `e` true whenever the input is exhausted (readline returned '')?  An EOF atom, a disjunction containing one, or a
    conjunction of EOF atoms and facts implied at the start of a line.  `not state.line and <anything else>` is NOT: the other
    conjunct can be false at end of input and the loop goes on without a line."""
    if isinstance(e, ast.BoolOp) and isinstance(e.op, ast.Or):
        return any(_eof_test(v) for v in e.values)
    if isinstance(e, ast.BoolOp) and isinstance(e.op, ast.And):
        return any(_eof_test(v) for v in e.values) and all(_eof_test(v) or norm_stmt(v) in IMPLIED_AT_LINE_START for v in e.values)
    return norm_stmt(e) in EOF_ATOMS


def _eof_leaves(ix: Index, body, loop, branch_cond: str = "") -> tuple[bool, str]:
    # direct: `if not state.line: raise/break`
    for st in body:
        if isinstance(st, ast.If) and _eof_test(st.test) and isinstance(st.body[-1], (ast.Raise, ast.Break, ast.Return)):
            return True, "direct test"
        # via a called function whose first statements test EOF and raise / return a sentinel that breaks
        for c in [n for n in ast.walk(st) if isinstance(n, ast.Call)]:
            name = norm_stmt(c.func)
            g = ix.funcs.get(name)
            if g is None or not any(isinstance(a, ast.Name) and a.id == "state" for a in c.args):
                continue
            for s2 in g.node.body:
                if isinstance(s2, (ast.For, ast.While)):
                    break
                if isinstance(s2, ast.If) and not _eof_test(s2.test) and any(isinstance(x, (ast.Return, ast.Raise)) for x in ast.walk(s2)):
                    # an earlier way out: harmless only if its condition contradicts the branch we came through
                    t = norm_stmt(s2.test)
                    if t not in (f"not {branch_cond}", f"not ({branch_cond})"):
                        return False, (f"{name} can leave through `if {t}` before it looks at end of input: with the input "
                                       f"exhausted inside that state the line loop spins forever")
                    continue
                if isinstance(s2, ast.If) and _eof_test(s2.test):
                    last = s2.body[-1]
                    if isinstance(last, ast.Raise):
                        return True, f"{name} raises"
                    if isinstance(last, ast.Return):
                        # the caller must turn this return value into `break`
                        ret = norm_stmt(last.value) if last.value is not None else "None"
                        tgt = None
                        if isinstance(st, ast.Assign) and isinstance(st.targets[0], ast.Name):
                            tgt = st.targets[0].id
                        for s3 in body:
                            if isinstance(s3, ast.If):
                                for t, b in _branches(s3):
                                    if t is not None and tgt and norm_stmt(t) == f"{tgt} is {ret}" and isinstance(b[-1], ast.Break):
                                        return True, f"{name} returns {ret} -> break"
                        return False, f"{name} returns {ret} at EOF but the caller does not break on it"
    return False, "no end-of-input test found on this branch"


# ------------------------------------------------------------------ T3: unguarded next()
def rule_t3(chk: Check, ix: Index, reach: set[str]):
    for q in sorted(reach):
        f = ix.funcs[q]
        for n in own_nodes(f.node):
            if isinstance(n, ast.Call) and isinstance(n.func, ast.Name) and n.func.id == "next" and len(n.args) == 1:
                chk.count("T3-unguarded-next")
                guarded = _inside_try_catching(f.node, n, ("StopIteration", "Exception", "BaseException"))
                chk.require(guarded, "T3-unguarded-next", f"{q}:{norm_stmt(n)}", f"{f.rel}:{n.lineno}",
                            f"`{norm_stmt(n)}` has no default and no StopIteration handler: when the token stream is "
                            f"exhausted a bare StopIteration (RuntimeError inside a generator) escapes")
    chk.floor("T3-unguarded-next", 1)
    # an unbounded capture loop (`while True:` around the raw fetch) ends at the end of the input: either the fetch raises when the
    # stream is exhausted — on every path of its StopIteration handler — or the loop itself leaves on ENDMARKER
    def always_raises(stmts) -> bool:
        from ..pyflow import stmt_paths
        try:
            ps = stmt_paths(list(stmts), opaque_loops=True)
        except AnalysisError:
            return False
        return bool(ps) and all(p[-1][1] == "raise" for p in ps)

    fetchers: dict[str, bool] = {}
    for q, f in ix.funcs.items():
        if f.cls != "Tokenizer":
            continue
        for t in [n for n in own_nodes(f.node) if isinstance(n, ast.Try)]:
            if any(isinstance(c, ast.Call) and isinstance(c.func, ast.Name) and c.func.id == "next" for b in t.body for c in ast.walk(b)):
                hs = [h for h in t.handlers if h.type is None or "StopIteration" in norm_stmt(h.type) or norm_stmt(h.type) in ("Exception", "BaseException")]
                fetchers[f.node.name] = bool(hs) and all(always_raises(h.body) for h in hs)
    for q, f in sorted(ix.funcs.items()):
        if f.cls != "Tokenizer":
            continue
        for loop in [n for n in own_nodes(f.node) if isinstance(n, ast.While) and isinstance(n.test, ast.Constant) and n.test.value is True]:
            calls = [c for c in ast.walk(loop) if isinstance(c, ast.Call) and isinstance(c.func, ast.Attribute) and c.func.attr in fetchers
                     and norm_stmt(c.func.value) == "self"]
            if not calls:
                continue
            chk.count("T3-capture-loop-exit")
            raising = all(fetchers[c.func.attr] for c in calls)
            on_end = any(isinstance(i, ast.If) and "ENDMARKER" in norm_stmt(i.test) and
                         any(isinstance(x, (ast.Break, ast.Return, ast.Raise)) for b in i.body for x in ast.walk(b)) for i in ast.walk(loop))
            chk.require(raising or on_end, "T3-capture-loop-exit", f"{q}:while-true", f"{f.rel}:{loop.lineno}",
                        f"the capture loop of `{q}` fetches raw tokens without bound: the fetch `{calls[0].func.attr}` can return at the end of "
                        f"the stream (its StopIteration handler does not raise on every path) and the loop has no exit on ENDMARKER — a call "
                        f"macro closed by the wrong bracket (`f!(a]`) then spins forever")
    chk.floor("T3-capture-loop-exit", 1)


def _inside_try_catching(fn, node, names) -> bool:
    for t in ast.walk(fn):
        if isinstance(t, ast.Try):
            if any(node is x for b in t.body for x in ast.walk(b)):
                for h in t.handlers:
                    if h.type is None:
                        return True
                    hs = [norm_stmt(e) for e in (h.type.elts if isinstance(h.type, ast.Tuple) else [h.type])]
                    if any(x in names for x in hs):
                        return True
    return False


# ------------------------------------------------------------------ E1: raise inventory
def rule_e1(chk: Check, ix: Index, reach: set[str]):
    for q in sorted(reach):
        f = ix.funcs[q]
        for n in own_nodes(f.node):
            if not isinstance(n, ast.Raise):
                continue
            chk.count("E1-raise-inventory")
            key = f"{q}:{norm_stmt(n)[:80]}"
            w = f"{f.rel}:{n.lineno}"
            if n.exc is None:
                chk.ok("E1-raise-inventory", key, w, "re-raise")
                continue
            cls = _exc_class(ix, f, n.exc)
            if cls in ALLOWED_EXC:
                chk.ok("E1-raise-inventory", key, w)
            elif cls == "ValueError" and q == "Parser.get_expr_name":
                chk.ok("E1-raise-inventory", key, w, "discharged by E1b exhaustiveness")
            else:
                chk.fail("E1-raise-inventory", key, w,
                         f"raises {cls or 'an exception of unknown class'}; only SyntaxError/IndentationError/TokenError may "
                         f"leave the tokenizer and parser")
    chk.floor("E1-raise-inventory", 12)


def _exc_class(ix: Index, f, e: ast.expr) -> Optional[str]:
    if isinstance(e, ast.Call):
        name = norm_stmt(e.func)
        if name in ("SyntaxError", "IndentationError", "TokenError", "ValueError", "KeyError", "TypeError",
                    "AssertionError", "RuntimeError", "IndexError", "AttributeError", "StopIteration", "NotImplementedError"):
            return name
        # a builder: self._build_syntax_error(...) / parser.make_syntax_error(...)
        if isinstance(e.func, ast.Attribute):
            cands = ix.by_name.get(e.func.attr, [])
            rets = {norm_stmt(c.node.returns) for c in cands if c.node.returns is not None}
            if cands and rets and rets <= {"SyntaxError"}:
                return "SyntaxError"
    return None


def rule_e1b(chk: Check, tr):
    """get_expr_name's ValueError: EXPR_NAME_MAPPING covers every class that can be passed."""
    sub = parse_py(repo.SUBHEADER)
    mapping = None
    for n in sub.body:
        if isinstance(n, ast.Assign) and norm_stmt(n.targets[0]) == "EXPR_NAME_MAPPING" and isinstance(n.value, ast.Dict):
            mapping = {norm_stmt(k).replace("ast.", "") for k in n.value.keys}
    if mapping is None:
        raise AnalysisError("EXPR_NAME_MAPPING vanished")
    covered = mapping | {"Constant"}
    I = tr.interp
    # classes of values flowing into get_expr_name, from the grammar actions
    seen: set[str] = set()
    undecided = False
    for (rule, key), (status, where, detail) in tr.agg.items():
        pass
    fn = I.funcs.get("Parser.get_expr_name")
    if fn is None:
        raise AnalysisError("Parser.get_expr_name vanished")
    # every concrete expr class the grammar can construct
    built = {s.split(":ast.")[1].split("@")[0].split(".")[0] for s in I.ctor_sites if ":ast." in s}
    exprs = sorted(c for c in built if asdl.is_subclass(c, "expr"))
    for c in exprs:
        chk.count("E1b-expr-name-exhaustive")
        if c in covered:
            chk.ok("E1b-expr-name-exhaustive", c, repo.SUBHEADER)
        elif c == "Slice":
            chk.ok("E1b-expr-name-exhaustive", c, repo.SUBHEADER,
                   "a Slice only occurs as Subscript.slice; get_invalid_target returns None for a Subscript")
        else:
            chk.fail("E1b-expr-name-exhaustive", c, repo.SUBHEADER,
                     f"the grammar builds ast.{c} expressions but get_expr_name has no name for them: a ValueError escapes when "
                     f"such an expression is an invalid assignment/deletion target")
    chk.floor("E1b-expr-name-exhaustive", 20)


# ------------------------------------------------------------------ E2: asserts
def rule_e2(chk: Check, ix: Index, reach: set[str]):
    for q in sorted(reach):
        f = ix.funcs[q]
        asserts = [n for n in own_nodes(f.node) if isinstance(n, ast.Assert)]
        if not asserts:
            continue
        cfg = CFG(f.node)
        for a in asserts:
            chk.count("E2-assert")
            key = f"{q}:assert {norm_stmt(a.test)}"
            w = f"{f.rel}:{a.lineno}"
            t = a.test
            var = None
            if isinstance(t, ast.Compare) and len(t.ops) == 1 and isinstance(t.ops[0], ast.IsNot) and \
                    isinstance(t.left, ast.Name) and isinstance(t.comparators[0], ast.Constant) and t.comparators[0].value is None:
                var = t.left.id
            if var is None:
                chk.undecided("E2-assert", key, w, "assertion is not of the form `x is not None`; not decided")
                continue
            params = [p.arg for p in f.node.args.args]
            if var in params:
                chk.undecided("E2-assert", key, w, "asserts a parameter; depends on the callers")
                continue
            # reaching definitions: is there a path from `var = None` to the assert avoiding every other assignment of var?
            node_of = {id(n.stmt): n for n in cfg.nodes if n.stmt is not None}
            an = node_of.get(id(a))
            none_defs, other_defs = [], []
            for n in cfg.nodes:
                st = n.stmt
                if n.kind != "stmt" or st is None:
                    continue
                for tgt, val in _assigned(st):
                    if tgt == var:
                        if isinstance(val, ast.Constant) and val.value is None:
                            none_defs.append(n.id)
                        else:
                            other_defs.append(n.id)
            may_fail = an is not None and any(an.id in cfg.reach([d], avoid=other_defs) for d in none_defs)
            if may_fail:
                chk.fail("E2-assert", key, w,
                         f"`{var}` is initialised to None and there is a path to this assert on which it is never assigned: "
                         f"an AssertionError escapes")
            else:
                chk.ok("E2-assert", key, w)


def _assigned(st):
    out = []
    if isinstance(st, ast.Assign):
        for t in st.targets:
            if isinstance(t, ast.Name):
                out.append((t.id, st.value))
            elif isinstance(t, ast.Tuple):
                for i, e in enumerate(t.elts):
                    if isinstance(e, ast.Name):
                        v = st.value.elts[i] if isinstance(st.value, ast.Tuple) and len(st.value.elts) == len(t.elts) else st.value
                        out.append((e.id, v))
        # chained `a = b = None`
    elif isinstance(st, ast.AnnAssign) and isinstance(st.target, ast.Name) and st.value is not None:
        out.append((st.target.id, st.value))
    elif isinstance(st, ast.AugAssign) and isinstance(st.target, ast.Name):
        out.append((st.target.id, st.value))
    return out


# ------------------------------------------------------------------ E3: subscripts that can raise
def rule_e3(chk: Check, ix: Index, ir):
    names = set(repo.token_enum_names())
    for r in list(ir.rules.values()) + list(ir.helpers.values()):
        for a in r.alts:
            for it in walk_alt_items(a):
                if isinstance(it, TokItem) and it.name not in ("NAME", "KEYWORD", "SOFT_KEYWORD", "ANY_TOKEN"):
                    chk.count("E3-token-lookup")
                    chk.require(it.name in names, "E3-token-lookup", f"{r.name}:{it.name}", str(a.pos),
                                f"`self.token('{it.name}')` looks up Token['{it.name}'], which does not exist (KeyError)")
    chk.floor("E3-token-lookup", 60)
    # get_lines: the line lookup must be total over the requested range
    f = ix.get("Tokenizer.get_lines")
    rets = [n for n in own_nodes(f.node) if isinstance(n, ast.Return) and n.value is not None]
    chk.count("E3-line-lookup")
    total = True
    detail = ""
    for r in rets:
        for s in ast.walk(r.value):
            if isinstance(s, ast.Subscript) and isinstance(s.value, ast.Name) and s.value.id == "lines":
                if not _inside_try_catching(f.node, s, ("KeyError", "LookupError", "Exception")):
                    total = False
                    detail = norm_stmt(r)
    chk.require(total, "E3-line-lookup", "Tokenizer.get_lines:lines[n]", f.where,
                f"`{detail}` indexes the per-line cache with every line number of the requested range, but the cache only holds "
                f"lines on which a kept token starts (and the file scan only lines that exist): a KeyError escapes while building "
                f"a SyntaxError whose span crosses a line without tokens")
    # self._tokens[-1]
    for q in ("Tokenizer.diagnose", "Tokenizer.is_blank", "Tokenizer.get_last_non_whitespace_token",
              "Tokenizer.consume_with_macro_params"):
        f = ix.get(q)
        for n in own_nodes(f.node):
            if isinstance(n, ast.Subscript) and norm_stmt(n.value) == "self._tokens" and norm_stmt(n.slice) == "-1":
                chk.count("E3-last-token")
                key = f"{q}:self._tokens[-1]"
                guarded = any(
                    (isinstance(g, ast.If) and "not self._tokens" in norm_stmt(g.test)) or
                    (isinstance(g, ast.BoolOp) and any(norm_stmt(v) == "self._tokens" for v in g.values) and
                     any(n is x for v in g.values for x in ast.walk(v)))
                    for g in ast.walk(f.node))
                if guarded:
                    chk.ok("E3-last-token", key, f.where)
                else:
                    chk.undecided("E3-last-token", key, f.where,
                                  "relies on the caller having fetched a token before (a rule always peeks its start token)")


def rule_e3c(chk: Check, ix: Index, reach: set[str]):
    """Constant-index subscripts of token text: NEWLINE/DEDENT/ENDMARKER tokens have empty text, so `tok.string[k]` needs a
    guard evaluated first (a kind test that implies non-empty text, or a truthiness/len test)."""
    nonempty_kinds = ("Token.OP", "Token.NAME", "Token.NUMBER", "Token.STRING", "Token.FSTRING_START", "Token.SEARCH_PATH")
    for q in sorted(reach):
        f = ix.funcs[q]
        for n in own_nodes(f.node):
            if not (isinstance(n, ast.Subscript) and isinstance(n.value, ast.Attribute) and n.value.attr == "string"
                    and not isinstance(n.slice, ast.Slice)):
                continue
            tokexpr = norm_stmt(n.value.value)
            chk.count("E3-token-text-index")
            key = f"{q}:{norm_stmt(n)}"

            def is_guard(e: ast.expr) -> bool:
                s0 = norm_stmt(e)
                return any(s0 == f"{tokexpr}.type == {k}" for k in nonempty_kinds) or s0 in (
                    f"{tokexpr}.string", f"len({tokexpr}.string) > 0", f"({tokexpr}.type == Token.OP)") or \
                    (s0.startswith("(") and s0.endswith(")") and is_guard_text(s0[1:-1]))

            def is_guard_text(t: str) -> bool:
                return any(t == f"{tokexpr}.type == {k}" for k in nonempty_kinds)

            guarded = False
            # (a) an earlier conjunct of the same `and`
            for b in own_nodes(f.node):
                if isinstance(b, ast.BoolOp) and isinstance(b.op, ast.And):
                    for i, v in enumerate(b.values):
                        if any(n is x for x in ast.walk(v)):
                            if any(is_guard(u) for u in b.values[:i]):
                                guarded = True
            # (b) an enclosing `if` whose test is (or starts with) a guard
            for b in own_nodes(f.node):
                if isinstance(b, ast.If) and any(n is x for st in b.body for x in ast.walk(st)):
                    t = b.test
                    conj = t.values if isinstance(t, ast.BoolOp) and isinstance(t.op, ast.And) else [t]
                    if any(is_guard(u) for u in conj):
                        guarded = True
            chk.require(guarded, "E3-token-text-index", key, f"{f.rel}:{n.lineno}",
                        f"`{norm_stmt(n)}` indexes a token's text without first establishing that the token has text: implicit "
                        f"NEWLINE, DEDENT and ENDMARKER tokens carry '' and raise IndexError here")
    chk.floor("E3-token-text-index", 1)


# ------------------------------------------------------------------ E5: recursion
def rule_e5(chk: Check, ix: Index):
    guard = False
    for q in ("Parser.parse", "Parser.parse_string", "Parser.parse_file"):
        f = ix.get(q)
        for n in ast.walk(f.node):
            if isinstance(n, ast.ExceptHandler) and n.type is not None and "RecursionError" in norm_stmt(n.type):
                guard = True
    # or: a bracket depth bound in the tokenizer
    tk = ix.modules[repo.TOKENIZE]
    for n in ast.walk(tk):
        if isinstance(n, ast.Compare) and "parenlev" in norm_stmt(n.left) and isinstance(n.ops[0], (ast.Gt, ast.GtE)) \
                and isinstance(n.comparators[0], (ast.Constant, ast.Name)) and not (
                    isinstance(n.comparators[0], ast.Constant) and n.comparators[0].value == 0):
            guard = True
    chk.count("E5-recursion-bound")
    chk.require(guard, "E5-recursion-bound", "no-depth-bound-or-conversion", ix.get("Parser.parse").where,
                "the grammar is recursive and neither a nesting bound in the tokenizer nor a RecursionError -> SyntaxError "
                "conversion at the entry points exists: deeply nested brackets raise RecursionError")


# ------------------------------------------------------------------ E6/X3: parse() never returns None
def rule_e6(chk: Check, ix: Index):
    """parse() never returns None: on every path to a return, the returned name was tested not-None after its last
    assignment, or the path passed a call of a helper that always raises, or the value is the result of a Parser method for
    which the same holds.  Decided on path sets (blind to early returns, if/else nesting, try/finally wrappers)."""
    from ..pyflow import stmt_paths
    always_raise = set()
    for g in ix.funcs.values():
        if g.cls == "Parser":
            c = CFG(g.node)
            if not c.reach([c.entry.id]) & {c.exit.id}:
                always_raise.add(g.node.name)
    chk.units["always_raising_helpers"] = sorted(always_raise)

    def never_none(q: str, depth: int):
        """(ok, n_none_tests, problems)"""
        f = ix.get(q)
        paths = stmt_paths(list(f.node.body))
        bad_ret, leaks, n_none = [], [], 0
        returned = {pth[-1][2] for pth in paths if pth[-1][1] == "return" and re.fullmatch(r"[A-Za-z_]\w*", pth[-1][2] or "")}
        for pth in paths:
            kind, val = pth[-1][1], pth[-1][2]
            if kind == "raise":
                # the None case of a returned local that ends in an explicit raise is a None test too
                if any(x[0] == "cond" and any((x[1] == f"{v} is None" and x[2] is True) or (x[1] == f"{v} is not None" and x[2] is False)
                                              for v in returned) for x in pth):
                    n_none += 1
                continue
            if kind == "end":
                leaks.append(f"{q} falls off the end (returns None)")
                continue
            m = re.fullmatch(r"self\.(\w+)\(.*\)", val)
            if m and f"Parser.{m.group(1)}" in ix.funcs and depth < 3:
                ok2, n2, p2 = never_none(f"Parser.{m.group(1)}", depth + 1)
                n_none += n2
                leaks += p2
                continue
            if not re.fullmatch(r"[A-Za-z_]\w*", val):
                bad_ret.append(val)
                continue
            safe = False
            for x in reversed(pth[:-1]):
                if x[0] == "do" and re.match(rf"(\(?{val}\b[^=]*=[^=])|({val} = )", x[1]):
                    break
                if x[0] == "cond" and ((x[1] == f"{val} is None" and x[2] is False) or (x[1] == f"{val} is not None" and x[2] is True)):
                    safe = True
                    break
                if x[0] == "do":
                    m = re.match(r"self\.(\w+)\(", x[1])
                    if m and m.group(1) in always_raise:
                        safe = True
                        break
            if any(x[0] == "cond" and ((x[1] == f"{val} is None" and x[2] is True) or (x[1] == f"{val} is not None" and x[2] is False)) for x in pth):
                n_none += 1
            if not safe:
                leaks.append(f"{q}: return {val} without a not-None fact or an always-raising call")
        return (not leaks and not bad_ret), n_none, leaks + [f"{q} returns {b}" for b in bad_ret]

    f = ix.get("Parser.parse")
    try:
        ok, n_none, problems = never_none("Parser.parse", 0)
    except AnalysisError as e:
        chk.count("E6-parse-total")
        chk.undecided("E6-parse-total", "Parser.parse:none-raises", f.where, f"parse() is not straight-line decision code: {e}")
        chk.count("E6-parse-total")
        chk.undecided("E6-parse-total", "Parser.parse:returns", f.where, "not analysed")
        return
    chk.count("E6-parse-total")
    chk.require(ok and n_none > 0 and bool(always_raise), "E6-parse-total", "Parser.parse:none-raises", f.where,
                f"a path of parse() can hand None to the caller: {problems[:2]} (always-raising helpers: {sorted(always_raise)})"
                if problems else "parse() never tests its result for None")
    chk.count("E6-parse-total")
    chk.require(not any(" returns " in p0 for p0 in problems), "E6-parse-total", "Parser.parse:returns", f.where,
                f"parse() returns something other than a checked local: {problems[:2]}")


def rule_t4(chk: Check, ix: Index):
    """T4: no regular expression the scanner matches with has exponential ambiguity (a state with two different paths on the
    same word back to itself).  On such a pattern a 40-character line costs 2**40 backtracking steps — a hang at the prompt.
    The patterns are gathered from the call sites, not from a list: every argument of LineState.match()/re.compile() in
    tokenize.py, `.pattern` arguments being resolved to every `pattern=` value handed to add_prog()."""
    from .. import constfold, rx
    from .c10 import add_prog_sites, fold_pattern
    F = constfold.fold_tokenize()
    endpats = F.need("endpats")
    # the test must be able to fire
    if rx.exponential_ambiguity(r"(a+)+b") is None or rx.exponential_ambiguity(r"(?:[^\n`]|\\.)*`") is None \
            or rx.exponential_ambiguity(r"(?:[^\n`\\]|\\.)*`") is not None:
        raise AnalysisError("T4: the exponential-ambiguity test does not separate its built-in examples")
    pats: dict[str, tuple[str, str]] = {}
    for q, f in sorted(ix.funcs.items()):
        if f.rel != repo.TOKENIZE:
            continue
        for n in own_nodes(f.node):
            if not (isinstance(n, ast.Call) and n.args):
                continue
            fn = n.func
            name = fn.attr if isinstance(fn, ast.Attribute) else fn.id if isinstance(fn, ast.Name) else ""
            if name not in ("match", "compile", "_compile", "fullmatch", "search"):
                continue
            a = n.args[0]
            if isinstance(a, ast.Attribute) and a.attr == "pattern":
                continue  # resolved below through add_prog
            if isinstance(a, ast.Name) and a.id in {x.arg for x in f.node.args.args}:
                continue  # the wrapper's own parameter
            if isinstance(fn, ast.Attribute) and name == "match" and isinstance(fn.value, ast.Name) and fn.value.id == "pattern":
                continue  # LineState.match: the compiled parameter
            try:
                pats[f"{f.qual}:{norm_stmt(a)}"] = (constfold.fold_expr(a), f"{f.rel}:{n.lineno}")
            except Exception as e:  # not a constant: undecided, never silent
                chk.count("T4-regex-no-exponential")
                chk.undecided("T4-regex-no-exponential", f"{f.qual}:{norm_stmt(a)}", f"{f.rel}:{n.lineno}", f"pattern is not a foldable constant: {e}")
    for f, n, mode, pat, defs in add_prog_sites(ix):
        if pat is None:
            continue
        for i, p in enumerate(fold_pattern(pat, defs, endpats)):
            pats[f"{f.qual}:add_prog:{mode}:{i}"] = (p, f"{f.rel}:{n.lineno}")
    for key, (p, where) in sorted(pats.items()):
        chk.count("T4-regex-no-exponential")
        if not isinstance(p, str):
            p = getattr(p, "pattern", None)
            if not isinstance(p, str):
                chk.undecided("T4-regex-no-exponential", key, where, "not a string pattern")
                continue
        try:
            w = rx.exponential_ambiguity(p)
        except rx.Unsupported as e:
            chk.undecided("T4-regex-no-exponential", key, where, f"pattern outside the supported fragment: {e}")
            continue
        chk.require(w is None, "T4-regex-no-exponential", key, where,
                    f"the pattern has two different ways to match {w[1]!r} in a loop ({w[0]}): a run of n such pieces followed by a "
                    f"mismatch costs 2**n backtracking steps" if w else "")
    chk.units["scanner_patterns"] = sorted(pats)


def rule_e4_guard(chk: Check, ix: Index):
    """Literal concatenation adds two evaluated literals; str + bytes raises TypeError.  The guard in front of the addition
    must reject exactly the mixed pairs, in both orders (finite-domain evaluation over {str, bytes} x {str, bytes})."""
    from .. import constfold
    n_sites = 0
    for q, f in sorted(ix.funcs.items()):
        if f.rel != repo.SUBHEADER:
            continue
        params = [a.arg for a in f.node.args.args if a.arg not in ("self", "cls")]
        adds = [n for n in own_nodes(f.node) if isinstance(n, ast.Return) and isinstance(n.value, ast.BinOp) and isinstance(n.value.op, ast.Add)
                and isinstance(n.value.left, ast.Name) and isinstance(n.value.right, ast.Name)
                and n.value.left.id in params and n.value.right.id in params]
        guards = [n for n in f.node.body if isinstance(n, ast.If) and "bytes" in norm_stmt(n.test) and any(
            isinstance(c, ast.Call) and norm_stmt(c.func).startswith("self.raise_") for c in ast.walk(n))]
        if not adds or not guards:
            continue
        n_sites += 1
        l, r = adds[0].value.left.id, adds[0].value.right.id
        bad = []
        for a in ("s", b"s"):
            for b in ("t", b"t"):
                try:
                    got = bool(constfold.fold_expr(guards[0].test, {l: a, r: b}))
                except Exception as e:
                    bad.append(("not evaluable", str(e)))
                    continue
                if got != (isinstance(a, bytes) != isinstance(b, bytes)):
                    bad.append((type(a).__name__, type(b).__name__, "rejected" if got else "let through"))
        chk.count("E7-action-type-hazard")
        chk.require(not bad, "E7-action-type-hazard", f"{q}:mixed-literal-guard", f"{f.rel}:{guards[0].lineno}",
                    f"`{norm_stmt(guards[0].test)}` in front of `{norm_stmt(adds[0].value)}` decides {bad[:2]}: a str literal next to a "
                    f"bytes literal must be refused in both orders, otherwise the addition raises TypeError")
    # (an addition with no guard at all is the abstract interpreter's finding E4-mixed-literal-add, fed below)
    chk.units["guarded_literal_additions"] = n_sites


def rule_e9(chk: Check, ix: Index, rule_id: str = "E9-error-arity"):
    """SyntaxError (and its subclasses) takes `(message, details)` where details has 4 fields (file, line, column, text) or 6 (plus
    end line, end column); any other length makes the *constructor* raise TypeError, which escapes instead of the SyntaxError."""
    kinds = ("SyntaxError", "IndentationError", "TabError")
    n = 0
    for q, f in sorted(ix.funcs.items()):
        if f.rel not in (repo.SUBHEADER, repo.TOKENIZER, repo.TOKENIZE):
            continue
        sizes: dict[str, Optional[int]] = {}
        for st in sorted((x for x in own_nodes(f.node) if isinstance(x, ast.stmt)), key=lambda x: (x.lineno, x.col_offset)):
            if isinstance(st, ast.Assign) and len(st.targets) == 1 and isinstance(st.targets[0], ast.Name):
                sizes[st.targets[0].id] = len(st.value.elts) if isinstance(st.value, ast.Tuple) and st.targets[0].id not in sizes else None
            elif isinstance(st, ast.AugAssign) and isinstance(st.target, ast.Name) and isinstance(st.op, ast.Add):
                cur = sizes.get(st.target.id)
                sizes[st.target.id] = cur + len(st.value.elts) if cur is not None and isinstance(st.value, ast.Tuple) else None
        for c in own_nodes(f.node):
            if not (isinstance(c, ast.Call) and norm_stmt(c.func) in kinds and len(c.args) == 2 and not c.keywords):
                continue
            d = c.args[1]
            size = len(d.elts) if isinstance(d, ast.Tuple) and not any(isinstance(e, ast.Starred) for e in d.elts) else \
                sizes.get(d.id) if isinstance(d, ast.Name) else None
            n += 1
            chk.count(rule_id)
            if size is None:
                chk.undecided(rule_id, f"{q}:{norm_stmt(c.func)}", f"{f.rel}:{c.lineno}", "the number of detail fields is not visible")
                continue
            chk.require(size in (4, 6), rule_id, f"{q}:{norm_stmt(c.func)}", f"{f.rel}:{c.lineno}",
                        f"`{norm_stmt(c.func)}` is built with {size} detail fields; the constructor accepts 4 or 6 and raises TypeError "
                        f"('end_offset must be provided when end_lineno is provided') for anything else — a TypeError escapes instead of "
                        f"the syntax error")
    chk.floor(rule_id, 2)


def _one_char_guarded(fn: ast.FunctionDef, call: ast.Call) -> bool:
    """`ord(X)` after a top-level `if [.. or] X not in (<one-character constants>) [or ..]: <raise>` with X not rebound in between."""
    t = norm_stmt(call.args[0])
    names = {x.id for x in ast.walk(call.args[0]) if isinstance(x, ast.Name)}
    at = next((i for i, st in enumerate(fn.body) if any(x is call for x in ast.walk(st))), None)
    if at is None or not names:
        return False
    for i in range(at - 1, -1, -1):
        st = fn.body[i]
        if isinstance(st, ast.If) and not st.orelse:
            tests = st.test.values if isinstance(st.test, ast.BoolOp) and isinstance(st.test.op, ast.Or) else [st.test]
            hit = any(isinstance(x, ast.Compare) and len(x.ops) == 1 and isinstance(x.ops[0], ast.NotIn) and norm_stmt(x.left) == t
                      and isinstance(x.comparators[0], (ast.Tuple, ast.List, ast.Set)) and x.comparators[0].elts
                      and all(isinstance(e, ast.Constant) and isinstance(e.value, str) and len(e.value) == 1 for e in x.comparators[0].elts)
                      for x in tests)
            last = st.body[-1]
            leaves = isinstance(last, ast.Raise) or (isinstance(last, ast.Expr) and isinstance(last.value, ast.Call)
                                                     and norm_stmt(last.value.func).startswith("self.raise_"))
            if hit and leaves:
                return True
        if any(isinstance(x, ast.Name) and x.id in names and not isinstance(x.ctx, ast.Load) for x in ast.walk(st)):
            return False
    return False


def rule_e8(chk: Check, ix: Index):
    """E8: builtin conversions applied to text of the input (int(), float(), complex(), chr(), bytes.fromhex, ...) raise
    ValueError/OverflowError on inputs the tokenizer accepts (a 5000-digit literal exceeds the int<->str limit); such a call must
    sit in a `try` that turns the failure into a SyntaxError.  `ast.literal_eval` reports a SyntaxError itself (C11 deals with
    where it points) but also raises ValueError (UnicodeEncodeError) for a lone surrogate in the text."""
    RISKY = {"int", "float", "complex", "chr", "ord", "bytes.fromhex", "bytearray.fromhex", "int.from_bytes", "ast.literal_eval"}
    n = 0
    for q, f in sorted(ix.funcs.items()):
        if f.rel not in (repo.SUBHEADER, repo.TOKENIZER, repo.TOKENIZE):
            continue
        for c in own_nodes(f.node):
            if isinstance(c, ast.Call) and norm_stmt(c.func) in RISKY and c.args and not all(isinstance(a, ast.Constant) for a in c.args):
                if isinstance(c.args[0], ast.Call) and norm_stmt(c.args[0].func) == "isinstance":
                    continue
                if norm_stmt(c.func) == "ord" and len(c.args) == 1 and _one_char_guarded(f.node, c):
                    n += 1
                    chk.count("E8-conversion-call")
                    chk.ok("E8-conversion-call", f"{q}:{norm_stmt(c)[:50]}", f"{f.rel}:{c.lineno}",
                           "the argument was tested to be one of a set of one-character strings, the other case raises")
                    continue
                n += 1
                chk.count("E8-conversion-call")
                chk.require(_inside_try_catching(f.node, c, ("ValueError", "Exception", "OverflowError")), "E8-conversion-call",
                            f"{q}:{norm_stmt(c)[:50]}", f"{f.rel}:{c.lineno}",
                            f"`{norm_stmt(c)[:60]}` converts text of the input and can raise ValueError/OverflowError (e.g. a decimal "
                            f"literal of more than 4300 digits): the exception escapes instead of a SyntaxError")
    chk.count("E8-conversion-call")
    chk.ok("E8-conversion-call", "conversion-calls-scanned", repo.SUBHEADER, f"{n} call(s)")


def ir_for_w1():
    return repo.ir_x()


def run(chk: Check):
    chk.explanation = (
        "Per loop and per raise site: the per-line scan loop makes progress on every iteration (fresh position snapshot for the "
        "no-match fallback, monotone writes to the scan position, fallback increments, end-of-line guard); every mode of the "
        "line loop leaves at end of input; no bare next() on the token stream; only SyntaxError/IndentationError/TokenError "
        "are raised from code reachable from the entry points, asserts cannot see None, lookups are total, parse() never "
        "returns None, and the action-level type hazards found by the abstract interpreter (attribute/iteration/operand on "
        "a value of the wrong kind) are absent.")
    chk.explanation += ' (T4) no regular expression the scanner matches with has exponential ambiguity (two different paths on one word around a state of the pattern automaton), decided for every pattern found at a match/compile call site.'
    chk.trusted = ["xpverif.pyflow CFG and syntactic call graph", "xpverif.absint"]
    chk.assumptions = ["regular-expression facts used by the progress argument (every PseudoToken branch but \\Z is at least one "
                       "character wide) are decided under C08/C09",
                       "callees are resolved syntactically (method name) — an over-approximation of reachability"]
    ix = Index()
    reach = ix.reachable(entry_roots(ix))
    chk.units["functions"] = len(ix.funcs)
    chk.units["reachable_from_entry_points"] = len(reach)
    ir = repo.ir_x()
    rule_t1(chk, ix)
    rule_t2(chk, ix)
    rule_t3(chk, ix, reach)
    rule_t4(chk, ix)
    # exponential re-parsing is a hang for practical purposes, like T4: same-position forks through unmemoised cycles (C18 W1)
    from .c18 import rule_w1
    rule_w1(chk, ir_for_w1(), False, "W1-memo-barrier")
    from .c18 import rule_w4
    rule_w4(chk, ir_for_w1())
    rule_e1(chk, ix, reach)
    tr = typed.run()
    rule_e1b(chk, tr)
    rule_e2(chk, ix, reach)
    rule_e3(chk, ix, ir)
    rule_e3c(chk, ix, reach)
    rule_e5(chk, ix)
    rule_e6(chk, ix)
    rule_e4_guard(chk, ix)
    rule_e8(chk, ix)
    from .x11 import rule_x11
    rule_x11(chk, "E8-conversion-call")   # literal evaluation: every outcome of ast.literal_eval is a value or a syntax error
    rule_e9(chk, ix)
    from .c01 import rule_is_blank
    rule_is_blank(chk, "K7-token-filter")  # the filter runs on every token: an unguarded look at the previous one raises IndexError
    from .c12 import rule_z4
    rule_z4(chk, ix)   # the file is opened only when there is one (an empty source must still end in SyntaxError)
    tr.feed(chk, {k: "E7-action-type-hazard" for k in (
        "S0-bad-attribute", "S0-none-attribute", "S0-none-iterated", "S0-none-subscript", "S0-bad-operand", "S0-bad-index",
        "S0-unpack-arity", "S0-call-arity", "S0-none-len", "S0-chain-nonlist", "S0-index-empty", "E4-mixed-literal-add", "S0-assert-none")})
    chk.units["type_hazard_rules"] = "attribute/subscript/iteration/operand/arity hazards met while typing 600+ action call sites"
    chk.floor("T1-scan-progress", 3)
    chk.floor("T1-monotone-pos", 6)
    chk.floor("T2-eof-exit", 3)
    chk.floor("T4-regex-no-exponential", 5)
    chk.floor("E2-assert", 3)
    chk.floor("E6-parse-total", 2)
