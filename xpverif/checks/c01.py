"""C01 — structural clauses of "pure Python parses to exactly CPython's AST" (DESIGN §4 C01, A1–A9)."""
from __future__ import annotations

import ast

from .. import actions, asdl, irtools, repo, typed
from ..absval import NONE, ListV, Node, TupleV, members, _Top
from ..common import AnalysisError, Check, norm_stmt, parse_py
from ..ir import Alt, Group, Lit, Look, Ref, Rule, Tok, walk_alt_items, walk_alts, Cut, Forced, Opt, Rep, Gather

VARIABLE_TEXT_TOKENS = {"NAME", "NUMBER", "STRING", "FSTRING_START", "FSTRING_MIDDLE", "SEARCH_PATH", "MACRO_PARAM",
                        "OP", "ANY_TOKEN", "KEYWORD", "SOFT_KEYWORD", "WS", "TYPE_COMMENT", "ERRORTOKEN", "COMMENT"}

# source order of fields where it differs from ASDL order (facts of the language definition)
SOURCE_ORDER = {
    "IfExp": ("body", "test", "orelse"),
    "FunctionDef": ("name", "type_params", "args", "returns", "type_comment", "body"),
    "AsyncFunctionDef": ("name", "type_params", "args", "returns", "type_comment", "body"),
    "ClassDef": ("name", "type_params", "bases", "keywords", "body"),
    "For": ("target", "iter", "type_comment", "body", "orelse"),
    "AsyncFor": ("target", "iter", "type_comment", "body", "orelse"),
    "With": ("items", "type_comment", "body"),
    "AsyncWith": ("items", "type_comment", "body"),
    "ImportFrom": ("level", "module", "names"),
}

LADDER = [
    {"Or"}, {"And"}, {"Not"},
    {"Eq", "NotEq", "Lt", "LtE", "Gt", "GtE", "Is", "IsNot", "In", "NotIn"},
    {"BitOr"}, {"BitXor"}, {"BitAnd"}, {"LShift", "RShift"}, {"Add", "Sub"},
    {"Mult", "Div", "FloorDiv", "Mod", "MatMult"}, {"UAdd", "USub", "Invert"}, {"Pow"},
]


def live_rules(ir) -> set[str]:
    """Rules whose value can reach a returned tree: reachable from the start rules without passing
    through an invalid_* rule."""
    g = irtools.ref_graph(ir.rules)
    g = {k: {w for w in v if not w.startswith("invalid_")} for k, v in g.items() if not k.startswith("invalid_")}
    roots = [r for r in ("file", "eval") if r in ir.rules]
    if len(roots) != 2:
        raise AnalysisError("start rules `file`/`eval` not found")
    return irtools.reachable(g, roots)


def variable_rules(rules: dict[str, Rule]) -> set[str]:
    """Rules that can consume a variable-text token (least fixpoint)."""
    var: set[str] = set()

    def item_var(it) -> bool:
        if isinstance(it, Tok):
            return it.name in VARIABLE_TEXT_TOKENS
        if isinstance(it, Ref):
            return it.name in var
        if isinstance(it, (Lit, Cut, Look)):
            return False
        if isinstance(it, Group):
            return any(any(item_var(ni.item) for ni in a.items) for a in it.alts)
        return any(item_var(c) for c in it.children())

    changed = True
    while changed:
        changed = False
        for r in rules.values():
            if r.name not in var and any(any(item_var(ni.item) for ni in a.items) for a in r.alts):
                var.add(r.name)
                changed = True
    variable_rules.item_var = item_var  # type: ignore[attr-defined]
    return var


def rule_a2(chk: Check, ir, live: set[str]):
    """No lost capture (on the grammar IR: the generated code never binds an unused capture)."""
    from .. import translate as T
    g = repo.gram_x()
    never = repo.never_emitted_token_kinds()
    var = variable_rules(g.rules)
    item_var = variable_rules.item_var  # type: ignore[attr-defined]

    def can_match(it) -> bool:
        if isinstance(it, Tok):
            return it.name not in never
        if isinstance(it, Group):
            return any(all(can_match(ni.item) for ni in a.items if not isinstance(ni.item, (Opt, Look))) for a in it.alts)
        if isinstance(it, (Opt,)):
            return can_match(it.item)
        if isinstance(it, Rep):
            return can_match(it.item)
        return True

    for rule, key, a in actions.all_alts(g.rules):
        if rule.name not in live or not a.action_src:
            continue
        try:
            src = a.action_src.replace("LOCATIONS", "**_L").replace("UNREACHABLE", "None")
            act = ast.parse("(" + src + "\n)", mode="eval").body
        except SyntaxError:
            continue
        if actions.is_raise_only(act):
            continue
        used = {n.id for n in ast.walk(act) if isinstance(n, ast.Name)}
        for j, ni in enumerate(a.items):
            it = ni.item
            if isinstance(it, (Look, Cut)):
                continue
            if not item_var(it) or not can_match(it):
                continue
            chk.count("A2-no-lost-capture")
            name = ni.name or T.implicit_name(it, "X")
            k = f"{key}:{name or j}"
            if name in used:
                chk.ok("A2-no-lost-capture", k, str(a.pos))
            else:
                chk.fail("A2-no-lost-capture", k, str(a.pos),
                         f"`{ni}` consumes source text that varies, but the action `{' '.join(a.action_src.split())[:80]}` "
                         f"never mentions it: the information is dropped from the tree")


def rule_a3(chk: Check, ir, live: set[str]):
    """Operator class <-> spelling."""
    opwords = set()
    for table in (asdl.BINOP, asdl.UNOP, asdl.CMPOP, asdl.BOOLOP):
        for sp in table.values():
            opwords.update(sp.split())
    aug = {sp + "=": k for k, sp in asdl.BINOP.items()}
    opwords |= set(aug) | set(actions.SYNONYMS)
    spelling = {}
    for table in (asdl.BINOP, asdl.UNOP, asdl.CMPOP, asdl.BOOLOP):
        for k, sp in table.items():
            spelling.setdefault(k, set()).add(tuple(sp.split()))
    # Add/Sub are both binary and unary spellings of the same token; UAdd/USub share them
    for rule, key, a in actions.all_alts(ir.rules):
        if rule.name not in live or a.action is None:
            continue
        classes = actions.op_classes_in(a.action)
        if not classes:
            continue
        paths = actions.literal_paths(a.items)
        for K in classes:
            chk.count("A3-operator-table")
            k = f"{key}:ast.{K}"
            expected = set(spelling[K])
            if K in asdl.BINOP:
                expected.add((asdl.BINOP[K] + "=",))  # augmented assignment form
            ok_all = True
            why = ""
            for p in paths:
                ops = tuple(SYN(x) for x in p if x in opwords)
                if ops not in expected:
                    ok_all = False
                    why = f"literals {list(p)} spell {' '.join(ops) or 'no operator'}"
                    break
            if ok_all:
                chk.ok("A3-operator-table", k, str(a.pos))
            else:
                chk.fail("A3-operator-table", k, str(a.pos),
                         f"the alternative `{a}` builds ast.{K} (spelled {sorted(' '.join(e) for e in expected)}) but its {why}")


def SYN(x: str) -> str:
    return actions.SYNONYMS.get(x, x)


def rule_a4(chk: Check, ir, live: set[str]):
    """Operand order: captures feed fields in source order."""
    for rule, key, a in actions.all_alts(ir.rules):
        if rule.name not in live or a.action is None:
            continue
        caps = actions.capture_names(a)
        if len(caps) < 2:
            continue
        counts: dict[str, int] = {}
        for call in actions.ast_calls(a.action):
            cls = call.func.attr
            n = counts.get(cls, 0)
            counts[cls] = n + 1
            sig = asdl.signature(cls)
            if not sig or len(sig) < 2:
                continue
            order = SOURCE_ORDER.get(cls) or tuple(f.name for f in sig)
            given: dict[str, ast.expr] = {}
            for f, v in zip(sig, call.args):
                given[f.name] = v
            for kw in call.keywords:
                if kw.arg:
                    given[kw.arg] = kw.value
            seq = []
            for fname in order:
                if fname in given:
                    fc = actions.free_captures(given[fname], caps)
                    if len(fc) == 1:
                        seq.append((fname, next(iter(fc))))
            # distinct captures only
            pairs = []
            for i in range(len(seq)):
                for j in range(i + 1, len(seq)):
                    if seq[i][1] != seq[j][1]:
                        pairs.append((seq[i], seq[j]))
            if not pairs:
                continue
            chk.count("A4-operand-order")
            k = f"{key}:ast.{cls}" + (f"@{n}" if n else "")
            bad = [(x, y) for x, y in pairs if caps[x[1]] > caps[y[1]]]
            if bad:
                (f1, c1), (f2, c2) = bad[0]
                chk.fail("A4-operand-order", k, str(a.pos),
                         f"`{f1}` is written before `{f2}` in the source, but `{f1}={c1}` is the later item of `{a}` "
                         f"and `{f2}={c2}` the earlier one (operands swapped)")
            else:
                chk.ok("A4-operand-order", k, str(a.pos))


def fallthrough_edges(r: Rule) -> list[str]:
    out = []
    for a in r.alts:
        if len(a.items) == 1 and isinstance(a.items[0].item, Ref) and isinstance(a.action, ast.Name) \
                and a.action.id == a.items[0].name and not a.invalid_guard:
            out.append(a.items[0].item.name)
    return out


def level_ops(ir, r: Rule) -> set[str]:
    """Operator classes built by the non-fall-through alternatives of r; compare-pair helper rules are
    followed one level (a rule all of whose alternatives are single references / a group of them)."""
    ops: set[str] = set()
    for a in r.alts:
        if a.action is None or a.invalid_guard:
            continue
        ops |= set(actions.op_classes_in(a.action))
        if any(isinstance(n, ast.Attribute) and n.attr == "Await" for n in ast.walk(a.action)):
            ops.add("Await")
        if "Compare" in [c.func.attr for c in actions.ast_calls(a.action)]:
            for it in walk_alt_items(a):
                if isinstance(it, Ref) and it.name in ir.rules and it.name != r.name:
                    sub = ir.rules[it.name]
                    for b in sub.alts:
                        for it2 in walk_alt_items(b):
                            if isinstance(it2, Ref) and it2.name in ir.rules:
                                for c in ir.rules[it2.name].alts:
                                    if c.action is not None:
                                        ops |= set(x for x in actions.op_classes_in(c.action) if x in asdl.CMPOP)
                        if b.action is not None:
                            ops |= set(x for x in actions.op_classes_in(b.action) if x in asdl.CMPOP)
    return ops


def rule_a7_a8(chk: Check, ir):
    if "eval" not in ir.rules:
        raise AnalysisError("start rule eval not found")
    # longest fall-through chain from the rule that `eval` wraps
    first = [it.name for it in walk_alt_items(ir.rules["eval"].alts[0]) if isinstance(it, Ref)]
    if not first:
        raise AnalysisError("eval does not reference an expression rule")

    best: list[str] = []

    def dfs(name, path):
        nonlocal best
        if name in path or name not in ir.rules:
            return
        path = path + [name]
        if len(path) > len(best):
            best = path
        for nxt in fallthrough_edges(ir.rules[name]):
            dfs(nxt, path)

    dfs(first[0], [])
    levels = [(n, level_ops(ir, ir.rules[n])) for n in best]
    seq = [(n, ops) for n, ops in levels if ops]
    chk.units["precedence_chain"] = [f"{n}:{sorted(o)}" for n, o in levels]
    got = [o for _, o in seq]
    want = LADDER + [{"Await"}]
    chk.count("A8-precedence-ladder", len(seq))
    if got == want:
        for n, o in seq:
            chk.ok("A8-precedence-ladder", f"{n}:{'/'.join(sorted(o))}", str(ir.rules[n].pos))
    else:
        for i in range(max(len(got), len(want))):
            g = got[i] if i < len(got) else None
            w = want[i] if i < len(want) else None
            n = seq[i][0] if i < len(seq) else "<end>"
            if g != w:
                chk.fail("A8-precedence-ladder", f"level{i}", str(ir.rules[n].pos) if n in ir.rules else "",
                         f"precedence level {i} (rule `{n}`) builds {sorted(g) if g else 'nothing'}; Python's ladder has "
                         f"{sorted(w) if w else 'no further level'} here")
                break
            chk.ok("A8-precedence-ladder", f"{n}:{'/'.join(sorted(g))}", str(ir.rules[n].pos))
    # A7: associativity of every BinOp / BoolOp level on the chain
    chain = best
    for idx, n in enumerate(chain):
        r = ir.rules[n]
        nxt = chain[idx + 1] if idx + 1 < len(chain) else None
        for i, a in enumerate(r.alts):
            if a.action is None:
                continue
            for call in actions.ast_calls(a.action):
                if call.func.attr != "BinOp":
                    continue
                kw = {k.arg: k.value for k in call.keywords if k.arg}
                caps = actions.capture_names(a)
                l, rt, op = kw.get("left"), kw.get("right"), kw.get("op")
                if not (isinstance(l, ast.Name) and isinstance(rt, ast.Name) and l.id in caps and rt.id in caps):
                    continue
                li, ri = a.items[caps[l.id]].item, a.items[caps[rt.id]].item
                K = op.func.attr if isinstance(op, ast.Call) and isinstance(op.func, ast.Attribute) else "?"
                chk.count("A7-associativity")
                key = f"{n}#alt{i}:ast.{K}"
                if K == "Pow":
                    good = isinstance(li, Ref) and li.name == nxt and isinstance(ri, Ref) and ri.name in chain[:idx + 1] \
                        and ri.name != n
                    chk.require(good, "A7-associativity", key, str(a.pos),
                                f"`**` must be right-associative: left operand the next-tighter rule `{nxt}`, right operand a "
                                f"looser rule that leads back here; found left=`{li}`, right=`{ri}`")
                else:
                    good = isinstance(li, Ref) and li.name == n and isinstance(ri, Ref) and ri.name == nxt \
                        and r.decorator == "memoize_left_rec"
                    chk.require(good, "A7-associativity", key, str(a.pos),
                                f"binary `{asdl.BINOP.get(K, K)}` must be left-associative: left operand the rule itself "
                                f"(grown as a left-recursive seed, @memoize_left_rec), right operand the next-tighter rule "
                                f"`{nxt}`; found left=`{li}`, right=`{ri}`, decorator @{r.decorator}")


def rule_a5_span(chk: Check):
    """Span provenance: Parser.span and the token it asks for."""
    sub = parse_py(repo.SUBHEADER)
    parser = repo.find_class(sub, "Parser")
    span = repo.find_func(parser, "span")
    params = [a.arg for a in span.args.args]
    ret = [n for n in ast.walk(span) if isinstance(n, ast.Return)]
    chk.count("A5-span-body")
    ok = False
    detail = "Parser.span does not return a four-key location mapping"
    if len(params) == 3 and len(ret) == 1 and isinstance(ret[0].value, ast.Dict):
        d = ret[0].value
        keys = [k.value if isinstance(k, ast.Constant) else None for k in d.keys]
        vals = [norm_stmt(v) for v in d.values]
        m = dict(zip(keys, vals))
        # end must be `<last non-whitespace token>.end`
        endvar = None
        LAST = "self._tokenizer.get_last_non_whitespace_token()"
        for st in span.body:
            if isinstance(st, ast.Assign) and len(st.targets) == 1 and isinstance(st.targets[0], ast.Name):
                if norm_stmt(st.value) == LAST + ".end":
                    endvar = st.targets[0].id
                elif norm_stmt(st.value) == LAST:
                    endvar = st.targets[0].id + ".end"
        if endvar is None and LAST + ".end[0]" in vals:
            endvar = LAST + ".end"
        want = {"lineno": params[1], "col_offset": params[2],
                "end_lineno": f"{endvar}[0]", "end_col_offset": f"{endvar}[1]"}
        ok = endvar is not None and m == want
        detail = f"Parser.span maps {m}, expected {want} with end = get_last_non_whitespace_token().end"
    chk.require(ok, "A5-span-body", "Parser.span", f"{repo.SUBHEADER}:{span.lineno}", detail)
    # skip set of get_last_non_whitespace_token
    tk = parse_py(repo.TOKENIZER)
    tcls = repo.find_class(tk, "Tokenizer")
    fn = repo.find_func(tcls, "get_last_non_whitespace_token")
    skip = None
    import types as _types
    from .. import constfold as _cf
    kinds = sorted(repo.token_enum_names())
    TokenNS = _types.SimpleNamespace(**{k: ("Token", k) for k in kinds})
    lits = {k: (frozenset(("Token", x.split(".")[-1]) if isinstance(x, str) else x for x in v) if isinstance(v, (set, frozenset, tuple, list)) else v)
            for k, v in _cf.module_literals().items()}
    for n in ast.walk(fn):
        if isinstance(n, ast.Compare) and len(n.ops) == 1 and isinstance(n.ops[0], (ast.NotIn, ast.In)) and "type" in norm_stmt(n.left):
            # which token kinds does the scan step over?  (finite-domain evaluation; the set may be a literal or a named constant)
            import copy as _copy
            n2 = _copy.deepcopy(n)
            n2.left = ast.Name("_kind", ast.Load())
            ast.fix_missing_locations(n2)
            got = set()
            try:
                for k in kinds:
                    env = {"_kind": ("Token", k), "Token": TokenNS}
                    # a module-level constant holding Token members is read from its definition
                    for cname in [x.id for x in ast.walk(n.comparators[0]) if isinstance(x, ast.Name) and x.id not in ("Token",)]:
                        env[cname] = _token_set_constant(cname)
                    keep = bool(_cf.fold_expr(n2, env, data_attrs=("type",) + tuple(kinds)))
                    if keep != isinstance(n.ops[0], ast.NotIn) or (isinstance(n.ops[0], ast.In) and keep):
                        pass
                    stepped_over = (not keep) if isinstance(n.ops[0], ast.NotIn) else keep
                    if stepped_over:
                        got.add(k)
                skip = got
            except Exception:
                skip = None
    chk.count("A5-span-body")
    _und_lt, _bad_lt = ("", [])
    if skip != {"ENDMARKER", "NEWLINE", "INDENT", "DEDENT"}:
        _und_lt, _bad_lt = eval_last_token(fn)
        if not _und_lt and not _bad_lt:
            skip = {"ENDMARKER", "NEWLINE", "INDENT", "DEDENT"}    # shape not recognised; decided by evaluation over all buffers <= 4
    chk.require(skip == {"ENDMARKER", "NEWLINE", "INDENT", "DEDENT"}, "A5-span-body",
                "Tokenizer.get_last_non_whitespace_token:skip-set", f"{repo.TOKENIZER}:{fn.lineno}",
                f"tokens skipped when closing a span are {sorted(skip) if skip else None}; CPython's spans end at the last token "
                f"that is not ENDMARKER/NEWLINE/INDENT/DEDENT")
    # backwards scan starts at index-1 and steps by -1
    txt = [norm_stmt(s) for s in fn.body]
    chk.count("A5-span-body")
    # accepted idioms: `idx = self._index - 1; while idx >= 0: ...; idx -= 1`  or  `for idx in range(self._index - 1, -1, -1): ...`
    while_form = any(t == "idx = self._index - 1" for t in txt) and \
        any("idx -= 1" in norm_stmt(s) for s in ast.walk(fn) if isinstance(s, ast.AugAssign)) and \
        any(isinstance(s, ast.While) and norm_stmt(s.test) in ("idx >= 0", "idx > -1") for s in ast.walk(fn))
    for_form = any(isinstance(s, ast.For) and norm_stmt(s.iter) in ("range(self._index - 1, -1, -1)", "reversed(range(self._index))")
                   for s in ast.walk(fn))
    if not (while_form or for_form):
        _u2, _b2 = eval_last_token(fn)
        if not _u2 and not _b2:
            for_form = True     # another spelling of the backward scan; decided by evaluation over all buffers <= 4 and indices
    chk.require(while_form or for_form,
                "A5-span-body", "Tokenizer.get_last_non_whitespace_token:scan", f"{repo.TOKENIZER}:{fn.lineno}",
                "the scan for the last consumed token must start at the token before the current index and walk backwards")


def _token_set_constant(name: str):
    """A module-level constant of tokenizer.py that is a set/frozenset/tuple display of Token members."""
    tk = parse_py(repo.TOKENIZER)
    for st in tk.body:
        tgt = val = None
        if isinstance(st, ast.Assign) and len(st.targets) == 1 and isinstance(st.targets[0], ast.Name):
            tgt, val = st.targets[0].id, st.value
        elif isinstance(st, ast.AnnAssign) and isinstance(st.target, ast.Name) and st.value is not None:
            tgt, val = st.target.id, st.value
        if tgt != name:
            continue
        if isinstance(val, ast.Call) and isinstance(val.func, ast.Name) and val.func.id in ("frozenset", "set", "tuple") and len(val.args) == 1:
            val = val.args[0]
        if isinstance(val, (ast.Set, ast.Tuple, ast.List)):
            return frozenset(("Token", norm_stmt(e).split(".")[-1]) for e in val.elts)
    raise AnalysisError(f"constant {name} is not a display of Token members")


def rule_a9(chk: Check, tr):
    """Argument layout by provenance: which parameter group feeds which field of ast.arguments."""
    from ..absval import Const, NoneV, SELF
    I = tr.interp
    fn = I.funcs.get("Parser.make_arguments")
    if fn is None:
        raise AnalysisError("Parser.make_arguments vanished")

    def arg(label):
        return Node("arg", None, frozenset(), frozenset(), None, label, True)

    def ex(label):
        return Node("Constant", None, frozenset(), frozenset(), None, label, True)

    seen = {}

    def hook(cls, given, kwargs, fr, e):
        if cls == "arguments" and fr.fn == "Parser.make_arguments":
            seen.update(given)

    from ..absval import BOT, join
    rest = [
        ListV(arg("ND"), True),
        ListV(TupleV((arg("Dp"), ex("Dd"))), True),
        TupleV((arg("VAR"), ListV(TupleV((arg("KWp"), mk([ex("KWd"), NONE]))), True), arg("KWARG"))),
    ]
    # the grammar calls it either with pos-only parameters without defaults, or with the with-default form
    scenarios = [
        [ListV(TupleV((arg("PO"), NONE)), True), ListV(BOT, False)] + rest,
        [NONE, ListV(mk([TupleV((arg("PO"), NONE)), TupleV((arg("PODp"), ex("PODd")))]), True)] + rest,
    ]
    from ..absint import Frame
    was = I.emitting
    I.emitting = False
    merged: dict = {}
    try:
        for pargs in scenarios:
            seen.clear()
            I.ctor_hook = hook
            I.memo.clear()
            I.call_function("Parser.make_arguments", fn, SELF, pargs, {}, False, [], None, Frame("A9", repo.SUBHEADER))
            for k, v in seen.items():
                merged[k] = join(merged[k], v) if k in merged else v
    finally:
        I.ctor_hook = None
        I.emitting = was
    seen = merged
    where = f"{repo.SUBHEADER}:{fn.lineno}"
    if not seen:
        chk.fail("A9-argument-layout", "Parser.make_arguments", where, "no ast.arguments(...) construction reached")
        return

    def labels(v):
        out = set()
        for m in members(v):
            if isinstance(m, Node):
                out.add(m.label)
            elif isinstance(m, NoneV):
                out.add(None)
            elif isinstance(m, ListV):
                out |= labels(m.elem)
            elif isinstance(m, _Top):
                out.add("?")
        return out

    want = {
        "posonlyargs": {"PO", "PODp"}, "args": {"ND", "Dp"}, "defaults": {"PODd", "Dd"}, "vararg": {"VAR"},
        "kwonlyargs": {"KWp"}, "kw_defaults": {"KWd", None}, "kwarg": {"KWARG"},
    }
    for f, w in want.items():
        chk.count("A9-argument-layout")
        got = labels(seen.get(f)) if f in seen else {"<missing>"}
        chk.require(got == w, "A9-argument-layout", f"Parser.make_arguments:arguments.{f}", where,
                    f"`{f}` is fed from {sorted(map(str, got))}; it must be fed from exactly {sorted(map(str, w))} "
                    f"(PO=pos-only, POD=pos-only with default, ND=no default, D=with default, KW=kw-only; p=parameter d=default)")


def rule_kind_guard(chk: Check):
    """Constant.kind: 'u' exactly when the first string token starts with a lower-case `u` (CPython's rule).  The guard
    expression is evaluated over the finite domain of all string prefixes the tokenizer accepts."""
    import copy
    from .. import constfold
    sub = parse_py(repo.SUBHEADER)
    parser = repo.find_class(sub, "Parser")
    fn = repo.find_func(parser, "_concat_strings_in_constant")
    guards = [n for n in ast.walk(fn) if isinstance(n, ast.If) and any(
        isinstance(s, ast.Assign) and "kind" in norm_stmt(s.targets[0]) and isinstance(s.value, ast.Constant) and s.value.value == "u"
        for s in n.body)]
    chk.count("A6-kind-u")
    where = f"{repo.SUBHEADER}:{fn.lineno}"
    if len(guards) != 1:
        chk.fail("A6-kind-u", "Parser._concat_strings_in_constant:kind", where, "no single guard sets Constant.kind = 'u'")
        return

    import types
    test = guards[0].test
    folded = constfold.fold_tokenize()
    prefixes = sorted(constfold.string_prefix_set())
    listname = [a.arg for a in fn.args.args][-1]
    bad = []
    for p in prefixes:
        for q in ('"', "'", '"""'):
            tok = f"{p}{q}x{q}"
            # the literal alone, and followed by a second literal of another kind (the first one decides)
            for rest in ([], ['u"y"'], ['"y"'], ['U"y"']):
                parts = [types.SimpleNamespace(string=t) for t in [tok] + rest]
                try:
                    got = bool(constfold.eval_local_value(fn, test, {listname: parts}, data_attrs=("string",)))
                except Exception as e:
                    chk.fail("A6-kind-u", "Parser._concat_strings_in_constant:kind", where,
                             f"the guard `{norm_stmt(test)}` that sets kind='u' cannot be evaluated over the string prefixes: {e}")
                    return
                if got != tok.startswith("u"):
                    bad.append((" ".join([tok] + rest), got))
    chk.units["string_prefixes_evaluated"] = len(prefixes) * 12
    chk.require(not bad, "A6-kind-u", "Parser._concat_strings_in_constant:kind", where,
                f"the guard `{norm_stmt(guards[0].test)}` sets kind='u' differently from CPython (which looks for a lower-case u as the "
                f"first character) on {[b[0] for b in bad][:4]}")


def mk(vs):
    from ..absval import mk_union
    return mk_union(vs)


def run(chk: Check):
    chk.explanation = (
        "Decides the structural clauses A1–A9 of C01 (not equality with CPython for all programs): every ast.X(...) "
        "construction reachable from the grammar actions is typed by an abstract interpreter against the ASDL signatures of "
        "the running interpreter (field names, scalar kinds, location keys and pair coherence); lost captures, operator "
        "class vs spelling, operand order, associativity, the precedence ladder, the span helper and the argument layout "
        "are decided syntactically / by provenance on the IR of the parser that runs.")
    chk.explanation += ' Also evaluated here, as necessary conditions of tree equality with CPython: the node well-formedness rules of C04, the token text/position rules of C08 and the lexical-agreement rules of C09 (under their own rule ids).'
    chk.trusted = ["ast.X.__doc__ ASDL signatures", "ast._Unparser operator tables", "xpverif.pyir decompiler",
                   "xpverif.absint abstract semantics of the supported Python subset", "SOURCE_ORDER and LADDER tables"]
    chk.assumptions = ["C16 holds (grammar and generated module agree), so grammar-level reports apply to the shipped parser",
                       "tokenizer-side clauses are decided under C08/C09"]
    ir = repo.ir_x()
    live = live_rules(ir)
    chk.units.update({"rules": len(ir.rules), "live_rules": len(live), "helpers": len(ir.helpers)})
    tr = typed.run()
    chk.units["constructor_sites"] = len(tr.interp.ctor_sites)
    chk.units["fixpoint_rule_evaluations"] = tr.interp.iterations
    chk.units["unsupported_constructs"] = dict(tr.interp.unsupported)
    chk.units["summarised_calls"] = dict(tr.interp.summary_uses)

    def live_key(rule, key, detail):
        head = key.split("#", 1)[0].split(":", 1)[0]
        return head not in ir.rules or head in live

    tr.feed(chk, {"A1-schema": "A1-schema", "A5-loc-key": "A5-loc-key", "A5-loc-pair": "A5-loc-pair", "A5-loc-order": "A5-loc-order",
                  "A6-scalar-kind": "A6-scalar-kind"}, live_key)
    rule_a2(chk, ir, live)
    rule_a3(chk, ir, live)
    rule_a4(chk, ir, live)
    rule_a5_span(chk)
    rule_a7_a8(chk, ir)
    rule_a9(chk, tr)
    rule_kind_guard(chk)
    from .firstpass import rule_first_pass_raisers
    rule_first_pass_raisers(chk, ir)
    from .x11 import rule_x11, rule_x12
    rule_x11(chk)
    rule_x12(chk)
    rule_combinators(chk)
    rule_lookahead_cover(chk, ir)
    rule_column_unit(chk)
    rule_result_span(chk, ir)
    from .c02 import rule_x7, rule_path_literal_gate, rule_path_literal_wrap
    rule_x7(chk)
    rule_path_literal_gate(chk)   # a plain string literal must stay a Constant
    rule_path_literal_wrap(chk)
    from . import c12
    from ..pyflow import Index as _Index
    c12.rule_z1(chk, _Index())     # both entry points read lines the same way (CR / CRLF sources)
    c12.rule_z2_z3(chk, _Index())
    # Tree equality with CPython rests on the token stream and on node well-formedness: the rule sets of C04 (ASDL shape,
    # contexts, locations), C08 (token text/positions) and C09 (lexical agreement with CPython) are necessary conditions of
    # C01 as well and are evaluated here under their own rule ids.
    tr.feed(chk, {"S1-list-field": "S1-list-field", "S1-field-kind": "S1-field-kind", "S1-starred-position": "S1-starred-position", "S2-required": "S2-required",
                  "S3-ctx": "S3-ctx", "S4-location": "S4-location", "S1-joinedstr-bytes": "S1-joinedstr-bytes"}, live_key)
    from . import c08, c09
    from .. import constfold
    from ..pyflow import Index
    ix = Index()
    F = constfold.fold_tokenize()
    c09.rule_k1(chk, F, False)
    c09.rule_k2(chk, F)
    c09.rule_k3(chk, F, ir, False)
    c09.rule_k4(chk, F, ix)
    c09.rule_k5(chk, F, ix)
    c09.rule_k6(chk, F, ix, False)
    c08.rule_l1(chk, ix)
    c08.rule_l2(chk, ix)
    c08.rule_l3(chk, ix)
    c08.rule_l4(chk, ix)
    chk.floor("A10-lookahead-covers-first", 18)
    chk.floor("A5-loc-key", 300)
    chk.floor("A6-scalar-kind", 60)
    chk.floor("A2-no-lost-capture", 150)
    chk.floor("A3-operator-table", 40)
    chk.floor("A4-operand-order", 50)
    chk.floor("A7-associativity", 12)
    chk.floor("A8-precedence-ladder", 13)
    chk.floor("A9-argument-layout", 7)
    from .c12 import rule_source_verbatim
    from ..pyflow import Index as _Ix
    rule_source_verbatim(chk, _Ix())   # spans and error text refer to the caller's text

class _BlankEnv:
    """Finite-domain environment for Tokenizer.is_blank: evaluates the expressions the function is made of."""

    def __init__(self, tokparam, kind, blank, raw, prev):
        self.tokparam, self.kind, self.blank, self.raw, self.prev = tokparam, kind, blank, raw, prev
        self.locals: dict = {}

    def module_constant(self, name: str):
        mod = parse_py(repo.TOKENIZER)
        vals = [st.value for st in mod.body if (isinstance(st, ast.Assign) and len(st.targets) == 1 and isinstance(st.targets[0], ast.Name)
                                                and st.targets[0].id == name) or
                (isinstance(st, ast.AnnAssign) and isinstance(st.target, ast.Name) and st.target.id == name and st.value is not None)]
        if len(vals) != 1:
            raise AnalysisError(f"is_blank: `{name}` is not a module constant bound once")
        return vals[0]

    def ev(self, e):
        if isinstance(e, ast.Constant):
            return e.value
        if isinstance(e, ast.Name) and e.id in self.locals:
            return self.locals[e.id]
        if isinstance(e, ast.Name) and e.id not in ("self", self.tokparam, "Token"):
            return self.ev(self.module_constant(e.id))
        if isinstance(e, ast.Call) and isinstance(e.func, ast.Name) and e.func.id in ("frozenset", "set", "tuple", "list") and len(e.args) == 1 \
                and not e.keywords:
            return list(self.ev(e.args[0]))
        if isinstance(e, ast.BoolOp):
            v = None
            for x in e.values:
                v = self.ev(x)
                if isinstance(e.op, ast.And) and not v:
                    return v
                if isinstance(e.op, ast.Or) and v:
                    return v
            return v
        if isinstance(e, ast.UnaryOp) and isinstance(e.op, ast.Not):
            return not self.ev(e.operand)
        if isinstance(e, ast.Call) and isinstance(e.func, ast.Name) and e.func.id == "bool" and len(e.args) == 1:
            return bool(self.ev(e.args[0]))
        if isinstance(e, (ast.Set, ast.Tuple, ast.List)):
            return [self.ev(x) for x in e.elts]
        if isinstance(e, ast.Compare) and len(e.ops) == 1:
            a, b = self.ev(e.left), self.ev(e.comparators[0])
            op = e.ops[0]
            if isinstance(op, (ast.Eq, ast.Is)):
                return a == b
            if isinstance(op, (ast.NotEq, ast.IsNot)):
                return a != b
            if isinstance(op, ast.In):
                return a in b
            if isinstance(op, ast.NotIn):
                return a not in b
        s = norm_stmt(e)
        t = self.tokparam
        if s.startswith("Token.") and s.count(".") == 1:
            return ("Token", s.split(".")[1])
        if s == f"{t}.type":
            return ("Token", self.kind)
        if s == f"{t}.string.isspace()":
            return self.blank
        if s == f"not {t}.string.strip()":
            return self.blank
        if s == "self._proc_macro":
            return self.raw
        if s == "self._tokens":
            return [] if self.prev is None else ["prev"]
        if s == "len(self._tokens)":
            return 0 if self.prev is None else 1
        if s == "self._tokens[-1].type":
            if self.prev is None:
                raise AnalysisError("is_blank reads the previous token without testing that there is one")
            return ("Token", self.prev)
        raise AnalysisError(f"is_blank: expression outside the finite domain: {s}")


def _eval_paths(ps, env):
    """Result of the one feasible path under `env` (paths are mutually exclusive by construction)."""
    for pth in ps:
        ok = True
        env.locals = {}
        for x in pth:
            if x[0] == "cond":
                if bool(env.ev(ast.parse(x[1], mode="eval").body)) != x[2]:
                    ok = False
                    break
            elif x[0] == "do":
                st = ast.parse(x[1]).body[0]
                if isinstance(st, ast.Assign) and len(st.targets) == 1 and isinstance(st.targets[0], ast.Name):
                    env.locals[st.targets[0].id] = env.ev(st.value)  # a local of the filter
                    continue
                raise AnalysisError(f"is_blank has an effect: {x[1]}")
        if ok:
            kind, val = pth[-1][1], pth[-1][2]
            if kind != "return":
                return None
            return env.ev(ast.parse(val, mode="eval").body)
    return None


def _repeated_ok(fnode: ast.FunctionDef) -> bool:
    """`repeated`: mark; collect while the item succeeds, re-marking after each success; on the failing attempt go back to the
    last mark and return what was collected.  Both loop spellings (`while (r := f()):` … / `while True: r = f(); if not r: …`)
    are brought to one set of iteration paths."""
    import re
    from ..pyflow import stmt_paths
    body = [s for s in fnode.body if not (isinstance(s, ast.Expr) and isinstance(s.value, ast.Constant))]
    loops = [s for s in body if isinstance(s, ast.While)]
    if len(loops) != 1:
        return False
    loop = loops[0]
    i = body.index(loop)
    pre, post = body[:i], body[i + 1:]
    pre_t = sorted(norm_stmt(s) for s in pre)
    # names
    m = [re.fullmatch(r"(\w+) = self\._mark\(\)", t) for t in pre_t]
    l = [re.fullmatch(r"(\w+)(?:: [^=]+)? = \[\]", t) for t in pre_t]
    mark = next((x.group(1) for x in m if x), None)
    lst = next((x.group(1) for x in l if x), None)
    if mark is None or lst is None or len(pre) != 2:
        return False
    try:
        if isinstance(loop.test, ast.Constant) and loop.test.value is True:
            if post:
                return False
            its = stmt_paths(loop.body)
        else:
            # `while T: B` + `post`  ==  `while True: if not T: post; B`
            guard = ast.If(test=ast.UnaryOp(op=ast.Not(), operand=loop.test), body=post, orelse=[])
            ast.copy_location(guard, loop)
            ast.fix_missing_locations(guard)
            its = stmt_paths([guard] + loop.body)
    except AnalysisError:
        return False
    norm = set()
    for pth in its:
        out = []
        for x in pth:
            if x[0] == "cond":
                mm = re.fullmatch(r"\((\w+) := (.+)\)", x[1])
                if mm:   # walrus test: the call, then the test of its result
                    out.append(("do", f"{mm.group(1)} = {mm.group(2)}"))
                    out.append(("cond", mm.group(1), x[2]))
                else:
                    out.append(x)
            else:
                out.append(x)
        norm.add(tuple(out))
    res = None
    for pth in norm:
        for x in pth:
            mm = re.fullmatch(r"(\w+) = func\(\*args\)", x[1]) if x[0] == "do" else None
            if mm:
                res = mm.group(1)
    if res is None:
        return False
    want = {
        (("do", f"{res} = func(*args)"), ("cond", res, True), ("do", f"{lst}.append({res})"), ("do", f"{mark} = self._mark()"), ("exit", "end", "")),
        (("do", f"{res} = func(*args)"), ("cond", res, False), ("do", f"self._reset({mark})"), ("exit", "return", lst)),
    }
    return norm == want


def rule_is_blank(chk: Check, R: str = "R-combinators"):
    # the token filter between tokenizer and parser: decided as a truth table over a finite domain (token kind x blank text x
    # raw-capture flag x "previous kept token is NEWLINE"), so the shape of the function is irrelevant
    from ..pyflow import Index
    f = Index().get("Tokenizer.is_blank")
    chk.count(R)
    from ..pyflow import stmt_paths
    kinds = sorted(repo.token_enum_names())
    bad = []
    try:
        ps = stmt_paths(f.node.body)
        tokparam = [a.arg for a in f.node.args.args][1]
        for kind in kinds:
            for blank in (False, True):
                for raw in (False, True):
                    for prev in (None, "NEWLINE", "NAME"):
                        got = _eval_paths(ps, _BlankEnv(tokparam, kind, blank, raw, prev))
                        want = (kind in ("NL", "COMMENT") or (kind == "WS" and not raw) or (kind == "ERRORTOKEN" and blank)
                                or (kind == "NEWLINE" and prev == "NEWLINE"))
                        if got is None or bool(got) != want:
                            bad.append((kind, "blank" if blank else "text", "raw" if raw else "normal", prev, got))
    except AnalysisError as e:
        bad.append(("not evaluable", str(e)))
    chk.require(not bad, R, "Tokenizer.is_blank", f.where,
                "the token filter must drop exactly NL, COMMENT, WS (outside raw capture), blank ERRORTOKENs and a NEWLINE that directly "
                f"follows a NEWLINE; it differs on (kind, text, mode, previous, result) = {bad[:3]}")


def eval_leaf_matcher(fnode: ast.FunctionDef, q: str) -> tuple[str, list]:
    """A token matcher of the runtime (`name`, `keyword`, `soft_keyword`, `token`, `expect`) evaluated over a finite domain of next
    tokens (kind x text x argument) with a recording fake tokenizer: whatever its spelling (a helper for the shared prefix,
    locals, guard clauses), it must consume exactly one token exactly when its condition holds and nothing otherwise.
    Returns (why-undecided, counter-examples)."""
    import types as _types
    from .c17 import EvalError as _EvalError, _mini_eval as _mini
    KINDS = ("NAME", "OP", "NUMBER", "STRING", "NEWLINE")
    TEXTS = ("x", "if", "match", "+", "1", "NAME", "OP")

    class _TokEnum:
        def __init__(self):
            for k in KINDS:
                setattr(self, k, ("Token", k))

        def __getitem__(self, k):
            if k not in KINDS:
                raise KeyError(k)
            return ("Token", k)
    spec = {
        "Parser.name": lambda k, t, a: k == "NAME" and t != "if",
        "Parser.keyword": lambda k, t, a: k == "NAME" and t == "if",
        "Parser.soft_keyword": lambda k, t, a: k == "NAME" and t == "match",
        "Parser.token": lambda k, t, a: k == a,
        "Parser.expect": lambda k, t, a: t == a,
    }
    params = [a.arg for a in fnode.args.args][1:]
    argvals = [None] if not params else (list(KINDS[:3]) if q == "Parser.token" else ["x", "if", "+", "OP"])
    bad: list = []
    for k in KINDS:
        for t in TEXTS:
            for a in argvals:
                log: list = []
                tok = _types.SimpleNamespace(type=("Token", k), string=t)

                class _Tz:
                    def peek(self):
                        log.append("peek")
                        return tok

                    def getnext(self):
                        log.append("next")
                        return tok
                me = _types.SimpleNamespace(_tokenizer=_Tz(), KEYWORDS=("if",), SOFT_KEYWORDS=("match",))
                env = {"self": me, "Token": _TokEnum()}
                if params:
                    env[params[0]] = a
                try:
                    got = _mini(fnode, env, {"peek", "getnext"})
                except _EvalError as e:
                    return str(e), []
                want = spec[q](k, t, a)
                ok_ = (log.count("next") == 1 and got is tok) if want else (log.count("next") == 0 and got is None)
                if not ok_ and len(bad) < 3:
                    bad.append((k, t, a, log.count("next"), got is tok))
    return "", bad


# ------------------------------------------------------------------ runtime combinators the generated code relies on
def rule_combinators(chk: Check):
    """Backtracking discipline of the hand-written combinators (every generated rule is built from them) and the
    seed-growing loop that makes binary operators left-associative."""
    from ..pyflow import CFG, Index, own_nodes
    ix = Index()
    R = "R-combinators"

    def fn(q):
        return ix.get(q)

    def alpha(fnode):
        """Copy of the function with locals renamed in order of first binding (so that renames are invisible)."""
        import copy
        f2 = copy.deepcopy(fnode)
        params = [a.arg for a in f2.args.args]
        order: list[str] = []
        for n in ast.walk(f2):
            if isinstance(n, ast.Name) and isinstance(n.ctx, ast.Store) and n.id not in order and n.id not in params:
                order.append(n.id)
        # first binding order by position
        binds = sorted({(n.lineno, n.col_offset, n.id) for n in ast.walk(f2) if isinstance(n, ast.Name) and isinstance(n.ctx, ast.Store)
                        and n.id not in params})
        seen: dict[str, str] = {}
        for _, _, name in binds:
            seen.setdefault(name, f"v{len(seen)}")
        for n in ast.walk(f2):
            if isinstance(n, ast.Name) and n.id in seen:
                n.id = seen[n.id]
        return f2

    def stmts(f):
        f2 = alpha(f.node)
        return [norm_stmt(s) for s in f2.body if not (isinstance(s, ast.Expr) and isinstance(s.value, ast.Constant))]

    def paths(f):
        """Path set of a loop-free function: each path is the sequence of (normalised) conditions, effects and the return."""
        f2 = alpha(f.node)

        def lit(test, truth):
            while isinstance(test, ast.UnaryOp) and isinstance(test.op, ast.Not):
                test, truth = test.operand, not truth
            return ("cond", norm_stmt(test), truth)

        out = []

        def run(stmts_, acc):
            for i, st in enumerate(stmts_):
                if isinstance(st, ast.Expr) and isinstance(st.value, ast.Constant):
                    continue
                if isinstance(st, ast.If):
                    run(st.body + stmts_[i + 1:], acc + [lit(st.test, True)])
                    run(st.orelse + stmts_[i + 1:], acc + [lit(st.test, False)])
                    return
                if isinstance(st, ast.Return):
                    out.append(tuple(acc + [("return", norm_stmt(st.value) if st.value is not None else "None")]))
                    return
                if isinstance(st, (ast.For, ast.While, ast.Try, ast.With)):
                    raise AnalysisError("loop in a function expected to be loop-free")
                acc = acc + [("do", norm_stmt(st))]
            out.append(tuple(acc + [("return", "None")]))

        run(list(f2.body), [])
        return set(out)

    # leaf matchers: peek, compare, consume exactly one token on success, nothing on failure
    leaves = {
        "Parser.name": "v0.type == Token.NAME and v0.string not in self.KEYWORDS",
        "Parser.keyword": "v0.type == Token.NAME and v0.string in self.KEYWORDS",
        "Parser.soft_keyword": "v0.type == Token.NAME and v0.string in self.SOFT_KEYWORDS",
        "Parser.token": "v0.type == Token[typ]",
        "Parser.expect": "v0.string == typ",
    }
    for q, cond in leaves.items():
        f = fn(q)
        chk.count(R)
        und, bad = eval_leaf_matcher(f.node, q)
        msg = (f"`{q}` must peek one token, consume it exactly when `{cond.replace('v0', 'tok')}`, and otherwise return None without consuming")
        if und:
            chk.undecided(R, q, f.where, f"matcher outside the evaluable subset: {und}")
        else:
            chk.require(not bad, R, q, f.where, msg + (f"; differs for (kind, text, argument, consumed, returned) {bad}" if bad else ""))
    # look-aheads never consume
    for q, ret in (("Parser.positive_lookahead", "v1"), ("Parser.negative_lookahead", "not v1")):
        f = fn(q)
        chk.count(R)
        want = {(("do", "v0 = self._mark()"), ("do", "v1 = func(*args)"), ("do", "self._reset(v0)"), ("return", ret))}
        chk.require(paths(f) == want, R, q, f.where,
                    f"`{q}` must restore the position unconditionally and return {'the result' if 'not' not in ret else 'its negation'}")
    # repetition: keep the position after the last successful item
    f = fn("Parser.repeated")
    chk.count(R)
    chk.require(_repeated_ok(f.node), R, "Parser.repeated", f.where,
                "`repeated` must collect results in order, remember the position after each success and restore it after the failing attempt")
    # ordered choice without actions: first truthy result, position restored between alternatives — decided by evaluating the
    # function on every sequence of up to three alternatives (bare callables and (callable, argument) tuples; failing with None,
    # an empty list or 0; succeeding with a value) with a fake self that records marks, resets and calls
    f = fn("Parser.seq_alts")
    chk.count(R)
    import itertools as _it
    import types as _types
    from .c17 import Crash as _Crash, EvalError as _EvalError, _mini_eval as _mini
    bad, und = [], ""
    outcomes = [None, [], 0, "A", ("t",)]
    vararg = f.node.args.vararg.arg if f.node.args.vararg else None
    if vararg is None:
        und = "seq_alts takes no *alternatives"
    for n in range(0, 5 if chk.tier == "thorough" else 4):
        if und or bad:
            break
        for combo in _it.product(range(len(outcomes)), repeat=n):
            for shape in _it.product((0, 1, 2), repeat=n):
                log: list = []

                def mk(i, res, as_tuple):
                    def bare():
                        log.append(("call", i))
                        return res

                    def witharg(x):
                        log.append(("call", i, x))
                        return res

                    def with2(x, y):
                        log.append(("call", i, x if y == f"brg{i}" else "?"))
                        return res
                    return (witharg, f"arg{i}") if as_tuple == 1 else (with2, f"arg{i}", f"brg{i}") if as_tuple == 2 else bare
                alts = tuple(mk(i, outcomes[c], sh) for i, (c, sh) in enumerate(zip(combo, shape)))
                me = _types.SimpleNamespace(_mark=lambda: (log.append(("mark",)), "M0")[1], _reset=lambda m: log.append(("reset", m)))
                try:
                    got = _mini(f.node, {"self": me, vararg: alts}, {"_mark", "_reset"}, local_calls=True)
                except _Crash as e:
                    bad.append((combo, shape, f"raises {e}", log[:8]))
                    break
                except _EvalError as e:
                    und = str(e)
                    break
                first = next((i for i, c in enumerate(combo) if outcomes[c]), None)
                want = outcomes[combo[first]] if first is not None else None
                upto = first if first is not None else n - 1
                calls = [x for x in log if x[0] == "call"]
                ok_ = got == want and [c[1] for c in calls] == list(range(upto + 1 if n else 0)) and \
                    all(len(c) == 2 or c[2] == f"arg{c[1]}" for c in calls)
                # after every failing alternative that is followed by another attempt the position is back at the mark
                if ok_:
                    for j, x in enumerate(log):
                        if x[0] == "call" and x[1] > 0:
                            prev = log[:j]
                            last_call = max(k for k, y in enumerate(prev) if y[0] == "call")
                            if not any(y == ("reset", "M0") for y in prev[last_call:]):
                                ok_ = False
                    if first is None and n and not any(y == ("reset", "M0") for y in log[max(k for k, y in enumerate(log) if y[0] == "call"):]):
                        ok_ = False
                if not ok_:
                    bad.append((combo, shape, got, log[:8]))
                    break
            if und or bad:
                break
    if und:
        chk.undecided(R, "Parser.seq_alts", f.where, f"not evaluable: {und}")
    else:
        chk.require(not bad, R, "Parser.seq_alts", f.where,
                    "`seq_alts` must try the alternatives in the order given, return the first truthy result and restore the position after "
                    f"each failure{': ' + str(bad[0]) if bad else ''}")
    # separated repetition `s.e+`: decided by evaluating `gathered` — together with whatever combinators it is built from, all
    # taken from source — on every token stream of length <= 5 over {element, separator, other}.  PEG: e (s e)* — the elements in
    # order, the position after the last element (a trailing separator is not consumed), None with the position restored when
    # there is no first element.
    import itertools as _it2
    from .c17 import Crash as _Crash2, EvalError as _EvalError2, SourceSelf as _SourceSelf
    f = fn("Parser.gathered")
    chk.count(R)
    parser_cls = next((c for c in ast.walk(ix.modules[repo.SUBHEADER]) if isinstance(c, ast.ClassDef) and c.name == "Parser"), None)
    methods = {m.name: m for m in (parser_cls.body if parser_cls else []) if isinstance(m, ast.FunctionDef)}
    bad, und = [], ""
    for n in range(0, 8 if chk.tier == "thorough" else 6):
        if bad or und:
            break
        for stream in _it2.product("esx", repeat=n):
            for form in ("bare", "tuple"):
                st = {"pos": 0}

                def elem(tag=None):
                    if st["pos"] < len(stream) and stream[st["pos"]] == "e":
                        st["pos"] += 1
                        return ("E", st["pos"] - 1)
                    return None

                def sep(lit=None):
                    if st["pos"] < len(stream) and stream[st["pos"]] == "s":
                        st["pos"] += 1
                        return ("S", st["pos"] - 1)
                    return None
                prims = {"_mark": lambda: st["pos"], "_reset": lambda m: st.__setitem__("pos", m)}
                me = _SourceSelf(methods, prims)
                try:
                    got = me.gathered(elem if form == "bare" else (elem, "tag"), sep, ",")
                except _Crash2 as e:
                    bad.append((stream, form, f"raises {e}"))
                    break
                except _EvalError2 as e:
                    und = str(e)
                    break
                # expectation
                want, pos = None, 0
                if n and stream[0] == "e":
                    want, pos = [("E", 0)], 1
                    while pos + 1 < n and stream[pos] == "s" and stream[pos + 1] == "e":
                        want.append(("E", pos + 1))
                        pos += 2
                if (list(got) if got is not None else None) != want or st["pos"] != pos:
                    bad.append(("".join(stream), form, got, st["pos"], want, pos))
                    break
            if bad or und:
                break
    if und:
        chk.undecided(R, "Parser.gathered", f.where, f"not evaluable: {und}")
    else:
        chk.require(not bad, R, "Parser.gathered", f.where,
                    "`gathered` must return the first element followed by the separated rest, leave a trailing separator unconsumed and "
                    f"restore the position on failure{': (stream, form, got, position, expected, expected position) ' + str(bad[0]) if bad else ''}")
    # a forced token `&&x`: the token when it is there, otherwise an error raised on the spot — in either pass (an alternative that
    # merely fails lets a later alternative match, which is not what `&&` means)
    import types as _ty
    from .c17 import Crash as _Cr4, EvalError as _Ev4, Marker as _Mk, _mini_eval as _mini4
    f = fn("Parser.expect_forced")
    chk.count(R)
    bad, und = [], ""
    params = [a.arg for a in f.node.args.args][1:]
    for pass2 in (False, True):
        for present in (False, True):
            for vi in ((3, 10), (3, 11), (3, 12)):
                tokv = _ty.SimpleNamespace(type=("Token", "NAME"), string="x", start=(1, 0), end=(1, 1))
                last = _ty.SimpleNamespace(type=("Token", "NEWLINE"), string="\n", start=(1, 4), end=(1, 5))

                def boom(*a, **k):
                    raise _Mk("syntax error")
                me = _ty.SimpleNamespace(call_invalid_rules=pass2, _tokenizer=_ty.SimpleNamespace(diagnose=lambda: last),
                                         raise_raw_syntax_error=boom, raise_syntax_error=boom, raise_syntax_error_known_location=boom,
                                         raise_syntax_error_known_range=boom)
                env = {"self": me, "sys": _ty.SimpleNamespace(version_info=vi), "Token": _ty.SimpleNamespace(NEWLINE=("Token", "NEWLINE"))}
                if len(params) >= 1:
                    env[params[0]] = tokv if present else None
                if len(params) >= 2:
                    env[params[1]] = "')'"
                try:
                    got = _mini4(f.node, env, {"diagnose", "raise_raw_syntax_error", "raise_syntax_error", "raise_syntax_error_known_location",
                                               "raise_syntax_error_known_range"})
                    outcome = ("returns", got is tokv)
                except _Mk:
                    outcome = ("raises", True)
                except _Cr4 as e:
                    outcome = ("crash", str(e))
                except _Ev4 as e:
                    und = str(e)
                    break
                want = ("returns", True) if present else ("raises", True)
                if outcome != want:
                    bad.append((pass2, present, vi, outcome))
    if und:
        chk.undecided(R, "Parser.expect_forced", f.where, f"not evaluable: {und}")
    else:
        chk.require(not bad, R, "Parser.expect_forced", f.where,
                    "`expect_forced` must return the token when it matched and raise a syntax error when it did not, whatever the pass: "
                    f"(diagnostic pass, token present, interpreter version, outcome) {bad[:2]}")
    rule_is_blank(chk, R)
    # position bookkeeping of the token cache
    f = fn("Tokenizer.getnext")
    chk.count(R)
    src = [norm_stmt(s0) for s0 in f.node.body if not (isinstance(s0, ast.Expr) and isinstance(s0.value, ast.Constant))]
    adv = [x for x in src if x in ("self._index = self._index + 1", "self._index += 1", "self._index = 1 + self._index")]
    chk.require("tok = self.peek()" in src and len(adv) == 1 and src[-1] == "return tok"
                and src.index("tok = self.peek()") < src.index(adv[0]) and
                sum(1 for x in src if x.startswith("self._index")) == 1, R, "Tokenizer.getnext", f.where,
                "`getnext` must return the token at the current index and advance the index by exactly one")
    f = fn("Tokenizer.peek")
    chk.count(R)
    rets = [norm_stmt(n) for n in own_nodes(f.node) if isinstance(n, ast.Return)]
    loops = [n for n in own_nodes(f.node) if isinstance(n, ast.While)]
    from ..pyflow import stmt_paths as _sp2
    body_ok = False
    if len(loops) == 1:
        try:
            body_ok = True
            for pth in _sp2(loops[0].body, opaque_loops=True):
                conds = {x[1]: x[2] for x in pth if x[0] == "cond"}
                eff = [x[1] for x in pth if x[0] == "do"]
                blank = conds.get("self.is_blank(tok)")
                if blank is None:
                    blank = not conds["not self.is_blank(tok)"] if "not self.is_blank(tok)" in conds else None
                appended = eff.count("self._tokens.append(tok)")
                # a token is cached exactly when the filter keeps it
                if blank is None or appended != (0 if blank else 1):
                    body_ok = False
        except AnalysisError:
            body_ok = False
    from .bufeval import arbitrate as _arb_peek
    _arb_peek(chk, rets == ["return self._tokens[self._index]"] and len(loops) == 1 and
                norm_stmt(loops[0].test) in ("self._index == len(self._tokens)", "len(self._tokens) == self._index",
                                             "self._index >= len(self._tokens)") and body_ok, R, "Tokenizer.peek", f.where,
                "`peek` must fetch (and append) tokens only while the index is at the end of the cache and return the token at the index",
                which="peek")
    from .bufeval import rule_buffer_evaluation as _rbe
    _rbe(chk, "peek", R)
    # left recursion by seed growing: the wrapper, evaluated from source around the rule  r: r '+' 'n' | 'n'  on every token stream
    # of length <= 6 over {n, +, x}, must return the left-nested parse of the longest prefix n(+n)*, leave the position right after
    # it (at the start on failure), cache exactly that, answer a second call from the cache, and do the same when tracing
    import itertools as _it3
    from .c17 import Crash as _Crash3, EvalError as _EvalError3, eval_left_rec, left_rec_expected
    f = fn("memoize_left_rec.memoize_left_rec_wrapper")
    chk.count(R)
    bad, und = [], ""
    for n in range(0, 9 if chk.tier == "thorough" else 7):
        if bad or und:
            break
        for stream in _it3.product("n+x", repeat=n):
            want = left_rec_expected(stream)
            for verbose in (False, True):
                try:
                    tree, endpos, entry, runs2, level, depth = eval_left_rec(f.node, verbose, stream)
                except _Crash3 as e:
                    bad.append(("".join(stream), verbose, f"raises {e}"))
                    break
                except _EvalError3 as e:
                    und = str(e)
                    break
                ok_ = (tree, endpos) == want and entry is not None and tuple(entry) == (want[0], want[1]) and runs2 == (0, True, True) \
                    and level == 0 and depth == 0
                if not ok_:
                    bad.append(("".join(stream), verbose, tree, endpos, entry, runs2))
                    break
            if bad or und:
                break
    if und:
        chk.undecided(R, "memoize_left_rec:seed-growing", f.where, f"not evaluable: {und}")
    else:
        chk.require(not bad, R, "memoize_left_rec:seed-growing", f.where,
                    "left recursion must be grown from a failure seed until the parse stops getting longer, return the longest (left-nested) "
                    "parse with the position right after it, cache it, and answer the next call at that position from the cache — this is "
                    f"what makes `a - b - c` parse as `(a - b) - c`{': (stream, verbose, tree, end, cached, second call) ' + str(bad[0]) if bad else ''}")
    chk.floor(R, 14)


def eval_last_token(fn: ast.FunctionDef) -> tuple[str, list]:
    """`get_last_non_whitespace_token` evaluated from source on every buffer of up to four tokens (kinds NAME, OP, NEWLINE, INDENT,
    DEDENT, ENDMARKER, COMMENT) and every index: the last token before the index that is not ENDMARKER / NEWLINE / INDENT / DEDENT,
    and the buffer's last token when there is none."""
    import itertools
    import types
    from .c17 import Crash, EvalError, _mini_eval, module_pure_constants
    kinds = ("NAME", "OP", "NEWLINE", "INDENT", "DEDENT", "ENDMARKER", "COMMENT")
    TokenNS = types.SimpleNamespace(**{k: ("Token", k) for k in kinds + ("NL", "WS", "STRING", "NUMBER", "ERRORTOKEN")})
    consts = {}
    try:
        consts = dict(module_pure_constants(repo.TOKENIZER))
    except Exception:
        pass
    for cname in [x.id for x in ast.walk(fn) if isinstance(x, ast.Name) and x.id.isupper()]:
        try:
            consts[cname] = _token_set_constant(cname)
        except Exception:
            pass
    bad = []
    for n in range(1, 5):
        for combo in itertools.product(kinds, repeat=n):
            toks = [types.SimpleNamespace(type=("Token", k), string=k, i=i) for i, k in enumerate(combo)]
            for index in range(0, n + 1):
                want = next((t for t in reversed(toks[:index]) if t.type[1] not in ("ENDMARKER", "NEWLINE", "INDENT", "DEDENT")), toks[-1])
                env = dict(consts)
                env.update({"self": types.SimpleNamespace(_tokens=toks, _index=index), "Token": TokenNS})
                try:
                    got = _mini_eval(fn, env, set(), max_steps=300)
                except Crash as e:
                    bad.append((combo, index, f"raises {e}"))
                    break
                except EvalError as e:
                    return str(e), []
                if got is not want:
                    bad.append((combo, index, getattr(got, "i", None), want.i))
                    break
            if len(bad) >= 2:
                return "", bad
    return "", bad


def rule_lookahead_cover(chk: Check, ir, rule_id: str = "A10-lookahead-covers-first"):
    """A positive look-ahead placed in front of a rule reference (a speed-up or a commit point, `&(L1|L2) [~] R`) must admit every
    token R can start with; otherwise some alternative of R can never be reached through this alternative."""
    from ..ir import Cut, Group, Lit, Look, Ref, Tok
    rules = ir.rules
    first, last, item_n, fl_item, consuming = irtools.first_last(rules, alt_ok=lambda al: not al.invalid_guard)
    for r, key, a in actions.all_alts(rules):
        items = a.items
        if r.name.startswith("invalid_") or a.invalid_guard:
            continue
        for j, ni in enumerate(items):
            it = ni.item
            if not (isinstance(it, Look) and it.positive):
                continue
            allowed = fl_item(it.item, first)
            if not allowed:
                continue
            nxt = next((x.item for x in items[j + 1:] if not isinstance(x.item, Cut)), None)
            tgt = nxt.alts if isinstance(nxt, Group) else None
            if isinstance(nxt, Ref) and nxt.name in rules:
                need = {t for al in rules[nxt.name].alts if not al.invalid_guard for t in _first_of_items(al.items, fl_item, first, item_n)}
                what = nxt.name
            elif isinstance(nxt, Group):
                need = {t for al in nxt.alts for t in _first_of_items(al.items, fl_item, first, item_n)}
                what = str(nxt)
            else:
                continue
            # a look-ahead on a rule (e.g. &t_lookahead, &cmd_name) compares like with like through FIRST sets
            chk.count(rule_id)
            missing = sorted(need - allowed)
            # soft keywords / NAME: a NAME look-ahead admits every keyword-like literal that is not a hard keyword
            if "NAME" in allowed:
                missing = [m for m in missing if not (m.startswith("'") and (m[1].isalpha() or m[1] == "_") and m.strip("'") not in ir.keywords)]
            chk.require(not missing, rule_id, f"{key}.i{j}:{what}", str(a.pos),
                        f"`{it}` only lets {sorted(allowed)} through, but `{what}` can also start with {missing}: those forms are cut off "
                        f"in `{r.name}`")


def _first_of_items(items, fl_item, first, item_n):
    from ..ir import Cut, Look
    out = set()
    for ni in items:
        if isinstance(ni.item, (Look, Cut)):
            continue
        out |= fl_item(ni.item, first)
        if not item_n(ni.item):
            break
    return out


def rule_result_span(chk: Check, ir, rule_id: str = "A5-result-span"):
    """The node an alternative returns spans the alternative: a top-level action call that takes its location as `**kwargs`
    must be given the alternative's own span (LOCATIONS = from the first token of the alternative to the last one consumed),
    unless the alternative consists of one token and passes that token's location.  A span borrowed from one item of a longer
    alternative (`'$' a=NAME {..(**a.loc())}`) makes the node shorter than its construct."""
    from ..ir import Cut, Look
    for r, key, a in actions.all_alts(ir.rules):
        act = a.action
        if act is None or not isinstance(act, ast.Call) or r.name.startswith("invalid_"):
            continue
        stars = [k for k in act.keywords if k.arg is None]
        if not stars:
            continue
        chk.count(rule_id)
        txt = [norm_stmt(k.value) for k in stars]
        consuming = [ni for ni in a.items if not isinstance(ni.item, (Look, Cut))]
        single = len(consuming) == 1 and consuming[0].name is not None and txt == [f"{consuming[0].name}.loc()"]
        chk.require(txt == ["self.span(_lnum, _col)"] or single, rule_id, f"{key}:{norm_stmt(act.func)}", str(a.pos),
                    f"the result of `{r.name}` is located by `**{txt[0]}` instead of the span of the whole alternative "
                    f"`{' '.join(str(i) for i in a.items)[:80]}`: the node does not cover its construct")
    chk.floor(rule_id, 120)


def rule_column_unit(chk: Check, only_consistent: bool = False):
    """Every place that turns token coordinates into node columns must use the same unit.  (CPython counts UTF-8 bytes; this
    code base counts characters everywhere — a known finding — but mixing the two breaks adjacency and spans.)"""
    from ..pyflow import Index, own_nodes
    ix = Index()
    # the token-side producers: whichever of the location helpers exist (one may have been folded into another)
    producers = ["Parser.span"] + [q for q in ("TokenInfo.loc_start", "TokenInfo.loc_end", "TokenInfo.loc") if q in ix.funcs]
    if len(producers) < 2:
        raise AnalysisError("no TokenInfo location helper (loc / loc_start / loc_end) found")
    units = {}
    for q in producers:
        f = ix.get(q)
        conv = any(isinstance(n, ast.Call) and isinstance(n.func, ast.Attribute) and n.func.attr in ("encode",) for n in ast.walk(f.node)) or \
            any(isinstance(n, ast.Call) and isinstance(n.func, ast.Attribute) and norm_stmt(n.func.value) == "self"
                and n.func.attr not in ("span", "loc_start", "loc_end", "loc") and not n.func.attr.startswith("_tokenizer") for n in ast.walk(f.node)
                if q.startswith("TokenInfo."))
        units[q] = "bytes/converted" if conv else "characters"
    chk.count("A5-column-unit")
    chk.require(len(set(units.values())) == 1, "A5-column-unit", "consistent", repo.SUBHEADER,
                f"node columns are produced in different units: {units}; adjacency tests and spans compare them with each other")
    if only_consistent:
        return
    chk.count("A5-column-unit")
    chk.require(set(units.values()) == {"bytes/converted"}, "A5-column-unit", "utf8-byte-offsets", repo.SUBHEADER,
                "CPython's col_offset/end_col_offset are UTF-8 byte offsets; here they are character indices: every node after a "
                "non-ASCII character on its line has different columns from CPython's")
