"""E9 — first-pass raisers.  Ordered choice tries the next alternative when one fails; an action that *raises* in the first pass
(outside the invalid_* machinery) pre-empts every later alternative of every enclosing rule.  That is sound only when the error
is about the very tokens the alternative consumed and no other alternative could accept them either.

Two obligations per call of a raising Parser helper from a first-pass action:
  * inventory: the helper is one of the reviewed raisers below, used from the rule it was reviewed for (a new raiser needs review);
  * no look-ahead: a raising helper decides from its arguments — it does not peek at / fetch tokens the alternative has not consumed
    (`7z`, `2to3` inside `$(...)` are a NUMBER followed by a NAME: a number helper that looks at the next token refuses them before
    `cmd_name` gets to glue the word).
"""
from __future__ import annotations

import ast

from .. import actions, repo
from ..common import AnalysisError, Check, norm_stmt, parse_py

# helper -> (rules it may be called from in the first pass, why raising there cannot pre-empt a valid parse)
REVIEWED = {
    "literal_value": (None, "the token itself is not a valid literal (bad escape, non-ASCII bytes, over-long integer): no alternative accepts it"),
    "ensure_real": (None, "complex-literal patterns only: the operand is a number of the wrong kind"),
    "ensure_imaginary": (None, "complex-literal patterns only: the operand is a number of the wrong kind"),
    "concatenate_strings": (None, "bytes mixed with text in one run of adjacent literals: invalid wherever it occurs"),
    "check_fstring_conversion": (None, "the character after `!` in a replacement field; nothing else can follow `!` there"),
    "check_version": (None, "target-version gate: by definition a refusal of otherwise valid syntax"),
    "expand_help": (None, "a help suffix on a step that is not a name: `?` has no other meaning"),
    "raise_syntax_error_starting_from": ({"type_param"}, "`*T = x` / `**P = x` defaults: committed by the preceding tokens"),
}
LOOKAHEAD = ("self._tokenizer.peek", "self._tokenizer.getnext", "self._tokenizer._next_raw", "self.showpeek")


def rule_first_pass_raisers(chk: Check, ir, rule_id: str = "E9-first-pass-raise"):
    sub = parse_py(repo.SUBHEADER)
    parser = repo.find_class(sub, "Parser")
    meths = {m.name: m for m in parser.body if isinstance(m, ast.FunctionDef)}
    if len(meths) < 40:
        raise AnalysisError("Parser has lost most of its methods")

    def self_calls(m):
        return {c.func.attr for c in ast.walk(m) if isinstance(c, ast.Call) and isinstance(c.func, ast.Attribute)
                and isinstance(c.func.value, ast.Name) and c.func.value.id == "self" and c.func.attr in meths}
    raisers = {n for n, m in meths.items() if any(isinstance(x, ast.Raise) for x in ast.walk(m))}
    changed = True
    while changed:
        changed = False
        for n, m in meths.items():
            if n not in raisers and self_calls(m) & raisers:
                raisers.add(n)
                changed = True

    def reaches_lookahead(name: str, seen=None) -> str:
        seen = seen or set()
        if name in seen:
            return ""
        seen.add(name)
        m = meths[name]
        for c in ast.walk(m):
            if isinstance(c, ast.Call) and norm_stmt(c.func) in LOOKAHEAD:
                return f"{name}: {norm_stmt(c.func)}()"
        for callee in sorted(self_calls(m)):
            if callee.startswith("raise_") or callee in ("_build_syntax_error",):
                continue    # the error builders read the tokenizer for the message, after the decision to raise
            r = reaches_lookahead(callee, seen)
            if r:
                return r
        return ""

    n_sites = 0
    for r, key, a in actions.all_alts(ir.rules):
        if r.name.startswith("invalid_") or a.invalid_guard or a.action is None:
            continue
        for c in ast.walk(a.action):
            if not (isinstance(c, ast.Call) and isinstance(c.func, ast.Attribute) and isinstance(c.func.value, ast.Name)
                    and c.func.value.id == "self" and c.func.attr in raisers):
                continue
            h = c.func.attr
            n_sites += 1
            chk.count(rule_id)
            rev = REVIEWED.get(h)
            ok = rev is not None and (rev[0] is None or r.name in rev[0])
            chk.require(ok, rule_id, f"{key}:{h}", str(a.pos),
                        f"the action of `{r.name}` calls `{h}`, which can raise a syntax error in the first pass and is not one of the "
                        f"reviewed first-pass raisers{' for this rule' if rev is not None else ''}: a raise here pre-empts every later alternative "
                        f"of every enclosing rule (inside `$(...)` the word never reaches `cmd_name`), so it needs the argument that no other "
                        f"alternative could accept the same tokens")
            chk.count(rule_id)
            la = reaches_lookahead(h)
            chk.require(not la, rule_id, f"{key}:{h}:no-lookahead", str(a.pos),
                        f"`{h}` decides to raise after looking at tokens the alternative has not consumed ({la}): whether `{r.name}` fails or "
                        f"raises then depends on what follows it — `7z`, `2to3`, `50x50` are a NUMBER followed by a NAME")
    chk.units["first_pass_raise_sites"] = n_sites
    chk.floor(rule_id, 10)


def rule_no_token_rewrite(chk: Check, ir, ix, rule_id: str = "P4-verbatim-words"):
    """Words reach the runtime call verbatim: nothing between tokenizer and tree re-writes a token's text.  The one reviewed
    re-write is the removal of the `p` prefix letter from a path literal (decided by evaluation under X1-path-literal-gate)."""
    REVIEWED = {"Parser._strip_path_prefix"}
    n = 0
    for r, key, a in actions.all_alts(ir.rules):
        if a.action is None:
            continue
        for c in ast.walk(a.action):
            if isinstance(c, ast.Call) and isinstance(c.func, ast.Attribute) and c.func.attr == "_replace" and \
                    any(k.arg in ("string", "type") for k in c.keywords):
                n += 1
                chk.count(rule_id)
                chk.fail(rule_id, f"{key}:token-rewrite", str(a.pos),
                         f"the action of `{r.name}` hands on a token whose text/kind it has re-written (`{norm_stmt(c)[:60]}`): inside a "
                         f"subprocess the word no longer reaches the call as written, and glued words inherit the change")
    for q, f in sorted(ix.funcs.items()):
        if f.rel != repo.SUBHEADER:
            continue
        for c in ast.walk(f.node):
            if isinstance(c, ast.Call) and isinstance(c.func, ast.Attribute) and c.func.attr == "_replace" and \
                    any(k.arg in ("string", "type") for k in c.keywords):
                n += 1
                chk.count(rule_id)
                chk.require(q in REVIEWED, rule_id, f"{q}:token-rewrite", f"{f.rel}:{c.lineno}",
                            f"`{q}` re-writes the text/kind of a token (`{norm_stmt(c)[:60]}`) and is not the reviewed path-prefix removal")
    chk.units["token_rewrites"] = n
