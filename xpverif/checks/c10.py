"""C10 — f-strings: mode/pattern agreement, scan patterns, push/pop pairing, grammar side (DESIGN §4 C10, F1–F4)."""
from __future__ import annotations

import ast

from .. import constfold, repo, rx, typed
from ..absval import Node, members
from ..common import AnalysisError, Check, norm_stmt, parse_py
from ..pyflow import Index, own_nodes


def add_prog_sites(ix: Index):
    out = []
    for q, f in sorted(ix.funcs.items()):
        if f.rel != repo.TOKENIZE:
            continue
        defs = {}
        for n in own_nodes(f.node):
            if isinstance(n, ast.Assign) and len(n.targets) == 1 and isinstance(n.targets[0], ast.Name):
                defs.setdefault(n.targets[0].id, []).append(n.value)
        for n in own_nodes(f.node):
            if isinstance(n, ast.Call) and isinstance(n.func, ast.Attribute) and n.func.attr == "add_prog":
                kw = {k.arg: k.value for k in n.keywords}
                mode = norm_stmt(kw["mode"].func) if "mode" in kw and isinstance(kw["mode"], ast.Call) else None
                pat = kw.get("pattern")
                # a local `pattern` variable: take the assignment that precedes the call in the same block
                if isinstance(pat, ast.Name):
                    for blk in ast.walk(f.node):
                        for fld in ("body", "orelse"):
                            seq = getattr(blk, fld, None)
                            if isinstance(seq, list) and any(any(n is x for x in ast.walk(st)) for st in seq if isinstance(st, ast.stmt)):
                                idx = next(i for i, st in enumerate(seq) if isinstance(st, ast.stmt) and any(n is x for x in ast.walk(st)))
                                for st in reversed(seq[:idx]):
                                    if isinstance(st, ast.Assign) and len(st.targets) == 1 and isinstance(st.targets[0], ast.Name) \
                                            and st.targets[0].id == pat.id:
                                        pat = st.value
                                        break
                                if not isinstance(pat, ast.Name):
                                    break
                        if not isinstance(pat, ast.Name):
                            break
                out.append((f, n, mode, pat, defs))
    return out


def fold_pattern(pat: ast.expr, defs, endpats) -> list[str]:
    """All concrete patterns the `pattern=` argument can denote (the quote variable ranges over the endpats keys)."""
    if isinstance(pat, ast.Name) and pat.id in defs:
        # take the definition that textually precedes in the same branch: both definitions are tried
        outs = []
        for d in defs[pat.id]:
            outs += fold_pattern(d, defs, endpats)
        return outs
    free = {n.id for n in ast.walk(pat) if isinstance(n, ast.Name)}
    if "quote" in free:
        return [constfold.fold_expr(pat, {"quote": q}) for q in endpats]
    return [constfold.fold_expr(pat)]


def groups_of(pattern: str) -> set[str]:
    return {name for name, w, sub in rx.top_branches(pattern) if name}


def rule_f1(chk: Check, ix: Index, F):
    endpats = F.need("endpats")
    sites = add_prog_sites(ix)
    chk.units["add_prog_sites"] = [f"{f.qual}:{mode}" for f, n, mode, pat, defs in sites]
    need = {"ModeMiddle": {"LBrace", "End"}, "ModeInColon": {"LBrace", "RBrace"}}
    seen_modes = set()
    for f, n, mode, pat, defs in sites:
        if mode is None:
            continue
        seen_modes.add(mode)
        if mode not in need:
            continue
        chk.count("F1-mode-pattern")
        key = f"{f.qual}:{mode}"
        if pat is None:
            chk.fail("F1-mode-pattern", key, f"{f.rel}:{n.lineno}", f"mode {mode} is entered without a scan pattern")
            continue
        pats = fold_pattern(pat, defs, endpats)
        have = set.intersection(*[groups_of(p) for p in pats]) if pats else set()
        missing = need[mode] - have
        what = {"LBrace": "an opening brace (a nested replacement field)", "RBrace": "the closing brace", "End": "the closing quote"}
        chk.require(not missing, "F1-mode-pattern", key, f"{f.rel}:{n.lineno}",
                    f"in {mode} the scanner looks for {sorted(have)} only; it can never see {', '.join(what[m] for m in sorted(missing))}"
                    + (": `f\"{x:>{w}}\"` keeps `{w}` as literal text of the format spec" if mode == "ModeInColon" and "LBrace" in missing else ""))
    chk.count("F1-mode-pattern")
    chk.require({"ModeMiddle", "ModeInBraces", "ModeInColon"} <= seen_modes, "F1-mode-pattern", "modes-entered", repo.TOKENIZE,
                f"the three f-string modes must each be entered somewhere (found {sorted(seen_modes)})")
    # grammar side of F1: a nested field inside a format spec is reachable only if the scanner can produce `{` there
    return sites


def rule_f2(chk: Check, F, thorough: bool):
    lb = F.need("StartLBrace")
    endpats = F.need("endpats")
    for q in ('"', "'"):
        chk.count("F2-scan-pattern")
        quoted = {"lb": lb, "hasq": r"(?:[^\\" + q + r"]|\\.)*" + q + r"(?:.|\n)*"}
        try:
            an = rx.Analysis(quoted, exhaustive=False)
            w = an.witness_intersection(["lb", "hasq"])
        except rx.Unsupported as e:
            raise AnalysisError(f"StartLBrace not analysable: {e}")
        chk.require(w is None, "F2-scan-pattern", f"StartLBrace:crosses-closing-quote({q})", repo.TOKENIZE,
                    f"the brace search of the literal part matches {w!r}: it runs past an unescaped closing {q} to a brace that lies "
                    f"after the end of the f-string (e.g. `f{q}abc{q}, {{1}}`)")
    chk.count("F2-scan-pattern")
    an = rx.Analysis({"lb": lb, "dbl": r"(?:.|\n)*\{\{"}, exhaustive=False)
    w = an.witness_intersection(["lb", "dbl"])
    chk.require(w is None, "F2-scan-pattern", "StartLBrace:doubled-brace", repo.TOKENIZE,
                f"the brace search accepts {w!r}, ending at the second brace of `{{{{`: a doubled (escaped) brace opens a replacement field")
    rb = F.need("EndRBrace")
    chk.count("F2-scan-pattern")
    an = rx.Analysis({"rb": rb, "two": r"(?:.|\n)*\}(?:.|\n)*\}"}, exhaustive=False)
    w = an.witness_intersection(["rb", "two"])
    chk.require(w is None, "F2-scan-pattern", "EndRBrace:first-brace", repo.TOKENIZE,
                f"the format-spec terminator search accepts {w!r}: it skips a closing brace and ends at a later one, but a format spec "
                f"ends at its first `}}` (CPython: f\"{{x:a}}}}\" is an error, not the spec 'a}}')")
    # both patterns are at least one character wide (progress)
    for name in ("StartLBrace", "EndRBrace"):
        chk.count("F2-scan-pattern")
        lo, hi = rx.width(F.need(name))
        chk.require(lo >= 1, "F2-scan-pattern", f"{name}:min-width", repo.TOKENIZE, f"{name} can match the empty string")


def rule_f3(chk: Check, ix: Index):
    f = ix.get("handle_fstring_progs")
    lb = rb = None
    for n in ast.walk(f.node):
        if isinstance(n, ast.If) and norm_stmt(n.test) == "endmatch.lastgroup == 'LBrace'":
            lb, rb = n.body, n.orelse
    if lb is None:
        raise AnalysisError("brace emission branches of handle_fstring_progs not found")
    lbs, rbs = [norm_stmt(s) for s in lb], [norm_stmt(s) for s in rb]
    chk.count("F3-push-pop")
    ok = any(s == "state.parenlev += 1" for s in lbs) and any(s.startswith("state.add_prog(end, end, mode=ModeInBraces(state.parenlev))") for s in lbs) \
        and lbs.index("state.parenlev += 1") < [i for i, s in enumerate(lbs) if s.startswith("state.add_prog(")][0]
    chk.require(ok, "F3-push-pop", "handle_fstring_progs:{", f.where,
                "emitting `{` must raise the bracket depth and then push the in-braces mode recorded at that depth")
    chk.count("F3-push-pop")
    pops = [s for s in rbs if s.startswith("state.pop_mode(")]
    ok = any(s == "state.parenlev -= 1" for s in rbs) and len(pops) == 2 and pops[0] == "state.pop_mode()" and pops[1] == "state.pop_mode((state.lnum, end))"
    chk.require(ok, "F3-push-pop", "handle_fstring_progs:}", f.where,
                "emitting the `}` that ends a format spec must lower the bracket depth and pop exactly two modes: the spec, then the braces "
                "(restarting the literal part right after the brace)")
    # the ordinary closing brace (no spec)
    g = ix.get("next_psuedo_matches")
    chk.count("F3-push-pop")
    ok = False
    for n in ast.walk(g.node):
        if isinstance(n, ast.If) and norm_stmt(n.test) == "token in ')]}'":
            b = [norm_stmt(s) for s in n.body]
            ok = len(b) == 2 and b[0].startswith("if state.in_braces() and state.at_parenlev(): state.pop_mode((state.lnum, end))") and b[1] == "state.parenlev -= 1"
    chk.require(ok, "F3-push-pop", "next_psuedo_matches:closer", g.where,
                "a closing bracket at the depth recorded by the in-braces mode must pop that mode before the depth is lowered")
    chk.count("F3-push-pop")
    ok = False
    for n in ast.walk(g.node):
        if isinstance(n, ast.If) and norm_stmt(n.test) == "token == ':' and state.in_braces() and state.at_parenlev()":
            b = [norm_stmt(s) for s in n.body]
            ok = len(b) == 1 and b[0].startswith("state.add_prog(start + 1, end, mode=ModeInColon(state.parenlev)")
    chk.require(ok, "F3-push-pop", "next_psuedo_matches:colon", g.where,
                "a `:` directly inside the braces (at the recorded depth) must push the format-spec mode starting after the colon")
    # end of the f-string pops the middle mode
    chk.count("F3-push-pop")
    ok = any(isinstance(n, ast.If) and norm_stmt(n.test) == "endmatch.lastgroup == 'End'" and
             norm_stmt(n.body[-1]) == "state.pop_mode()" and any("Token.FSTRING_END" in norm_stmt(s) for s in n.body)
             for n in ast.walk(f.node))
    chk.require(ok, "F3-push-pop", "handle_fstring_progs:end", f.where,
                "the closing quote must emit FSTRING_END and pop the literal-part mode")


def rule_f4(chk: Check, ir, tr):
    # conversion characters: finite-domain evaluation of the guard
    sub = parse_py(repo.SUBHEADER)
    parser = repo.find_class(sub, "Parser")
    fn = repo.find_func(parser, "check_fstring_conversion")
    guards = [n for n in fn.body if isinstance(n, ast.If)]
    chk.count("F4-grammar-side")
    where = f"{repo.SUBHEADER}:{fn.lineno}"
    if len(guards) != 1 or not any(isinstance(x, ast.Call) and norm_stmt(x.func).startswith("self.raise_") for x in ast.walk(guards[0])):
        chk.fail("F4-grammar-side", "check_fstring_conversion:guard", where, "no single raising guard on the conversion character")
    else:
        test = guards[0].test
        bad = []
        for cand in ["s", "r", "a", "x", "S", "R", "A", "", "sr", "ss", "ra", "d", "_", "1", "é"]:
            rejected = bool(constfold.fold_expr(test, {"s": cand}))
            if rejected == (cand in ("s", "r", "a")):
                bad.append(cand)
        chk.require(not bad, "F4-grammar-side", "check_fstring_conversion:guard", where,
                    f"the conversion check `{norm_stmt(test)}` treats {bad} differently from CPython, which accepts exactly s, r, a")
    rets = [n for n in fn.body if isinstance(n, ast.Return)]
    chk.count("F4-grammar-side")
    chk.require(len(rets) == 1 and norm_stmt(rets[0].value) == "s.encode()[0]", "F4-grammar-side", "check_fstring_conversion:value", where,
                "the conversion must be the character's code (ord)")
    # FormattedValue.conversion expression in the grammar: -1 / ord('r') for `=` / the checked conversion
    r = ir.rules.get("fstring_replacement_field")
    if r is None:
        raise AnalysisError("rule fstring_replacement_field vanished")
    for i, a in enumerate(r.alts):
        if a.action is None:
            continue
        for c in ast.walk(a.action):
            if isinstance(c, ast.Call) and norm_stmt(c.func) == "ast.FormattedValue":
                kw = {k.arg: k.value for k in c.keywords}
                conv = kw.get("conversion")
                chk.count("F4-grammar-side")
                ok = False
                # evaluate: no conversion & no debug -> -1 ; debug only -> ord('r')
                try:
                    v0 = constfold.fold_expr(conv, {n.id: None for n in ast.walk(conv) if isinstance(n, ast.Name)})
                    names = sorted({n.id for n in ast.walk(conv) if isinstance(n, ast.Name)})
                    dbg = [n for n in names if "debug" in n]
                    v1 = constfold.fold_expr(conv, {n: ("=" if n in dbg else None) for n in names}) if dbg else None
                    ok = v0 == -1 and v1 == ord("r")
                except AnalysisError:
                    pass
                chk.require(ok, "F4-grammar-side", f"fstring_replacement_field#alt{i}:conversion", str(a.pos),
                            f"conversion must be -1 without `!c`, ord('r') for a bare `=` debug field, else the checked character; "
                            f"found `{norm_stmt(conv) if conv is not None else None}`")
    # fstring_full_format_spec returns a JoinedStr
    t = tr.interp.rule_types.get("fstring_full_format_spec")
    chk.count("F4-grammar-side")
    cls = {m.cls for m in members(t) if isinstance(m, Node)} if t is not None else set()
    chk.require(cls == {"JoinedStr"}, "F4-grammar-side", "fstring_full_format_spec:type", repo.PARSER_X,
                f"a format spec must be a JoinedStr; the rule returns {sorted(cls)}")


def run(chk: Check):
    chk.explanation = (
        "The f-string scanner is a hand-written mode machine; this check decides its tables and pairing, not agreement with "
        "CPython over all f-strings: (F1) which delimiters the scan pattern of each mode can see; (F2) by automata intersection, "
        "that the brace search of the literal part cannot run past an unescaped closing quote and does not stop at a doubled "
        "brace; (F3) that every `{` / `:` / `}` / closing quote pushes and pops exactly the modes and bracket depth it should; (F4) "
        "the conversion check accepts exactly s r a (finite-domain evaluation), the conversion value expression, and that a format "
        "spec is a JoinedStr. Deviations present today are listed known findings.")
    chk.trusted = ["xpverif.constfold", "xpverif.rx", "xpverif.absint (rule result types)"]
    chk.assumptions = ["C01/C04 rules cover the f-string grammar actions like all others"]
    ix = Index()
    F = constfold.fold_tokenize()
    rule_f1(chk, ix, F)
    rule_f2(chk, F, chk.tier == "thorough")
    rule_f3(chk, ix)
    rule_f4(chk, repo.ir_x(), typed.run())
    chk.floor("F1-mode-pattern", 3)
    chk.floor("F2-scan-pattern", 5)
    chk.floor("F3-push-pop", 5)
    chk.floor("F4-grammar-side", 4)
