"""C10 — f-strings: mode/pattern agreement, scan patterns, push/pop pairing, grammar side (DESIGN §4 C10, F1–F4)."""
from __future__ import annotations

import ast

from .. import constfold, repo, rx, typed
from ..absval import Node, members
from ..common import AnalysisError, Check, norm_stmt, parse_py
from ..ir import Lit, Opt, Tok
from ..pyflow import Index, own_nodes


def add_prog_sites(ix: Index):
    out = []
    for q, f in sorted(ix.funcs.items()):
        if f.rel != repo.TOKENIZE:
            continue
        defs = {}
        for n in own_nodes(f.node):
            if isinstance(n, ast.Assign) and len(n.targets) == 1 and isinstance(n.targets[0], ast.Name):
                defs.setdefault(n.targets[0].id, []).append(n.value)
        for n in own_nodes(f.node):
            if isinstance(n, ast.Call) and isinstance(n.func, ast.Attribute) and n.func.attr == "add_prog":
                kw = {k.arg: k.value for k in n.keywords}
                mode = norm_stmt(kw["mode"].func) if "mode" in kw and isinstance(kw["mode"], ast.Call) else None
                pat = kw.get("pattern")
                # a local `pattern` variable: take the assignment that precedes the call in the same block
                if isinstance(pat, ast.Name):
                    for blk in ast.walk(f.node):
                        for fld in ("body", "orelse"):
                            seq = getattr(blk, fld, None)
                            if isinstance(seq, list) and any(any(n is x for x in ast.walk(st)) for st in seq if isinstance(st, ast.stmt)):
                                idx = next(i for i, st in enumerate(seq) if isinstance(st, ast.stmt) and any(n is x for x in ast.walk(st)))
                                for st in reversed(seq[:idx]):
                                    if isinstance(st, ast.Assign) and len(st.targets) == 1 and isinstance(st.targets[0], ast.Name) \
                                            and st.targets[0].id == pat.id:
                                        pat = st.value
                                        break
                                if not isinstance(pat, ast.Name):
                                    break
                        if not isinstance(pat, ast.Name):
                            break
                out.append((f, n, mode, pat, defs))
    return out


def fold_pattern(pat: ast.expr, defs, endpats) -> list[str]:
    """All concrete patterns the `pattern=` argument can denote (the quote variable ranges over the endpats keys)."""
    if isinstance(pat, ast.Name) and pat.id in defs:
        # take the definition that textually precedes in the same branch: both definitions are tried
        outs = []
        for d in defs[pat.id]:
            outs += fold_pattern(d, defs, endpats)
        return outs
    free = {n.id for n in ast.walk(pat) if isinstance(n, ast.Name)}
    if "quote" in free:
        return [constfold.fold_expr(pat, {"quote": q}) for q in endpats]
    return [constfold.fold_expr(pat)]


def groups_of(pattern: str) -> set[str]:
    return {name for name, w, sub in rx.top_branches(pattern) if name}


def rule_f1(chk: Check, ix: Index, F):
    endpats = F.need("endpats")
    sites = add_prog_sites(ix)
    chk.units["add_prog_sites"] = [f"{f.qual}:{mode}" for f, n, mode, pat, defs in sites]
    need = {"ModeMiddle": {"LBrace", "End"}, "ModeInColon": {"LBrace", "RBrace"}}
    seen_modes = set()
    for f, n, mode, pat, defs in sites:
        if mode is None:
            continue
        seen_modes.add(mode)
        if mode not in need:
            continue
        chk.count("F1-mode-pattern")
        key = f"{f.qual}:{mode}"
        if pat is None:
            chk.fail("F1-mode-pattern", key, f"{f.rel}:{n.lineno}", f"mode {mode} is entered without a scan pattern")
            continue
        pats = fold_pattern(pat, defs, endpats)
        have = set.intersection(*[groups_of(p) for p in pats]) if pats else set()
        missing = need[mode] - have
        what = {"LBrace": "an opening brace (a nested replacement field)", "RBrace": "the closing brace", "End": "the closing quote"}
        chk.require(not missing, "F1-mode-pattern", key, f"{f.rel}:{n.lineno}",
                    f"in {mode} the scanner looks for {sorted(have)} only; it can never see {', '.join(what[m] for m in sorted(missing))}"
                    + (": `f\"{x:>{w}}\"` keeps `{w}` as literal text of the format spec" if mode == "ModeInColon" and "LBrace" in missing else ""))
    chk.count("F1-mode-pattern")
    chk.require({"ModeMiddle", "ModeInBraces", "ModeInColon"} <= seen_modes, "F1-mode-pattern", "modes-entered", repo.TOKENIZE,
                f"the three f-string modes must each be entered somewhere (found {sorted(seen_modes)})")
    # grammar side of F1: a nested field inside a format spec is reachable only if the scanner can produce `{` there
    return sites


def rule_f2(chk: Check, F, thorough: bool):
    lb = F.need("StartLBrace")
    endpats = F.need("endpats")
    for q in ('"', "'"):
        chk.count("F2-scan-pattern")
        quoted = {"lb": lb, "hasq": r"(?:[^\\" + q + r"]|\\.)*" + q + r"(?:.|\n)*"}
        try:
            an = rx.Analysis(quoted, exhaustive=False)
            w = an.witness_intersection(["lb", "hasq"])
        except rx.Unsupported as e:
            raise AnalysisError(f"StartLBrace not analysable: {e}")
        chk.require(w is None, "F2-scan-pattern", f"StartLBrace:crosses-closing-quote({q})", repo.TOKENIZE,
                    f"the brace search of the literal part matches {w!r}: it runs past an unescaped closing {q} to a brace that lies "
                    f"after the end of the f-string (e.g. `f{q}abc{q}, {{1}}`)")
    chk.count("F2-scan-pattern")
    an = rx.Analysis({"lb": lb, "dbl": r"(?:.|\n)*\{\{"}, exhaustive=False)
    w = an.witness_intersection(["lb", "dbl"])
    chk.require(w is None, "F2-scan-pattern", "StartLBrace:doubled-brace", repo.TOKENIZE,
                f"the brace search accepts {w!r}, ending at the second brace of `{{{{`: a doubled (escaped) brace opens a replacement field")
    # ... and ends at the *first* brace that opens a field.  The search is a lazy repetition, so this is a fact about leftmost-
    # shortest matching, not about the pattern's language: decided by running the folded pattern (Python's own `re`) over every
    # word of length <= 6 over {a, {, }, backslash, N} — stepping over `\N{...}` as an escape is right for ordinary f-strings
    # only; in a raw one the `{` after `\N` opens a field
    import itertools as _it
    import re as _re
    chk.count("F2-scan-pattern")
    pat = _re.compile(lb, _re.S)
    wbad = None
    for n in range(1, 7):
        for tup in _it.product("a{}\\N", repeat=n):
            w = "".join(tup)
            if "{{" in w:
                continue        # doubled braces are the business of `StartLBrace:doubled-brace`
            first = None
            i = 0
            while i < len(w):
                if w[i] == "{":
                    if i + 1 < len(w) and w[i + 1] == "{":
                        i += 2
                        continue
                    first = i
                    break
                i += 1
            if first is None:
                continue
            m = pat.match(w)
            if m is None or m.end() != first + 1:
                wbad = (w, m.end() if m else None, first + 1)
                break
        if wbad:
            break
    chk.require(wbad is None, "F2-scan-pattern", "StartLBrace:first-brace", repo.TOKENIZE,
                f"on {wbad[0] if wbad else ''!r} the brace search ends at {wbad[1] if wbad else ''} instead of {wbad[2] if wbad else ''}, right after the "
                f"first `{{` that is not doubled: the field that brace opens becomes literal text (in a raw f-string `\\N{{x}}` is the text "
                f"`\\N` followed by the field `{{x}}`)")
    rb = F.need("EndRBrace")
    chk.count("F2-scan-pattern")
    an = rx.Analysis({"rb": rb, "two": r"(?:.|\n)*\}(?:.|\n)*\}"}, exhaustive=False)
    w = an.witness_intersection(["rb", "two"])
    chk.require(w is None, "F2-scan-pattern", "EndRBrace:first-brace", repo.TOKENIZE,
                f"the format-spec terminator search accepts {w!r}: it skips a closing brace and ends at a later one, but a format spec "
                f"ends at its first `}}` (CPython: f\"{{x:a}}}}\" is an error, not the spec 'a}}')")
    # both patterns are at least one character wide (progress)
    for name in ("StartLBrace", "EndRBrace"):
        chk.count("F2-scan-pattern")
        lo, hi = rx.width(F.need(name))
        chk.require(lo >= 1, "F2-scan-pattern", f"{name}:min-width", repo.TOKENIZE, f"{name} can match the empty string")


def split_named_branches(pattern: str) -> list[tuple[str, str]]:
    """`(?P<A>x)|(?P<B>y)` -> [("A", "x"), ("B", "y")] (top-level alternation of named groups, as `choice()` builds it)."""
    out, depth, i, start, in_class = [], 0, 0, 0, False
    parts = []
    while i < len(pattern):
        c = pattern[i]
        if c == "\\":
            i += 2
            continue
        if in_class:
            if c == "]":
                in_class = False
        elif c == "[":
            in_class = True
            if i + 1 < len(pattern) and pattern[i + 1] == "]":
                i += 1
            elif pattern[i + 1:i + 3] == "^]":
                i += 2
        elif c == "(":
            depth += 1
        elif c == ")":
            depth -= 1
        elif c == "|" and depth == 0:
            parts.append(pattern[start:i])
            start = i + 1
        i += 1
    parts.append(pattern[start:])
    import re as _re
    for part in parts:
        m = _re.fullmatch(r"\(\?P<(\w+)>(.*)\)", part, _re.S)
        if not m:
            raise AnalysisError(f"mode pattern is not an alternation of named groups: {part[:40]!r}")
        out.append((m.group(1), m.group(2)))
    return out


def rule_f2_order(chk: Check, ix: Index, F):
    """In the literal part of an f-string a `{` that is not doubled opens a replacement field — whatever precedes it, a backslash
    included.  The scanner looks for the next delimiter with an ordered alternation; whichever alternative is tried first must
    not run over a field-opening brace: if the closing-quote alternative comes first, its language must contain no undoubled `{`;
    if the brace alternative comes first, that is F2's `crosses-closing-quote` obligation."""
    endpats = F.need("endpats")
    UNDOUBLED = r"(?:[^{]|\{\{)*\{(?!\{)(?:.|\n)*"
    n = 0
    for f, call, mode, pat, defs in add_prog_sites(ix):
        if mode != "ModeMiddle" or pat is None:
            continue
        for text in fold_pattern(pat, defs, endpats):
            names = split_named_branches(text)
            order = [nm for nm, _ in names]
            if "End" not in order or "LBrace" not in order:
                continue
            n += 1
            chk.count("F2-scan-pattern")
            key = f"{f.qual}:middle-pattern:{order}"
            if order.index("LBrace") < order.index("End"):
                chk.ok("F2-scan-pattern", key, f"{f.rel}:{call.lineno}", "brace search first")
                continue
            endp = dict(names)["End"]
            try:
                an = rx.Analysis({"end": endp, "brace": UNDOUBLED}, exhaustive=False)
                w = an.witness_intersection(["end", "brace"])
            except rx.Unsupported as e:
                raise AnalysisError(f"End pattern not analysable: {e}")
            chk.require(w is None, "F2-scan-pattern", key, f"{f.rel}:{call.lineno}",
                        f"the closing-quote search is tried before the brace search and matches {w!r}, which contains a `{{` that is not "
                        f"doubled: the replacement field after it becomes literal text (e.g. a field preceded by a backslash)")
    if n == 0:
        chk.count("F2-scan-pattern")
        chk.fail("F2-scan-pattern", "middle-pattern:delimiters", repo.TOKENIZE,
                 "no literal-part scan pattern offers both the closing quote (End) and the field opener (LBrace)")


def rule_f10(chk: Check, ix: Index, rule_id: str = "F10-merged-literals"):
    """CPython merges adjacent literal pieces of a joined string into one Constant.  Structural clause: everything that ends up in
    `JoinedStr.values` went through the merge — each `append`/`extend` on that list sits in the else-branch of the test "the last
    piece and this piece are both Constants" (whose then-branch extends the last piece)."""
    f = ix.get("Parser.concatenate_strings")
    sites = [c for c in own_nodes(f.node) if isinstance(c, ast.Call) and norm_stmt(c.func) == "ast.JoinedStr"]
    chk.count(rule_id)
    if not sites:
        raise AnalysisError("concatenate_strings no longer builds a JoinedStr")
    bad = []
    for c in sites:
        v = next((k.value for k in c.keywords if k.arg == "values"), None)
        if not isinstance(v, ast.Name):
            bad.append(f"values={norm_stmt(v) if v is not None else '?'} is not a list built in this function")
            continue
        adds = [n for n in own_nodes(f.node) if isinstance(n, ast.Call) and isinstance(n.func, ast.Attribute) and n.func.attr in ("append", "extend", "insert")
                and norm_stmt(n.func.value) == v.id]
        inits = [n for n in own_nodes(f.node) if isinstance(n, (ast.Assign, ast.AnnAssign)) and
                 norm_stmt(n.targets[0] if isinstance(n, ast.Assign) else n.target) == v.id]
        if not adds or not inits or any(not (isinstance(i.value, ast.List) and not i.value.elts) for i in inits if i.value is not None):
            bad.append(f"`{v.id}` is not an initially empty list filled by append")
            continue
        for a in adds:
            guarded = False
            for i in own_nodes(f.node):
                if isinstance(i, ast.If) and any(a is x for b in i.orelse for x in ast.walk(b)):
                    t = norm_stmt(i.test)
                    if t.count("isinstance(") >= 2 and t.count("ast.Constant") >= 2 and isinstance(i.test, ast.BoolOp) and isinstance(i.test.op, ast.And):
                        guarded = True
            if a.func.attr != "append" or not guarded:
                bad.append(f"`{norm_stmt(a)[:60]}` adds to the parts without the both-are-Constants merge test")
    # a merge that builds a new Constant (instead of extending the first one in place) carries the first piece's `kind` over
    for i in own_nodes(f.node):
        if isinstance(i, ast.If) and norm_stmt(i.test).count("isinstance(") >= 2 and norm_stmt(i.test).count("ast.Constant") >= 2:
            for c in [c for b in i.body for c in ast.walk(b) if isinstance(c, ast.Call) and norm_stmt(c.func) == "ast.Constant"]:
                kw = {k.arg: norm_stmt(k.value) for k in c.keywords}
                if "kind" not in kw or ".kind" not in kw["kind"]:
                    bad.append(f"the merged literal is a new `ast.Constant(...)` without the first piece's `kind` (u'a' f'b{{x}}' loses kind='u')")
    chk.require(not bad, rule_id, "Parser.concatenate_strings:values", f.where,
                f"pieces reach JoinedStr.values unmerged: {bad[:2]} — `f'{{a}}x' 'y' f'{{b}}'` then has two Constants in a row where CPython "
                f"has one")


def rule_f5b(chk: Check, ix: Index, rule_id: str = "F5-text-decoding"):
    """Escape decoding of literal text, if done by evaluation, must evaluate a *token's own text*: a fragment re-quoted by hand
    (`literal_eval(quote + text + quote)`) is a different literal whenever the text ends in a backslash or contains that quote
    (`f\"\"\"... "*\\.py" "{p}" \"\"\"`), and is then refused or cut."""
    for q, g in sorted(ix.funcs.items()):
        if g.rel != repo.SUBHEADER:
            continue
        for c in own_nodes(g.node):
            if isinstance(c, ast.Call) and norm_stmt(c.func) in ("ast.literal_eval", "literal_eval", "eval") and c.args:
                chk.count(rule_id)
                a = c.args[0]
                ok = isinstance(a, ast.Attribute) and a.attr == "string"
                chk.require(ok, rule_id, f"{q}:evaluates:{norm_stmt(a)[:40]}", f"{g.rel}:{c.lineno}",
                            f"`{q}` evaluates `{norm_stmt(a)[:60]}`, a literal assembled from pieces rather than a token's text: the pieces "
                            f"can close the quotes early or escape the closing quote, so valid f-string text is refused")


def rule_f3(chk: Check, ix: Index):
    from ..fprogs import delimiter_paths
    f = ix.get("handle_fstring_progs")
    dp = delimiter_paths(ix)

    from ..fprogs import primitives

    def stack_empty(p):
        return any(x[0] == "cond" and x[1] == "state.end_progs" and not x[2] for x in p)

    def mode_effects(p):
        return primitives(ix, p)
    RESTART = "restart((state.lnum, end))"

    def emits(p, *needles):
        return [i for i, x in enumerate(p) if x[0] == "do" and "yield" in x[1] and all(n in x[1] for n in needles)]
    chk.count("F3-push-pop")
    ok = all(mode_effects(p) == ["state.parenlev += 1", "state.add_prog(end, end, mode=ModeInBraces(state.parenlev))"] for p in dp["LBrace"])
    chk.require(ok, "F3-push-pop", "handle_fstring_progs:{", f.where,
                "emitting `{` must raise the bracket depth and then push the in-braces mode recorded at that depth")
    chk.count("F3-push-pop")
    ok = True
    for p in dp["RBrace"]:
        if stack_empty(p):
            continue
        me = mode_effects(p)
        stack = [s for s in me if not s.startswith("state.parenlev")]
        ok = ok and sorted(me) == sorted(["state.parenlev -= 1", "pop", "pop", RESTART]) and stack == ["pop", "pop", RESTART]
    chk.require(ok, "F3-push-pop", "handle_fstring_progs:}", f.where,
                "emitting the `}` that ends a format spec must lower the bracket depth and pop exactly two modes: the spec, then the braces "
                "(restarting the literal part right after the brace)")
    # operators in ordinary scanning: the paths of next_psuedo_matches that a given operator lexeme can take (tests on the token
    # text are evaluated for it, tests on the scanner state split the cases) and the mode/depth effects performed on them
    g = ix.get("next_psuedo_matches")
    from ..pyflow import stmt_paths, propagate_locals
    import types as _types
    F = constfold.fold_tokenize()
    from ..fprogs import inline_state_flags
    paths = stmt_paths(inline_state_flags(g.node), split_bool=True)
    SAMPLES = ["(", "[", "{", "$(", "@(", "![", "${", "$[", "@$(", "!(", ")", "]", "}", ":", ":=", "->", "+", "=", "==", ",", ";", ".", "...",
               "|", "&&", "**=", "<", "@", "!", "?", "??", "$"]

    def takes(p, t):
        env = dict(F.ns)
        env.update(token=t, match=_types.SimpleNamespace(lastgroup="Special"))
        for x in p:
            if x[0] != "cond":
                continue
            tree = ast.parse(x[1], mode="eval")
            names = {n.id for n in ast.walk(tree) if isinstance(n, ast.Name)}
            if "state" in names or not names & {"token", "match"} or any(isinstance(n, ast.Call) and not isinstance(n.func, ast.Attribute) for n in ast.walk(tree)):
                continue
            try:
                v = bool(eval(compile(tree, "<cond>", "eval"), {"__builtins__": {}}, env))
            except Exception:
                continue
            if v != x[2]:
                return False
        return True

    def effects(p):
        out = []
        for x in p:
            if x[0] == "do" and x[1].startswith("state.pos ") and x[1] != "state.pos = end":
                out.append(x[1])
            elif x[0] == "do":
                out += primitives(ix, (x,))
        return out
    bad = {"opener": None, "closer": None, "colon": None, "other": None}
    seen = {"closer-inside": 0, "closer-outside": 0, "colon-inside": 0}
    for t in SAMPLES:
        kind = "opener" if t[-1] in "([{" else "closer" if t in (")", "]", "}") else "colon" if t[0] == ":" else "other"
        mine = [p for p in paths if takes(p, t) and any(x[0] == "cond" and "Special" in x[1] and x[2] for x in p)
                and not any(x == ("cond", "token_type", False) for x in p)]
        if not mine:
            bad[kind] = (t, "no path of the operator branch accepts it")
            continue
        for p in mine:
            p = propagate_locals(p)
            conds = {x[1]: x[2] for x in p if x[0] == "cond"}
            inside = conds.get("state.in_braces()") is True and conds.get("state.at_parenlev()") is True
            outside = conds.get("state.in_braces()") is False or conds.get("state.at_parenlev()") is False
            eff = effects(p)
            if kind == "opener":
                ok = eff == ["state.parenlev += 1"]
            elif kind == "closer":
                if inside and stack_empty(p):
                    ok = True
                elif inside:
                    ok = eff == ["pop", RESTART, "state.parenlev -= 1"]
                    seen["closer-inside"] += 1
                elif outside:
                    ok = eff == ["state.parenlev -= 1"]
                    seen["closer-outside"] += 1
                else:
                    ok = False
            elif kind == "colon":
                if inside:
                    ok = sorted(e.split("(")[0] for e in eff) == ["state.add_prog", "state.pos = start + 1"] and \
                        any(e.startswith(("state.add_prog(start + 1, start + 1, mode=ModeInColon(state.parenlev)",
                                          "state.add_prog(start + 1, end, mode=ModeInColon(state.parenlev)")) for e in eff) and \
                        p[-1][1] == "return" and p[-1][2].startswith("TokenInfo(Token.OP,")
                    seen["colon-inside"] += 1
                else:
                    ok = eff == [] and (outside or True)
            else:
                ok = eff == []
            if not ok and bad[kind] is None:
                bad[kind] = (t, eff, {k: v for k, v in conds.items() if "state." in k})
    chk.count("F3-push-pop")
    chk.require(bad["opener"] is None, "F3-push-pop", "next_psuedo_matches:opener", g.where,
                f"an operator ending in an opening bracket must raise the bracket depth by one and change no mode: {bad['opener']}")
    chk.count("F3-push-pop")
    chk.require(bad["closer"] is None and seen["closer-inside"] and seen["closer-outside"], "F3-push-pop", "next_psuedo_matches:closer", g.where,
                f"a closing bracket at the depth recorded by the in-braces mode must pop that mode (restarting the literal part after the "
                f"bracket) before the depth is lowered, and only lower the depth otherwise: {bad['closer']}")
    chk.count("F3-push-pop")
    chk.require(bad["colon"] is None and seen["colon-inside"], "F3-push-pop", "next_psuedo_matches:colon", g.where,
                f"a `:` directly inside the braces (at the recorded depth) must push the format-spec mode starting after the colon and "
                f"emit the one-character operator; elsewhere it changes nothing: {bad['colon']}")
    chk.count("F3-push-pop")
    chk.require(bad["other"] is None, "F3-push-pop", "next_psuedo_matches:other-operators", g.where,
                f"an operator that is neither a bracket nor a colon must not change the bracket depth or the mode stack: {bad['other']}")
    # end of the f-string pops the middle mode
    chk.count("F3-push-pop")
    ok = all(mode_effects(p) == ["pop"] and emits(p, "Token.FSTRING_END") for p in dp["End"])
    chk.require(ok, "F3-push-pop", "handle_fstring_progs:end", f.where,
                "the closing quote must emit FSTRING_END and pop the literal-part mode")


def _text_var(e: ast.expr, fn: ast.FunctionDef) -> ast.expr:
    """The conversion character is `<token parameter>.string`, directly or through a local: write it as `s`."""
    import copy
    tokparam = [a.arg for a in fn.args.args][1]
    locals_ = {n.targets[0].id for n in fn.body if isinstance(n, ast.Assign) and isinstance(n.targets[0], ast.Name)
               and norm_stmt(n.value) == f"{tokparam}.string"}

    class R(ast.NodeTransformer):
        def visit_Attribute(self, node):
            if norm_stmt(node) == f"{tokparam}.string":
                return ast.Name("s", ast.Load())
            return self.generic_visit(node)

        def visit_Name(self, node):
            return ast.Name("s", ast.Load()) if node.id in locals_ else node

    return ast.fix_missing_locations(R().visit(copy.deepcopy(e)))


def rule_f4(chk: Check, ir, tr):
    # conversion characters: finite-domain evaluation of the guard
    sub = parse_py(repo.SUBHEADER)
    parser = repo.find_class(sub, "Parser")
    fn = repo.find_func(parser, "check_fstring_conversion")
    guards = [n for n in fn.body if isinstance(n, ast.If)]
    chk.count("F4-grammar-side")
    where = f"{repo.SUBHEADER}:{fn.lineno}"
    if len(guards) != 1 or not any(isinstance(x, ast.Call) and norm_stmt(x.func).startswith("self.raise_") for x in ast.walk(guards[0])):
        chk.fail("F4-grammar-side", "check_fstring_conversion:guard", where, "no single raising guard on the conversion character")
    else:
        test = _text_var(guards[0].test, fn)
        bad = []
        for cand in ["s", "r", "a", "x", "S", "R", "A", "", "sr", "ss", "ra", "d", "_", "1", "é"]:
            rejected = bool(constfold.fold_expr(test, {"s": cand}))
            if rejected == (cand in ("s", "r", "a")):
                bad.append(cand)
        chk.require(not bad, "F4-grammar-side", "check_fstring_conversion:guard", where,
                    f"the conversion check `{norm_stmt(test)}` treats {bad} differently from CPython, which accepts exactly s, r, a")
    rets = [n for n in fn.body if isinstance(n, ast.Return)]
    chk.count("F4-grammar-side")
    val_ok = len(rets) == 1 and norm_stmt(_text_var(rets[0].value, fn)) in ("s.encode()[0]", "ord(s)")
    if len(rets) == 1 and not val_ok:
        # any other spelling (a table lookup, ...): evaluated for the three characters that pass the guard
        try:
            val_ok = all(constfold.fold_expr(_text_var(rets[0].value, fn), {"s": c}) == ord(c) for c in "sra")
        except Exception:
            val_ok = False
    chk.require(val_ok, "F4-grammar-side",
                "check_fstring_conversion:value", where,
                "the conversion must be the character's code (ord)")
    # FormattedValue.conversion expression in the grammar: -1 / ord('r') for `=` / the checked conversion
    r = ir.rules.get("fstring_replacement_field")
    if r is None:
        raise AnalysisError("rule fstring_replacement_field vanished")
    for i, a in enumerate(r.alts):
        if a.action is None:
            continue
        for c in ast.walk(a.action):
            if isinstance(c, ast.Call) and norm_stmt(c.func) == "ast.FormattedValue":
                kw = {k.arg: k.value for k in c.keywords}
                conv = kw.get("conversion")
                chk.count("F4-grammar-side")
                ok = False
                # evaluate: no conversion & no debug -> -1 ; debug only -> ord('r')
                try:
                    names = sorted({n.id for n in ast.walk(conv) if isinstance(n, ast.Name)} - set(constfold.SAFE_BUILTINS))
                    dbg = [n for n in names if "debug" in n]
                    cv = [n for n in names if "conv" in n]
                    rest = [n for n in names if n not in dbg and n not in cv]
                    ok = bool(dbg) and bool(cv)
                    import itertools
                    for d, c, *others in itertools.product((None, "="), (None, 115, 114, 97), *[(None, "spec")] * len(rest)):
                        env = {n: d for n in dbg}
                        env.update({n: c for n in cv})
                        env.update(dict(zip(rest, others)))
                        want = c if c else (ord("r") if d else -1)
                        if constfold.fold_expr(conv, env) != want:
                            ok = False
                except AnalysisError:
                    ok = False
                chk.require(ok, "F4-grammar-side", f"fstring_replacement_field#alt{i}:conversion", str(a.pos),
                            f"conversion must be -1 without `!c`, ord('r') for a bare `=` debug field, else the checked character — whatever else "
                            f"the field has (a format spec does not cancel an explicit conversion); "
                            f"found `{norm_stmt(conv) if conv is not None else None}`")
    # fstring_full_format_spec returns a JoinedStr
    t = tr.interp.rule_types.get("fstring_full_format_spec")
    chk.count("F4-grammar-side")
    cls = {m.cls for m in members(t) if isinstance(m, Node)} if t is not None else set()
    chk.require(cls == {"JoinedStr"}, "F4-grammar-side", "fstring_full_format_spec:type", repo.PARSER_X,
                f"a format spec must be a JoinedStr; the rule returns {sorted(cls)}")


def rule_f5(chk: Check, ir, ix: Index, F):
    """F5–F7: what CPython does to the *text* of an f-string and this code has to do too.
    F5: literal text (FSTRING_MIDDLE) of a non-raw f-string is escape-decoded before it becomes Constant.value; named unicode
        escapes (backslash-N-brace) do not open a field.  F6: a `=` debug field contributes the source text of the expression as a Constant
        in front of the FormattedValue.  F7: a `:` directly inside the braces starts the format spec whatever follows it —
        every operator lexeme that begins with `:` has to take the colon-entry branch."""
    from .. import rx
    sub = parse_py(repo.SUBHEADER)
    parser = repo.find_class(sub, "Parser")
    hf = repo.find_func(parser, "handle_fstring")
    # does handle_fstring post-process its parts?  (a loop or comprehension over the parts parameter)
    parts_param = [a.arg for a in hf.args.args][2] if len(hf.args.args) > 2 else None
    post = any(isinstance(n, (ast.For, ast.comprehension)) and parts_param in {x.id for x in ast.walk(n.iter) if isinstance(x, ast.Name)}
               for n in ast.walk(hf))
    n_mid = 0
    for r in ir.rules.values():
        for i, a in enumerate(r.alts):
            for it in a.items:
                if isinstance(it.item, Tok) and it.item.name == "FSTRING_MIDDLE" and it.name and a.action is not None:
                    n_mid += 1
                    raw = False
                    for c in ast.walk(a.action):
                        if isinstance(c, ast.Call) and norm_stmt(c.func) == "ast.Constant":
                            for kw in c.keywords:
                                if kw.arg == "value" and norm_stmt(kw.value) == f"{it.name}.string":
                                    raw = True
                    chk.count("F5-text-decoding")
                    chk.require(not raw or post, "F5-text-decoding", f"{r.name}:FSTRING_MIDDLE", str(a.pos),
                                "the token text becomes Constant.value as scanned: escapes are not decoded (`f\"a\\nb\"` gives "
                                "'a\\\\nb', CPython 'a\\nb' with a real newline) and nothing later walks the parts")
    if not n_mid:
        raise AnalysisError("F5: no action receives a FSTRING_MIDDLE token")
    # \N{...}
    endpats = F.need("endpats")
    sites = [(f, n, mode, pat, defs) for f, n, mode, pat, defs in add_prog_sites(ix) if mode == "ModeMiddle" and pat is not None]
    pats = [p for f, n, mode, pat, defs in sites for p in fold_pattern(pat, defs, endpats)]
    chk.count("F5-text-decoding")
    opens = []
    for p in pats:
        an = rx.Analysis({"scan": p, "named": r"(?:[^\\]|\\[^N])*\\N\{"}, exhaustive=False)
        opens.append(an.witness_intersection(["scan", "named"]))
    chk.require(any(w is None for w in opens), "F5-text-decoding", "ModeMiddle:named-unicode-escape", repo.TOKENIZE,
                f"every literal-part scan pattern ends a match at the brace of a named escape ({opens[0]!r}): `f\"\\N{{DASH}}\"` is "
                f"scanned as the text '\\N' and a field `{{DASH}}`")
    # F6
    r = ir.rules.get("fstring_replacement_field")
    if r is None:
        raise AnalysisError("rule fstring_replacement_field vanished")
    n_dbg = 0
    for i, a in enumerate(r.alts):
        dbg = [it.name for it in a.items if it.name and isinstance(it.item, Opt) and isinstance(it.item.item, Lit) and it.item.item.value == "="]
        if not dbg or a.action is None:
            continue
        n_dbg += 1
        uses = 0
        for c in ast.walk(a.action):
            if isinstance(c, ast.Call):
                for kw in c.keywords:
                    if kw.arg != "conversion" and any(isinstance(x, ast.Name) and x.id in dbg for x in ast.walk(kw.value)):
                        uses += 1
                for arg in c.args:
                    if any(isinstance(x, ast.Name) and x.id in dbg for x in ast.walk(arg)):
                        uses += 1
        chk.count("F6-debug-text")
        chk.require(uses > 0, "F6-debug-text", f"fstring_replacement_field:debug", str(a.pos),
                    f"the `=` of a debug field (`{dbg[0]}`) only selects the conversion; the source text of the expression is not "
                    f"emitted: `f\"{{x=}}\"` gives [FormattedValue(x, 'r')], CPython [Constant('x='), FormattedValue(x, 'r')]")
    if not n_dbg:
        raise AnalysisError("F6: no alternative of fstring_replacement_field captures an optional '='")
    # F7
    g = ix.get("next_psuedo_matches")
    ops = [o for o in F.need("OPS") if o.startswith(":")]
    found = False
    for n in ast.walk(g.node):
        if isinstance(n, ast.If) and any(isinstance(c, ast.Call) and norm_stmt(c.func) == "ModeInColon" for st in n.body if not isinstance(st, ast.If) for c in ast.walk(st)):
            found = True
            cmps = [c for c in (n.test.values if isinstance(n.test, ast.BoolOp) and isinstance(n.test.op, ast.And) else [n.test])
                    if isinstance(c, ast.Compare) and len({x.id for x in ast.walk(c) if isinstance(x, ast.Name)}) == 1]
            if len(cmps) != 1:
                chk.count("F7-colon-lexemes")
                chk.undecided("F7-colon-lexemes", "colon-entry", f"{g.rel}:{n.lineno}", "the colon test is not a single comparison on the token text")
                continue
            var = next(x.id for x in ast.walk(cmps[0]) if isinstance(x, ast.Name))
            for o in sorted(ops):
                chk.count("F7-colon-lexemes")
                ok = bool(constfold.fold_expr(cmps[0], {var: o}))
                chk.require(ok, "F7-colon-lexemes", f"colon-entry:{o}", f"{g.rel}:{n.lineno}",
                            f"the operator lexeme {o!r} starts with a colon but fails `{norm_stmt(cmps[0])}`: directly inside the braces it "
                            f"is kept as an operator instead of starting the format spec — `f'{{x:=5}}'` is a SyntaxError here, "
                            f"CPython formats x with spec '=5'")
    if not found:
        raise AnalysisError("F7: the branch that enters ModeInColon was not found")


def rule_f9(chk: Check, ir):
    """F9: an f-string may be empty (`f""`, also inside a concatenation or a field): what stands between FSTRING_START and
    FSTRING_END in the grammar must be able to match nothing."""
    from ..ir import Opt, Rep, Tok
    n = 0
    for name, r in ir.rules.items():
        for i, a in enumerate(r.alts):
            kinds = [it.item.name if isinstance(it.item, Tok) else None for it in a.items]
            if "FSTRING_START" in kinds and "FSTRING_END" in kinds:
                lo, hi = kinds.index("FSTRING_START"), kinds.index("FSTRING_END")
                between = [it.item for it in a.items[lo + 1:hi]]
                n += 1
                chk.count("F9-empty-fstring")
                ok = all((isinstance(x, Rep) and x.min == 0) or isinstance(x, Opt) for x in between)
                chk.require(ok, "F9-empty-fstring", f"{name}", str(a.pos),
                            f"`{a}` requires at least one part between the opening and the closing quote: `f\"\"` (and any concatenation or "
                            f"field containing it) is a syntax error here and valid Python")
    if n == 0:
        raise AnalysisError("F9: no grammar alternative spans FSTRING_START .. FSTRING_END")


def rule_f8(chk: Check, ix: Index, ir):
    """F8: the mode stack is a stack — every read of an entry of `end_progs` reads the innermost one (index -1); with nested
    strings (an f-string inside a replacement field of another) any other index answers for the wrong string.
    F4-field-expression: what stands between `{` and the conversion/spec admits everything CPython admits there:
    a yield expression or star_expressions."""
    n = 0
    for q, f in sorted(ix.funcs.items()):
        if f.rel != repo.TOKENIZE:
            continue
        for x in own_nodes(f.node):
            if isinstance(x, ast.Subscript) and isinstance(x.value, ast.Attribute) and x.value.attr == "end_progs":
                n += 1
                chk.count("F8-top-of-stack")
                idx = norm_stmt(x.slice)
                chk.require(idx == "-1", "F8-top-of-stack", f"{f.qual}:{norm_stmt(x)}", f"{f.rel}:{x.lineno}",
                            f"`{norm_stmt(x)}` reads entry {idx} of the mode stack; only the innermost open string (index -1) describes "
                            f"the text being scanned")
    if n == 0:
        raise AnalysisError("F8: no read of the mode stack found")
    r = ir.rules.get("fstring_replacement_field")
    if r is None:
        raise AnalysisError("rule fstring_replacement_field vanished")

    def refs(item, seen):
        from ..ir import Group, Ref
        if isinstance(item, Ref):
            if item.name in seen or item.name not in ir.rules:
                return {item.name}
            rr = ir.rules[item.name]
            real = [a for a in rr.alts if not a.invalid_guard]
            # an alias rule: every alternative is a single reference
            if real and all(len(a.items) == 1 and isinstance(a.items[0].item, Ref) for a in real):
                out = {item.name}
                for a in real:
                    out |= refs(a.items[0].item, seen | {item.name})
                return out
            return {item.name}
        if isinstance(item, Group):
            out = set()
            for a in item.alts:
                if len(a.items) == 1:
                    out |= refs(a.items[0].item, seen)
            return out
        return set()

    for i, a in enumerate(r.alts):
        if a.invalid_guard or not a.items or not (isinstance(a.items[0].item, Lit) and a.items[0].item.value == "{"):
            continue
        chk.count("F4-grammar-side")
        got = refs(a.items[1].item, set()) if len(a.items) > 1 else set()
        need = {"yield_expr", "star_expressions"}
        chk.require(need <= got, "F4-grammar-side", f"fstring_replacement_field#alt{i}:field-expression", str(a.pos),
                    f"the expression of a replacement field is `{a.items[1].item if len(a.items) > 1 else None}`, which does not admit "
                    f"{sorted(need - got)}: CPython accepts `f'{{yield x}}'` and `f'{{*a, b}}'`")


def run(chk: Check):
    chk.explanation = (
        "The f-string scanner is a hand-written mode machine; this check decides its tables and pairing, not agreement with "
        "CPython over all f-strings: (F1) which delimiters the scan pattern of each mode can see; (F2) by automata intersection, "
        "that the brace search of the literal part cannot run past an unescaped closing quote and does not stop at a doubled "
        "brace; (F3) that every `{` / `:` / `}` / closing quote pushes and pops exactly the modes and bracket depth it should; (F4) "
        "the conversion check accepts exactly s r a (finite-domain evaluation), the conversion value expression, and that a format "
        "spec is a JoinedStr. Deviations present today are listed known findings.")
    chk.explanation += ' (F5) literal text is escape-decoded and named escapes do not open a field, (F6) a debug field contributes its source text, (F7) every operator lexeme that begins with a colon enters the format-spec branch; plus the accumulation rules (C08 L1/L2) and location rules f-string tokens and trees share with other strings.'
    chk.trusted = ["xpverif.constfold", "xpverif.rx", "xpverif.absint (rule result types)"]
    chk.assumptions = ["C01/C04 rules cover the f-string grammar actions like all others"]
    ix = Index()
    F = constfold.fold_tokenize()
    rule_f1(chk, ix, F)
    rule_f2(chk, F, chk.tier == "thorough")
    rule_f10(chk, ix)
    from .inventory import rule_scanner_refusals
    rule_scanner_refusals(chk, ix, "F11-scanner-refusals")
    rule_f5b(chk, ix)
    rule_f2_order(chk, ix, F)
    rule_f3(chk, ix)
    rule_f4(chk, repo.ir_x(), typed.run())
    rule_f5(chk, repo.ir_x(), ix, F)
    rule_f8(chk, ix, repo.ir_x())
    rule_f9(chk, repo.ir_x())
    from .c01 import rule_kind_guard
    rule_kind_guard(chk)
    from .c12 import rule_z2_z3
    from .c13 import rule_u2, rule_u3
    rule_z2_z3(chk, ix)   # literal text of multi-line f-strings keeps the line ends it is read with
    rule_u2(chk)          # the mode stack belongs to one tokenizer run
    rule_u3(chk, ix)
    # f-string tokens are accumulated text (C08 L1/L2) and their trees carry spans (location rules of C01/C04): necessary here too
    from .c08 import rule_l1, rule_l2
    rule_l1(chk, ix)
    rule_l2(chk, ix)
    typed.run().feed(chk, {"A5-loc-key": "A5-loc-key", "A5-loc-pair": "A5-loc-pair", "A5-loc-order": "A5-loc-order", "S4-location": "S4-location",
                           "S1-joinedstr-bytes": "S1-joinedstr-bytes", "S1-field-kind": "S1-field-kind"})
    chk.floor("F1-mode-pattern", 3)
    chk.floor("F2-scan-pattern", 5)
    chk.floor("F3-push-pop", 5)
    chk.floor("F4-grammar-side", 4)
    chk.floor("F5-text-decoding", 3)
    chk.floor("F6-debug-text", 1)
    chk.floor("F7-colon-lexemes", 2)
    chk.floor("F8-top-of-stack", 8)
