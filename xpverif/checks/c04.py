"""C04 — every returned tree is well-formed (DESIGN §4 C04, S1–S6)."""
from __future__ import annotations

import ast

from .. import actions, irtools, repo, typed
from ..common import AnalysisError, Check, norm_stmt, parse_py
from ..absval import Node, members
from ..ir import Cut, Look


def rule_s5(chk: Check, ir):
    """start <= end: an alternative that asks for LOCATIONS consumes at least one token, so the last
    non-whitespace token lies at or after the peeked start token."""
    allrules = dict(ir.rules)
    nullable = irtools.compute_nullable(allrules)
    item_n = irtools.make_item_nullable(nullable)
    for rule, key, a in actions.all_alts(ir.rules):
        if not a.uses_locations:
            continue
        chk.count("S5-span-nonempty")
        consuming = [ni for ni in a.items if not isinstance(ni.item, (Look, Cut)) and not item_n(ni.item)]
        chk.require(bool(consuming), "S5-span-nonempty", key, str(a.pos),
                    f"`{a}` can succeed without consuming a token, yet its action asks for a span: the end would be taken "
                    f"from a token *before* the start token (end < start)")


def rule_adjusted_location(chk: Check, ir, rule_id: str = "S5-adjusted-location"):
    # hand-adjusted locations: `locs["col_offset"] += n` skips n characters at the start of the span.  That is right only
    # where the span starts with a token of exactly that width which is *not* part of the value being located.
    sub = parse_py(repo.SUBHEADER)
    # a location mapping may be adjusted only by the function that owns it (its own **kwargs are a fresh dict per call); a helper
    # that writes into a mapping it was *passed* changes the caller's mapping as well, and every node the caller locates with it
    for fn in ast.walk(sub):
        if not isinstance(fn, ast.FunctionDef):
            continue
        plain = {a.arg for a in fn.args.posonlyargs + fn.args.args + fn.args.kwonlyargs} - {"self", "cls"}
        for st in ast.walk(fn):
            tg = st.targets if isinstance(st, ast.Assign) else ([st.target] if isinstance(st, ast.AugAssign) else [])
            for t in tg:
                if isinstance(t, ast.Subscript) and isinstance(t.value, ast.Name) and t.value.id in plain and \
                        isinstance(t.slice, ast.Constant) and t.slice.value in ("lineno", "col_offset", "end_lineno", "end_col_offset"):
                    chk.count(rule_id)
                    chk.fail(rule_id, f"{fn.name}:{norm_stmt(st)}:shared-mapping", f"{repo.SUBHEADER}:{st.lineno}",
                             f"`{norm_stmt(st)}` writes into the location mapping `{t.value.id}` that `{fn.name}` received as an ordinary "
                             f"argument: the caller's own `**{t.value.id}` is the same object, so the node the caller builds is shifted too "
                             f"(`pre@(x)` is no longer adjacent to its prefix)")
    for fn in ast.walk(sub):
        if not isinstance(fn, ast.FunctionDef):
            continue
        for st in ast.walk(fn):
            if not (isinstance(st, ast.AugAssign) and isinstance(st.target, ast.Subscript)
                    and isinstance(st.target.slice, ast.Constant)
                    and st.target.slice.value in ("lineno", "col_offset", "end_lineno", "end_col_offset")):
                continue
            shift = st.value.value if isinstance(st.value, ast.Constant) and isinstance(st.op, ast.Add) else None
            callers = [(r, k, a) for r, k, a in actions.all_alts(ir.rules) if a.action is not None and any(
                isinstance(n, ast.Call) and isinstance(n.func, ast.Attribute) and n.func.attr == fn.name
                for n in ast.walk(a.action))]
            if not callers:
                chk.count(rule_id)
                chk.ok(rule_id, f"{fn.name}:{norm_stmt(st)}:uncalled", f"{repo.SUBHEADER}:{st.lineno}")
            for r, k, a in callers:
                chk.count(rule_id)
                key = f"{k}->{fn.name}:{norm_stmt(st)}"
                call = next(n for n in ast.walk(a.action) if isinstance(n, ast.Call) and isinstance(n.func, ast.Attribute)
                            and n.func.attr == fn.name)
                passed = {n.id for arg in call.args for n in ast.walk(arg) if isinstance(n, ast.Name)}
                first = next((ni for ni in a.items if not isinstance(ni.item, (Look, Cut))), None)
                width = _last_width(ir, first.item) if first is not None else None
                ok = (shift is not None and st.target.slice.value == "col_offset" and first is not None
                      and (first.name is None or first.name not in passed) and width == shift)
                chk.require(ok, rule_id, key, str(a.pos),
                            f"`{fn.name}` shifts `{st.target.slice.value}` by {shift}; in `{a}` the span starts with "
                            f"`{first}` (width {width}{', which is itself part of the located value' if first is not None and first.name in passed else ''}), "
                            f"so the reported start is off and adjacency with the preceding token is lost")


def _last_width(ir, it):
    """Width of the single token an item consumes, if it consumes exactly one fixed-width literal."""
    from ..ir import Lit, Ref
    if isinstance(it, Lit):
        return len(it.value)
    if isinstance(it, Ref) and it.name in ir.rules:
        ws = set()
        for a in ir.rules[it.name].alts:
            cons = [ni.item for ni in a.items if not isinstance(ni.item, (Look, Cut))]
            ws.add(_last_width(ir, cons[0]) if len(cons) == 1 else None)
        return ws.pop() if len(ws) == 1 else None
    return None


def rule_s6(chk: Check):
    """The module-level Load/Store/Del singletons are never the target of an attribute store."""
    for rel in (repo.SUBHEADER, repo.PARSER_X, repo.TOKENIZER):
        mod = parse_py(rel)
        for n in ast.walk(mod):
            targets = []
            if isinstance(n, ast.Assign):
                targets = n.targets
            elif isinstance(n, (ast.AugAssign, ast.AnnAssign)):
                targets = [n.target]
            elif isinstance(n, ast.Delete):
                targets = n.targets
            for t in targets:
                for sub in ast.walk(t):
                    if isinstance(sub, ast.Attribute) and isinstance(sub.value, ast.Name) and sub.value.id in ("Load", "Store", "Del"):
                        chk.fail("S6-singleton-write", f"{rel}:{norm_stmt(n)}", f"{rel}:{n.lineno}",
                                 "attribute store on a shared context singleton (would alter every tree ever returned)")
    chk.count("S6-singleton-write")
    chk.ok("S6-singleton-write", "no-direct-store", repo.SUBHEADER)
    # embedded positive example: the matcher must recognise the pattern it forbids
    probe = ast.parse("Load.x = 1")
    hit = any(isinstance(s, ast.Attribute) and isinstance(s.value, ast.Name) and s.value.id == "Load"
              for n in ast.walk(probe) if isinstance(n, ast.Assign) for t in n.targets for s in ast.walk(t))
    if not hit:
        raise AnalysisError("S6 self-probe failed")


def rule_s3_recursion(chk: Check, ix):
    """`set_expr_context` may pass a context on only to what *inherits* it: the elements of a Tuple/List and the value of a
    Starred.  The object of an Attribute and the container/index of a Subscript are reads whatever the context of the whole."""
    from .. import asdl
    f = ix.get("Parser.set_expr_context")
    chk.count("S3-ctx")
    bad = []
    for n in ast.walk(f.node):
        # recursive calls / ctx stores that reach into a child
        exprs = []
        if isinstance(n, ast.Call) and isinstance(n.func, ast.Attribute) and n.func.attr == "set_expr_context" and n.args:
            exprs.append(n.args[0])
        if isinstance(n, ast.Assign):
            for t in n.targets:
                if isinstance(t, ast.Attribute) and t.attr == "ctx" and isinstance(t.value, ast.Attribute):
                    exprs.append(t.value)
        for e in exprs:
            if not isinstance(e, ast.Attribute):
                continue
            field = e.attr
            # classes under whose isinstance guard the access sits
            guards = [g for g in ast.walk(f.node) if isinstance(g, ast.If) and any(e is x for b in g.body for x in ast.walk(b))]
            classes = set()
            for g in guards:
                for c in ast.walk(g.test):
                    if isinstance(c, ast.Attribute) and norm_stmt(c.value) == "ast":
                        classes.add(c.attr)
            for cls in classes or {"?"}:
                if field not in asdl.CTX_CHILDREN.get(cls, ()):
                    bad.append(f"{cls}.{field}")
    chk.require(not bad, "S3-ctx", "Parser.set_expr_context:recursion", f.where,
                f"the context is also pushed into {sorted(set(bad))}: those children are evaluated (Load) whatever the context of the whole "
                f"— `(a.b) = 1` would store into `a`, and compile() refuses the tree (expression must have Load context)")


def rule_s6_memo(chk: Check, ir, tr):
    """In-place context rewriting (`set_expr_context`) of the result of a *memoised* rule changes the cached node: every later
    cache hit — also from an alternative that wanted the node as a value — sees the rewritten context.  Harmless only when the
    rule's own results already carry that context (rewriting is then a no-op)."""
    from ..ir import Ref
    n = 0
    for r, key, a in actions.all_alts(ir.rules):
        if a.action is None:
            continue
        for c in ast.walk(a.action):
            if not (isinstance(c, ast.Call) and isinstance(c.func, ast.Attribute) and c.func.attr == "set_expr_context" and len(c.args) == 2
                    and isinstance(c.args[0], ast.Name)):
                continue
            cap = c.args[0].id
            want = norm_stmt(c.args[1])
            items = [ni for ni in a.items if ni.name == cap and isinstance(ni.item, Ref) and ni.item.name in ir.rules]
            if not items:
                continue
            ref = ir.rules[items[0].item.name]
            n += 1
            chk.count("S6-memo-mutation")
            if ref.decorator not in ("memoize", "memoize_left_rec"):
                chk.ok("S6-memo-mutation", f"{key}:{cap}", str(a.pos), "not memoised: the node is fresh")
                continue
            t = tr.interp.rule_types.get(ref.name)
            ctxs = {m.ctx for m in members(t) if isinstance(m, Node) and m.ctx} if t is not None else {"?"}
            chk.require(ctxs <= {want}, "S6-memo-mutation", f"{key}:{cap}", str(a.pos),
                        f"`{norm_stmt(c)}` rewrites in place the node cached for the memoised rule `{ref.name}`, whose results are built "
                        f"with context {sorted(ctxs)}: after an abandoned target attempt the same node comes back from the cache in a "
                        f"value position with ctx={want} (compile(): expression must have Load context)")
    chk.units["set_expr_context_on_rule_results"] = n


def rule_s8(chk: Check, ix, rule_id: str = "S8-complex-parts"):
    """The two sides of a complex literal in a match pattern (`case -1.5 + 2j:`): the left one must be a real number, the right
    one an imaginary one — compile() refuses anything else ("patterns may only match literals and attribute lookups").  Decided
    by evaluating the two guards over number values, zero-valued imaginary literals included."""
    from .. import constfold

    class Fake:
        def __init__(self, v):
            self.v = v

        def literal_value(self, tok):
            return self.v

        def raise_syntax_error_known_location(self, *a, **k):
            raise constfold.Raised("syntax error")

        raise_syntax_error = raise_raw_syntax_error = raise_syntax_error_known_range = raise_syntax_error_known_location
    ev = constfold.builder_expr_eval(("literal_value", "raise_syntax_error_known_location", "raise_syntax_error", "raise_raw_syntax_error",
                                      "raise_syntax_error_known_range"))
    SAMPLES = [0, 1, 7, 0.0, 1.5, 1e3, 0j, 0.0j, 1j, 2.5j]
    for q, want_ok in (("Parser.ensure_real", lambda v: not isinstance(v, complex)), ("Parser.ensure_imaginary", lambda v: isinstance(v, complex))):
        f = ix.get(q)
        params = [a.arg for a in f.node.args.args]
        bad = []
        chk.count(rule_id)
        try:
            for v in SAMPLES:
                try:
                    got = constfold.eval_pure_function(f.node, {params[0]: Fake(v), params[1]: object()}, expr_eval=ev)
                    accepted = True
                    if got is not v and got != v:
                        bad.append((v, f"returns {got!r}"))
                except constfold.Raised:
                    accepted = False
                if accepted != want_ok(v):
                    bad.append((repr(v), "accepted" if accepted else "refused"))
        except constfold.PureEvalError as e:
            chk.undecided(rule_id, q, f.where, f"outside the evaluable subset: {e}")
            continue
        chk.require(not bad, rule_id, q, f.where,
                    f"`{q.split('.')[1]}` must accept exactly the {'real' if 'real' in q else 'imaginary'} numbers; differs on {bad[:4]} "
                    f"(a complex literal part of the wrong kind — `0j + 1j` — builds a BinOp pattern that compile() rejects with ValueError)")


def run(chk: Check):
    chk.explanation = (
        "Every ast.X(...) construction reachable from a grammar action (in the generated parser and, through call-site "
        "sensitive inlining, in the helper functions of subheader.py) is checked against the ASDL signature of the running "
        "interpreter: list fields always receive lists, required fields never None, node-valued fields receive nodes of the "
        "right sort, nodes are complete when they enter a tree, expression contexts follow the Store/Del/Load typestate "
        "including containers and context rewriting, every located class gets a complete location, spans cannot be empty, "
        "and the shared context singletons are never written. A value the interpreter cannot type makes the obligation "
        "undecided, never discharged.")
    chk.trusted = ["ast.X.__doc__ ASDL signatures of the running interpreter", "xpverif.absint", "xpverif.pyir",
                   "asdl.BINDING_FIELDS (which fields bind / delete)"]
    chk.assumptions = ["compile()'s semantic rejections (e.g. `return` outside a function) are out of scope of the static clause",
                       "nodes read back from Load positions of already-built nodes are Load (checked where they were stored)"]
    ir = repo.ir_x()
    tr = typed.run()
    chk.units.update({"rules": len(ir.rules), "constructor_sites": len(tr.interp.ctor_sites),
                      "unsupported_constructs": dict(tr.interp.unsupported),
                      "summarised_calls": dict(tr.interp.summary_uses)})
    tr.feed(chk, {"S1-list-field": "S1-list-field", "S1-field-kind": "S1-field-kind", "S1-starred-position": "S1-starred-position", "S2-required": "S2-required",
                  "S3-ctx": "S3-ctx", "S4-location": "S4-location", "S6-singleton-write": "S6-singleton-write",
                  "A5-loc-key": "A5-loc-key", "A5-loc-pair": "A5-loc-pair", "A5-loc-order": "A5-loc-order", "S1-joinedstr-bytes": "S1-joinedstr-bytes"})
    rule_s5(chk, ir)
    rule_s6(chk)
    rule_s6_memo(chk, ir, tr)
    from ..pyflow import Index
    rule_adjusted_location(chk, repo.ir_x())   # hand-adjusted spans must skip exactly the token they skip
    rule_s3_recursion(chk, Index())
    rule_s8(chk, Index())
    from .c02 import rule_x7
    rule_x7(chk)  # what CPython's grammar refuses before compile() (e.g. `**_` in a mapping pattern) must be refused here too
    from .. import macros
    from .c07 import rule_m1
    rule_m1(chk, Index())          # spans of the synthetic raw-capture tokens end up as node spans
    macros.rule_m5(chk, Index())
    from .c10 import rule_f4
    rule_f4(chk, ir, tr)   # FormattedValue.conversion must be one of -1, 115, 114, 97 (compile() refuses anything else)
    from .c01 import rule_result_span
    rule_result_span(chk, ir)
    chk.floor("S1-list-field", 100)
    chk.floor("S1-field-kind", 250)
    chk.floor("S2-required", 250)
    chk.floor("S3-ctx", 150)
    chk.floor("S4-location", 180)
    chk.floor("S5-span-nonempty", 150)
    from .c12 import rule_source_verbatim
    from ..pyflow import Index as _Ix
    rule_source_verbatim(chk, _Ix())   # spans and error text refer to the caller's text
