"""Deciding the token buffer's routines by evaluation.

`Tokenizer.peek` and `Tokenizer.consume_macro_params` are short loops over a raw token stream; their behaviour is what the
properties need (C07: a macro argument is the verbatim text between top-level delimiters; C01/C11/C12: the parser sees exactly the
non-blank tokens, and in string mode every physical line is remembered), not the shape of their loops.  Both are evaluated *from
source* — together with the Tokenizer methods they call — on every raw-token stream up to a length bound over a small alphabet of
token kinds, against a reference written from the property.  Path rules that are anchored at the loop shape use this as the
arbiter when the shape does not match (a `return` from inside the loop instead of `break` + tail, a table turned inside out, the
fetch moved into a helper)."""
from __future__ import annotations

import ast
import functools
import itertools
from typing import Optional

from .. import repo
from ..common import AnalysisError, parse_py
from .c17 import Crash, EvalError, Marker, Raised, SourceSelf, _mini_eval

KINDS = ("NAME", "OP", "WS", "NL", "NEWLINE", "COMMENT", "STRING", "ERRORTOKEN", "ENDMARKER", "MACRO_PARAM", "INDENT", "DEDENT", "NUMBER",
         "FSTRING_START", "FSTRING_MIDDLE", "FSTRING_END", "SEARCH_PATH")


class Tok(tuple):
    """Stand-in for tokenize.TokenInfo (a NamedTuple with a few pure helpers)."""
    __slots__ = ()
    _fields = ("type", "string", "start", "end", "line")

    def __new__(cls, type, string, start, end, line):
        return tuple.__new__(cls, (type, string, start, end, line))

    type = property(lambda s: s[0])
    string = property(lambda s: s[1])
    start = property(lambda s: s[2])
    end = property(lambda s: s[3])
    line = property(lambda s: s[4])

    def is_exact_type(self, typ):
        return self[0] == ("Token", "OP") and self[1] == typ

    def _replace(self, **kw):
        d = dict(zip(self._fields, self))
        d.update(kw)
        return Tok(**d)

    def __repr__(self):
        return f"<{self[0][1]}>({self[1]!r})@{self[2]}"


class _TokenEnum:
    def __init__(self):
        for k in KINDS:
            setattr(self, k, ("Token", k))


def _exc(name):
    def make(*a, **k):
        return ("exc", name, a)
    return make


def tokenizer_methods() -> dict:
    mod = parse_py(repo.TOKENIZER)
    cls = repo.find_class(mod, "Tokenizer")
    return {m.name: m for m in cls.body if isinstance(m, ast.FunctionDef)}


def tokenizer_class_constants() -> dict:
    """Class-level names of Tokenizer bound to a literal (a constant table every instance reads)."""
    cls = repo.find_class(parse_py(repo.TOKENIZER), "Tokenizer")
    out = {}
    for st in cls.body:
        tgt = st.targets[0] if isinstance(st, ast.Assign) and len(st.targets) == 1 else getattr(st, "target", None)
        if isinstance(tgt, ast.Name) and getattr(st, "value", None) is not None:
            try:
                out[tgt.id] = ast.literal_eval(st.value)
            except Exception:
                pass
    return out


def module_funcs() -> dict:
    mod = parse_py(repo.TOKENIZER)
    return {m.name: m for m in mod.body if isinstance(m, ast.FunctionDef)}


def make_stream(spec: tuple) -> list:
    """spec: tuple of (kind, text) — laid out on one line (NL / NEWLINE start a new one)."""
    toks, lnum, col = [], 1, 0
    line_text = {}
    cur = ""
    rows = []
    for kind, text in spec:
        rows.append((kind, text, lnum, col))
        cur += text
        col += len(text)
        if kind in ("NL", "NEWLINE"):
            line_text[lnum] = cur
            lnum, col, cur = lnum + 1, 0, ""
    line_text[lnum] = cur
    for kind, text, ln, c in rows:
        toks.append(Tok(("Token", kind), text, (ln, c), (ln, c + len(text)), line_text[ln]))
    return toks


def new_tokenizer(stream: list, path: str = "", **flags):
    methods = tokenizer_methods()
    mods = module_funcs()
    prims = {}
    me = SourceSelf(methods, prims, max_steps=6000)
    me.__dict__["_consts"] = tokenizer_class_constants()
    init = methods.get("__init__")
    if init is None:
        raise AnalysisError("Tokenizer.__init__ vanished")
    env_extra = base_env()
    me.__dict__["_env_extra"] = env_extra
    # run __init__ from source (verbose off)
    params = [a.arg for a in init.args.args]
    env = {"self": me, params[1]: iter(stream)}
    for kw, d in zip([a.arg for a in init.args.kwonlyargs], init.args.kw_defaults):
        env[kw] = ast.literal_eval(d) if d is not None else None
    env["path"] = path
    env.update(env_extra)
    _mini_eval(init, env, set(methods) | set(mods), max_steps=400, local_calls=True)
    for k, v in flags.items():
        setattr(me, k, v)
    return me


@functools.lru_cache(None)
def _module_consts() -> dict:
    from .c17 import module_pure_constants
    out = dict(module_pure_constants(repo.TOKENIZER, extra={"Token": _TokenEnum()}, data_attrs=KINDS))
    # frozenset / set displays of Token members and the like are built by the functions themselves
    return out


def base_env() -> dict:
    env = dict(_module_consts())
    env.update({"Token": _TokenEnum(), "TokenInfo": Tok, "Mark": (lambda x: x), "TokenError": _exc("TokenError"),
                "SyntaxError": _exc("SyntaxError"), "IndentationError": _exc("IndentationError"), "next": next, "iter": iter,
                "StopIteration": StopIteration, "textwrap": None})
    return env


# ------------------------------------------------------------------------------------------------ reference: call-macro capture
def ref_consume_macro_params(stream: list, stack: list) -> tuple:
    """What the capture must do, from the property: read raw tokens up to the first `,` or `)` at bracket depth 0; the argument is
    the concatenation of their texts, spanning first start .. last end, on the first token's line; `)` is pushed back and ends
    raw mode; a closer that does not match the innermost opener is a SyntaxError; running off the stream a TokenError; nothing
    captured and a pushed-back token pending -> that token; blank text -> WS."""
    it = iter(stream)
    depth: list = []
    texts, start, end, line = [], None, None, ""
    call_macro = True
    closers = {")": "(", "]": "[", "}": "{"}
    while True:
        try:
            tok = next(it)
        except StopIteration:
            return ("raise", "TokenError"), call_macro, list(stack), 0
        is_op = tok.type == ("Token", "OP")
        if is_op and tok.string and tok.string[-1] in "([{":
            depth.append(tok.string[-1])
        if depth:
            if is_op and tok.string in closers:
                if depth[-1] == closers[tok.string]:
                    depth.pop()
                else:
                    return ("raise", "SyntaxError"), call_macro, list(stack), 0
        else:
            if is_op and tok.string == ")":
                stack = stack + [tok]
                call_macro = False
                break
            if is_op and tok.string == ",":
                break
        end = tok.end
        if start is None:
            start, line = tok.start, tok.line
        texts.append(tok.string)
    consumed = sum(1 for _ in it)
    string = "".join(texts)
    if not string and stack:
        st = list(stack)
        top = st.pop()
        return ("token", tuple(top)), call_macro, st, consumed
    if start is None:
        return ("raise", "AssertionError"), call_macro, list(stack), consumed
    kind = "WS" if not string.strip() else "MACRO_PARAM"
    return ("token", (("Token", kind), string, start, end, line)), call_macro, list(stack), consumed


# (a delimiter's *text* inside a token of another kind — the literal part of an f-string — is not a delimiter)
ALPHABET = (("NAME", "a"), ("OP", ","), ("OP", ")"), ("OP", "("), ("OP", "["), ("OP", "]"), ("WS", " "), ("NL", "\n"), ("OP", "$("),
            ("FSTRING_MIDDLE", ","), ("FSTRING_MIDDLE", ")"), ("FSTRING_MIDDLE", "("))


@functools.lru_cache(None)
def eval_call_macro_capture(max_len: int = 4) -> tuple[str, list]:
    """(why undecided, counter-examples) for Tokenizer.consume_macro_params against the reference."""
    methods = tokenizer_methods()
    if "consume_macro_params" not in methods:
        return "Tokenizer.consume_macro_params vanished", []
    bad: list = []
    for n in range(0, max_len + 1):
        for spec in itertools.product(ALPHABET, repeat=n):
            stream = make_stream(spec)
            want, want_flag, want_stack, want_left = ref_consume_macro_params(stream, [])
            try:
                me = new_tokenizer(stream, _call_macro=True)
                env_calls = None
                try:
                    got_tok = me.consume_macro_params()
                    got = ("token", tuple(got_tok)) if isinstance(got_tok, tuple) else ("value", repr(got_tok))
                except Raised as r:
                    got = ("raise", r.cls)
                left = sum(1 for _ in me._tokengen)
                same = got == want and (got[0] == "raise" or (me._call_macro == want_flag and [tuple(x) for x in me._stack] == [tuple(x) for x in want_stack]
                                                              and left == want_left))
                if want == ("raise", "AssertionError"):
                    same = True     # the empty-first-argument assertion is a listed known finding (D3), whatever happens there
                if not same:
                    bad.append((" ".join(t for _, t in spec).replace("\n", "\\n"), got if got[0] != "token" else (got[1][0][1], got[1][1], got[1][2], got[1][3]),
                                want if want[0] != "token" else (want[1][0][1], want[1][1], want[1][2], want[1][3]), me._call_macro, left))
                    if len(bad) >= 3:
                        return "", bad
            except Crash as e:
                bad.append((" ".join(t for _, t in spec), f"raises {e}", want[0]))
                if len(bad) >= 3:
                    return "", bad
            except EvalError as e:
                return str(e), []
    return "", bad


# ------------------------------------------------------------------------------------------------ reference: peek
PEEK_ALPHABET = (("NAME", "a"), ("OP", "+"), ("WS", " "), ("NL", "\n"), ("COMMENT", "# c"), ("NEWLINE", "\n"), ("ERRORTOKEN", " "),
                 ("ERRORTOKEN", "$"), ("STRING", "'''x\ny'''"))


def _is_blank_ref(tok, prev, proc_macro=False):
    k = tok.type[1]
    if proc_macro and k == "WS":
        return False
    if k in ("NL", "COMMENT", "WS"):
        return True
    if k == "ERRORTOKEN" and tok.string.isspace():
        return True
    if k == "NEWLINE" and prev is not None and prev.type[1] == "NEWLINE":
        return True
    return False


@functools.lru_cache(None)
def eval_peek(max_len: int = 4) -> tuple[str, list]:
    """peek / getnext over raw streams with no capture mode on: the parser sees exactly the non-blank tokens, in order; a second
    peek fetches nothing; in string mode every physical line of every raw token fetched so far is remembered (first text wins),
    in file mode none."""
    methods = tokenizer_methods()
    if "peek" not in methods or "getnext" not in methods:
        return "Tokenizer.peek / getnext vanished", []
    bad: list = []
    for n in range(0, max_len + 1):
        for spec in itertools.product(PEEK_ALPHABET, repeat=n):
            toks = make_stream_multiline(spec)
            for path, pushed in (("", False), ("f.py", False), ("", True)):
                try:
                    me = new_tokenizer(list(toks), path=path)
                    extra = []
                    if pushed:
                        # a token handed back to the buffer (the `)` a call-macro capture pushes back, a token re-queued by a
                        # capture routine) is a token like any other: the parser sees it first, and its line is remembered
                        extra = [Tok(("Token", "NAME"), "z", (9, 0), (9, 1), "z\n")]
                        me._stack = list(extra)
                    seen, fetched_before = [], None
                    ok = True
                    why = ""
                    while True:
                        try:
                            t1 = me.peek()
                        except Raised as r:
                            if r.cls != "TokenError":
                                ok, why = False, f"raises {r.cls}"
                            break
                        consumed_after_first = len(toks) - sum(1 for _ in ())  # placeholder (stream length is checked at the end)
                        t2 = me.peek()
                        if tuple(t1) != tuple(t2):
                            ok, why = False, "two peeks in a row differ"
                            break
                        t3 = me.getnext()
                        if tuple(t3) != tuple(t1):
                            ok, why = False, "getnext returns another token than peek"
                            break
                        seen.append(tuple(t3))
                        if len(seen) > n + 1:
                            ok, why = False, "more tokens than the stream holds"
                            break
                    want, prev = [], None
                    for t in extra + list(toks):
                        if not _is_blank_ref(t, prev):
                            want.append(tuple(t))
                            prev = t
                    if ok and seen != want:
                        ok, why = False, f"parser sees {[(s[0][1], s[1]) for s in seen]}, expected {[(s[0][1], s[1]) for s in want]}"
                    if ok:
                        lines_want = {}
                        if not path:
                            for t in extra + list(toks):
                                parts = t.line.split("\n")
                                ls = [x + "\n" for x in parts[:-1]] + ([parts[-1]] if parts[-1] else [])
                                if len(ls) != t.end[0] - t.start[0] + 1:
                                    ls = ls[:1]
                                for i, text in enumerate(ls):
                                    lines_want.setdefault(t.start[0] + i, text)
                        if dict(me._lines) != lines_want:
                            ok, why = False, f"remembered lines {dict(me._lines)}, expected {lines_want}"
                    if not ok:
                        bad.append((" ".join(t for _, t in spec).replace("\n", "\\n"), "file" if path else "string", why))
                        if len(bad) >= 3:
                            return "", bad
                except Crash as e:
                    bad.append((" ".join(t for _, t in spec).replace("\n", "\\n"), "file" if path else "string", f"raises {e}"))
                    if len(bad) >= 3:
                        return "", bad
                except EvalError as e:
                    return str(e), []
    return "", bad


def make_stream_multiline(spec: tuple) -> list:
    """Like make_stream, but a token whose text contains a newline spans lines and carries all of them in `line`."""
    # first pass: physical lines
    text = "".join(t for _, t in spec)
    phys = text.split("\n")
    phys = [p + "\n" for p in phys[:-1]] + [phys[-1]]
    toks, lnum, col = [], 1, 0
    for kind, t in spec:
        start = (lnum, col)
        nl = t.count("\n")
        if nl:
            end_l = lnum + nl
            end_c = len(t) - (t.rfind("\n") + 1)
            if kind in ("NL", "NEWLINE"):
                end = (lnum, col + len(t))
            else:
                end = (end_l, end_c)
            lnum, col = end_l, end_c
        else:
            end = (lnum, col + len(t))
            col += len(t)
        last = end[0]
        line = "".join(phys[start[0] - 1:last])
        toks.append(Tok(("Token", kind), t, start, end, line))
    return toks


def arbitrate(chk, shape_ok: bool, rule: str, key: str, where: str, detail: str, which: str = "capture") -> bool:
    """`chk.require(shape_ok, ...)`, except that a shape the rule does not recognise is decided by evaluating the routine against its
    reference (all raw streams up to length 3): agreement discharges the obligation, a difference is reported with the stream."""
    if shape_ok:
        chk.ok(rule, key, where)
        return True
    und, bad = eval_call_macro_capture(3) if which == "capture" else eval_peek(3)
    if und:
        chk.fail(rule, key, where, detail + f" [not decidable by evaluation either: {und}]")
        return False
    if bad:
        chk.fail(rule, key, where, detail + f" — evaluated from source on all raw token streams of length <= 3 it differs from the reference on "
                                            f"(stream, here, expected, ...) {bad[:2]}")
        return False
    chk.ok(rule, key, where, "shape not recognised; behaviour equals the reference on all raw token streams of length <= 3")
    return True


def rule_buffer_evaluation(chk, which: str, rule_id: str):
    """Unconditional run of the evaluation (small bound in the quick tier, the larger one in the thorough tier)."""
    thorough = getattr(chk, "tier", "quick") == "thorough"
    if which == "capture":
        bound = 4 if thorough else 2
        und, bad = eval_call_macro_capture(bound)
        key, where = "consume_macro_params:evaluation", repo.TOKENIZER
        what = "the call-macro capture differs from its reference (argument = verbatim text between top-level delimiters)"
    else:
        bound = 3 if thorough else 2
        und, bad = eval_peek(bound)
        key, where = "Tokenizer.peek:evaluation", repo.TOKENIZER
        what = "peek/getnext differ from their reference (the parser sees exactly the non-blank tokens; string mode remembers every line)"
    chk.count(rule_id)
    chk.units[f"{which}_evaluation_bound"] = bound
    if und:
        chk.undecided(rule_id, key, where, f"not evaluable: {und}")
    else:
        chk.require(not bad, rule_id, key, where, f"{what} on raw token streams of length <= {bound}: {bad[:2]}")
