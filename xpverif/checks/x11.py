"""X11 — the value (and the validity) of a NUMBER/STRING token is what `ast.literal_eval` says about its text.

Either every return of `Parser.literal_value` is that call, or the function — evaluated from source — agrees with it on a table of
literal spellings that includes the ones CPython refuses (non-ASCII bytes, bad escapes, lone surrogates, over-long integers)."""
from __future__ import annotations

import ast
import types
import warnings

from .. import repo
from ..common import AnalysisError, Check, norm_stmt, parse_py

LITERAL_SAMPLES = [
    "'a'", '"a b"', "b'a'", "b'é'", 'b"naïve"', "'é'", "'\\x'", "'\\n'", "r'a\\n'", "u'a'", "rb'\\d'", "Rb'x'",
    "'''a\nb'''", "b'''aé'''", "'\\ud800'", "1_0", "0x1f", "0o17", "0b101", "1e5", "1.5", "1j", "1_000.5", "'it\\'s'",
    "''", '""', "b''", "9" * 5000, "'caf" + chr(0xDC80) + "'", "b'x" + chr(0xDC80) + "'", "0XFF", "0O17", "0B101", "1E5", "1J", "0xDEAD_beef", "1_0.0_1e1_0", "00", "0_0", ".5", "5.", "1e-3", "0_", "1__0", "'\\N{BULLET}'", "'\\N{NO SUCH NAME}'", "b'\\xff'", "'\\400'",
]


def rule_x11(chk: Check, rule_id: str = "X11-literal-evaluation"):
    from .c17 import Crash, EvalError, Marker, SourceSelf, _mini_eval, module_pure_constants
    sub = parse_py(repo.SUBHEADER)
    parser = repo.find_class(sub, "Parser")
    fn = repo.maybe_func(parser, "literal_value")
    chk.count(rule_id)
    if fn is None:
        raise AnalysisError("Parser.literal_value vanished")
    where = f"{repo.SUBHEADER}:{fn.lineno}"
    param = [a.arg for a in fn.args.args][1]
    rets = [n.value for n in ast.walk(fn) if isinstance(n, ast.Return) and n.value is not None]
    direct = f"ast.literal_eval({param}.string)"
    # (even when every return is that call, the function is evaluated: what it does with the errors of the evaluation — a lone
    # surrogate raises a ValueError without `.msg` — is part of its behaviour)
    consts = module_pure_constants(repo.SUBHEADER)
    bad, und = [], ""
    for text in LITERAL_SAMPLES:
        with warnings.catch_warnings():
            warnings.simplefilter("ignore")
            try:
                want = ("value", ast.literal_eval(text))
            except (SyntaxError, ValueError):      # ValueError covers UnicodeEncodeError (a lone surrogate in the text)
                want = ("error", None)
        kind = "NUMBER" if text[0].isdigit() else "STRING"

        def boom(*a, **k):
            raise Marker("syntax error")
        methods = {m.name: m for m in parser.body if isinstance(m, ast.FunctionDef)}
        me = SourceSelf(methods, {"raise_syntax_error_known_location": boom, "raise_syntax_error": boom, "raise_raw_syntax_error": boom,
                                  "raise_syntax_error_known_range": boom})
        class_consts = {}
        for st in parser.body:
            tgt = st.targets[0] if isinstance(st, ast.Assign) and len(st.targets) == 1 else getattr(st, "target", None)
            if isinstance(tgt, ast.Name) and getattr(st, "value", None) is not None:
                try:
                    class_consts[tgt.id] = ast.literal_eval(st.value)
                except Exception:
                    pass
        me.__dict__["_consts"] = class_consts
        tok = types.SimpleNamespace(string=text, type=("Token", kind), start=(1, 0), end=(1, len(text)))
        env = dict(consts)
        env.update({"self": me, param: tok, "ast": types.SimpleNamespace(literal_eval=ast.literal_eval),
                    "Token": types.SimpleNamespace(STRING=("Token", "STRING"), NUMBER=("Token", "NUMBER"))})
        try:
            with warnings.catch_warnings():
                warnings.simplefilter("ignore")
                got = ("value", _mini_eval(fn, env, {"literal_eval", "raise_syntax_error_known_location", "raise_syntax_error",
                                                     "raise_raw_syntax_error", "raise_syntax_error_known_range"} | set(methods), local_calls=True))
        except Marker:
            got = ("error", None)
        except Crash as e:
            got = ("crash", str(e))
        except EvalError as e:
            und = str(e)
            break
        same = got[0] == want[0] and (got[0] != "value" or (type(got[1]) is type(want[1]) and got[1] == want[1]))
        if not same:
            bad.append((text[:30], got if got[0] != "value" else ("value", repr(got[1])[:40]), want[0]))
    if und:
        chk.undecided(rule_id, "Parser.literal_value", where, f"not every return is `{direct}` and the function is not evaluable: {und}")
    else:
        chk.require(not bad, rule_id, "Parser.literal_value", where,
                    f"a literal's value and validity must be what ast.literal_eval gives for the token text; differs for (text, here, "
                    f"CPython) {bad[:3]} — e.g. bytes literals with non-ASCII characters are refused by CPython")


CONCAT_LITERALS = ["''", '""', "'a'", '"b"', "r'\\n'", "b'x'", "b''", "u'u'", "'''t'''", "'\\''", "rb'\\d'"]


def rule_x12(chk: Check, rule_id: str = "X12-adjacent-literals"):
    """Adjacent plain string literals make one Constant whose value is the concatenation of the values of the literals, each
    evaluated on its own (`'' 'a'` is `'a'`, not the text `'''a'` evaluated in one go); str and bytes do not mix; `kind` is `'u'`
    exactly when the first literal has the u prefix; the node spans the first literal's start to the last one's end.
    `Parser._concat_strings_in_constant` is evaluated from source (with `literal_value` / `_add_literals` and whatever other methods
    it calls) on every sequence of 1–3 literals of a table, and compared with what CPython's own parser gives for the same text."""
    import collections
    import itertools
    from .c17 import Crash, EvalError, Marker, SourceSelf, _mini_eval, module_pure_constants
    sub = parse_py(repo.SUBHEADER)
    parser = repo.find_class(sub, "Parser")
    fn = repo.maybe_func(parser, "_concat_strings_in_constant")
    chk.count(rule_id)
    if fn is None:
        chk.undecided(rule_id, "Parser._concat_strings_in_constant", repo.SUBHEADER,
                      "the function that joins adjacent literals is not found under its name (its callers are covered by the shape rules)")
        return
    where = f"{repo.SUBHEADER}:{fn.lineno}"
    consts = module_pure_constants(repo.SUBHEADER)
    methods = {m.name: m for m in parser.body if isinstance(m, ast.FunctionDef)}
    class_consts = {}
    for st in parser.body:
        tgt = st.targets[0] if isinstance(st, ast.Assign) and len(st.targets) == 1 else getattr(st, "target", None)
        if isinstance(tgt, ast.Name) and getattr(st, "value", None) is not None:
            try:
                class_consts[tgt.id] = ast.literal_eval(st.value)
            except Exception:
                pass
    class TI(collections.namedtuple("TokenInfo", "type string start end line")):
        """stand-in for TokenInfo with its position helpers (what they return is decided by the location rules of C04)"""
        __slots__ = ()

        def loc_start(self):
            return {"lineno": self.start[0], "col_offset": self.start[1]}

        def loc_end(self):
            return {"end_lineno": self.end[0], "end_col_offset": self.end[1]}

        def loc(self):
            return {**self.loc_start(), **self.loc_end()}

    def boom(*a, **k):
        raise Marker("syntax error")
    raisers = {n: boom for n in methods if n.startswith("raise_") or n in ("make_syntax_error", "_build_syntax_error")}
    allowed = set(methods) | {"literal_eval", "Constant", "TokenInfo"}
    fake_ast = types.SimpleNamespace(literal_eval=ast.literal_eval, Constant=lambda **kw: types.SimpleNamespace(**kw))
    param = [a.arg for a in fn.args.args][1]
    bad, und, n = [], "", 0
    for k in (1, 2, 3):
        for combo in itertools.product(CONCAT_LITERALS, repeat=k):
            text = " ".join(combo)
            with warnings.catch_warnings():
                warnings.simplefilter("ignore")
                try:
                    c = ast.parse(text, mode="eval").body
                    want = ("value", c.value, c.kind, (c.lineno, c.col_offset, c.end_lineno, c.end_col_offset))
                except SyntaxError:
                    want = ("error",)
            toks, col = [], 0
            for t in combo:
                toks.append(TI(("Token", "STRING"), t, (1, col), (1, col + len(t)), text))
                col += len(t) + 1
            # (the names of the non-repository callables are listed with the primitives: that is what makes them callable in nested
            # evaluations of the class's own methods)
            me = SourceSelf(methods, dict(raisers, literal_eval=ast.literal_eval, Constant=fake_ast.Constant, TokenInfo=TI))
            me.__dict__["_consts"] = class_consts
            env = dict(consts)
            env.update({"self": me, param: list(toks), "ast": fake_ast, "TokenInfo": TI,
                        "Token": types.SimpleNamespace(STRING=("Token", "STRING"), NUMBER=("Token", "NUMBER"))})
            me.__dict__["_env_extra"] = {kk: v for kk, v in env.items() if kk not in ("self", param)}
            n += 1
            try:
                with warnings.catch_warnings():
                    warnings.simplefilter("ignore")
                    r = _mini_eval(fn, env, allowed, local_calls=True)
                got = ("value", getattr(r, "value", None), getattr(r, "kind", None),
                       (getattr(r, "lineno", None), getattr(r, "col_offset", None), getattr(r, "end_lineno", None), getattr(r, "end_col_offset", None)))
            except Marker:
                got = ("error",)
            except Crash as e:
                got = ("crash", str(e)[:60])
            except EvalError as e:
                und = str(e)
                break
            same = got[0] == want[0] and (got[0] != "value" or (type(got[1]) is type(want[1]) and got[1:] == want[1:]))
            if not same:
                bad.append((text, got, want))
        if und:
            break
    chk.units["adjacent_literal_sequences"] = n
    if und:
        chk.undecided(rule_id, "Parser._concat_strings_in_constant", where, f"not evaluable: {und}")
    else:
        chk.require(not bad, rule_id, "Parser._concat_strings_in_constant", where,
                    f"adjacent literals must give the Constant CPython gives (each literal evaluated on its own, values added, str and "
                    f"bytes not mixed, kind from the first, span first..last); differs on (text, here, CPython) {bad[:2]} ({len(bad)} of {n})")
