"""C12 — file and string entry points agree (DESIGN §4 C12, Z1–Z4)."""
from __future__ import annotations

import ast
from typing import Optional

from .. import repo
from ..common import AnalysisError, Check, norm_stmt, parse_py
from ..pyflow import Index, own_nodes


def _calls(fn, name_pred):
    return [n for n in own_nodes(fn) if isinstance(n, ast.Call) and name_pred(norm_stmt(n.func))]


def _kw(call: ast.Call) -> dict[str, str]:
    return {k.arg: norm_stmt(k.value) for k in call.keywords if k.arg}


def rule_z1(chk: Check, ix: Index):
    pf, ps = ix.get("Parser.parse_file"), ix.get("Parser.parse_string")
    where = f"{pf.where} / {ps.where}"

    def pipeline(f):
        gen = _calls(f.node, lambda s: s == "generate_tokens")
        tk = _calls(f.node, lambda s: s == "Tokenizer")
        mk = _calls(f.node, lambda s: s == "cls")
        run = [n for n in ast.walk(f.node) if isinstance(n, ast.Call) and isinstance(n.func, ast.Attribute) and n.func.attr == "parse"
               and (norm_stmt(n.func.value) == "parser" or (isinstance(n.func.value, ast.Call) and norm_stmt(n.func.value.func) == "cls"))]
        return gen, tk, mk, run

    def resolved(f, e: ast.expr, depth: int = 0) -> str:
        """Text of `e` with a local that is bound exactly once in `f` replaced by what it is bound to."""
        if isinstance(e, ast.Name) and depth < 3:
            params = {x.arg for x in f.node.args.args + f.node.args.kwonlyargs}
            vals = [s.value for s in own_nodes(f.node) if isinstance(s, ast.Assign) and len(s.targets) == 1 and norm_stmt(s.targets[0]) == e.id]
            stores = sum(1 for n in own_nodes(f.node) if isinstance(n, ast.Name) and n.id == e.id and isinstance(n.ctx, ast.Store))
            if e.id not in params and len(vals) == 1 and stores == 1:
                return resolved(f, vals[0], depth + 1)
        return norm_stmt(e)

    a, b = pipeline(pf), pipeline(ps)
    chk.count("Z1-pipeline-agreement")
    shape_ok = all(len(x) == 1 for x in a) and all(len(x) == 1 for x in b)
    if not chk.require(shape_ok, "Z1-pipeline-agreement", "entry-points:stages", where,
                       "each entry point must build exactly one token generator, one Tokenizer, one parser and run one parse"):
        return
    # tokenizer: positional arg is the stream, keywords equal modulo `path`
    ka, kb = _kw(a[1][0]), _kw(b[1][0])
    chk.count("Z1-pipeline-agreement")
    chk.require({k: v for k, v in ka.items() if k != "path"} == {k: v for k, v in kb.items() if k != "path"},
                "Z1-pipeline-agreement", "entry-points:Tokenizer-kwargs", where,
                f"Tokenizer is configured differently: file {ka} vs string {kb} (only `path` may differ)")
    ka, kb = _kw(a[2][0]), _kw(b[2][0])
    chk.count("Z1-pipeline-agreement")
    chk.require({k: v for k, v in ka.items() if k != "filename"} == {k: v for k, v in kb.items() if k != "filename"},
                "Z1-pipeline-agreement", "entry-points:parser-kwargs", where,
                f"the parser is configured differently: file {ka} vs string {kb} (only `filename` may differ)")
    # start rule: "file" for files; for strings "file" unless mode == "eval"
    ra = [resolved(pf, x) for x in a[3][0].args]
    rb = [resolved(ps, x) for x in b[3][0].args]
    chk.count("Z1-pipeline-agreement")
    chk.require(ra == ["'file'"] and rb == ["mode if mode == 'eval' else 'file'"] and not a[3][0].keywords and not b[3][0].keywords,
                "Z1-pipeline-agreement", "entry-points:start-rule", where,
                f"start rules differ: parse_file runs {ra}, parse_string runs {rb}; exec mode must run `file` in both")
    # same options exposed
    pa = [x.arg for x in pf.node.args.args if x.arg not in ("cls", "path")]
    pb = [x.arg for x in ps.node.args.args if x.arg not in ("cls", "source", "mode")]
    chk.count("Z1-pipeline-agreement")
    chk.require(sorted(pa) == sorted(pb), "Z1-pipeline-agreement", "entry-points:options", where,
                f"options differ: parse_file takes {pa}, parse_string takes {pb}")
    # what happens around the parse: both entry points let the same exceptions out (no try/except in one of them only)
    chk.count("Z1-pipeline-agreement")

    def handlers(f):
        out = []
        for t in [n for n in own_nodes(f.node) if isinstance(n, ast.Try)]:
            if any(isinstance(c, ast.Call) and isinstance(c.func, ast.Attribute) and c.func.attr == "parse" for b in t.body for c in ast.walk(b)):
                out += [norm_stmt(h.type) if h.type is not None else "*" for h in t.handlers] + (["finally"] if t.finalbody else [])
        return sorted(out)

    ha, hb = handlers(pf), handlers(ps)
    chk.require(ha == hb, "Z1-pipeline-agreement", "entry-points:exceptions", where,
                f"exceptions of the parse are handled differently: parse_file {ha or 'lets everything out'}, parse_string "
                f"{hb or 'lets everything out'} — the same source then fails with different exception classes")
    # generator argument: a readline bound method
    chk.count("Z1-pipeline-agreement")
    ga, gb = resolved(pf, a[0][0].args[0]), resolved(ps, b[0][0].args[0])
    chk.require(ga.endswith(".readline") and gb.endswith(".readline"), "Z1-pipeline-agreement", "entry-points:readline",
                where, f"both must feed a readline callable to the tokenizer (file: {ga}, string: {gb})")


def rule_source_verbatim(chk: Check, ix: Index, rule_id: str = "Z5-source-verbatim"):
    """Positions and error text refer to the caller's text: the string given to an entry point reaches the line reader as it is.
    In `parse_string` (and the str branch of `generate_tokens`) the parameter is never re-bound and the argument of the StringIO
    that feeds the tokenizer is the parameter itself — a stripped / re-joined / normalised copy shifts every line and column."""
    for q, pname in (("Parser.parse_string", "source"), ("generate_tokens", "readline")):
        f = ix.funcs.get(q)
        chk.count(rule_id)
        if f is None:
            raise AnalysisError(f"{q} vanished")
        params = [a.arg for a in f.node.args.args]
        src = pname if pname in params else next((p for p in params if p not in ("self", "cls")), None)
        rebinds = [norm_stmt(n)[:60] for n in own_nodes(f.node)
                   if isinstance(n, (ast.Assign, ast.AugAssign, ast.AnnAssign)) and any(
                       isinstance(t, ast.Name) and t.id == src for t in (n.targets if isinstance(n, ast.Assign) else [n.target]))
                   and not (q == "generate_tokens" and "StringIO" in norm_stmt(n))]
        sios = _calls(f.node, lambda s_: s_.endswith("StringIO"))
        args_ok = all(c.args and isinstance(c.args[0], ast.Name) and c.args[0].id == src for c in sios)
        # locals derived from the source by a text method and then fed to the reader
        derived = [norm_stmt(n)[:60] for n in own_nodes(f.node) if isinstance(n, ast.Call) and isinstance(n.func, ast.Attribute)
                   and isinstance(n.func.value, ast.Name) and n.func.value.id == src
                   and n.func.attr in ("strip", "lstrip", "rstrip", "replace", "expandtabs", "splitlines", "split", "translate", "encode",
                                       "removeprefix", "removesuffix", "lower", "upper", "casefold", "format")]
        chk.require(bool(sios) and args_ok and not rebinds and not derived, rule_id, f"{q}:{src}", f.where,
                    f"the text handed to the tokenizer is not the caller's text as given (re-bound: {rebinds}; derived: {derived}; reader "
                    f"arguments: {[norm_stmt(c.args[0])[:30] if c.args else '' for c in sios]}): every line and column of the tree and of syntax "
                    f"errors then refers to the modified copy (e.g. leading blanks stripped in eval mode)")


def rule_z6(chk: Check, ix: Index, rule_id: str = "Z6-every-line-remembered"):
    """File mode re-reads the file for error text; string mode has only what the token stream carried.  For the two to agree every
    physical line must reach the line cache: either the cache is fed by the line reader itself, or every way the scanner has of
    using up a physical line emits a token that carries that line.  A line holding nothing but a backslash continuation is used
    up without a token."""
    ps = ix.get("Parser.parse_string")
    fed_by_reader = any(isinstance(n, ast.keyword) and n.arg in ("lines", "source_lines") for n in ast.walk(ps.node)) or \
        any(isinstance(n, ast.FunctionDef) for n in ast.walk(ps.node) if n is not ps.node)
    chk.count(rule_id)
    if fed_by_reader:
        chk.ok(rule_id, "Parser.parse_string:reader-feeds-cache", ps.where)
        return
    npm = ix.get("next_psuedo_matches")
    from ..pyflow import stmt_paths
    silent = []
    try:
        for pth in stmt_paths(list(npm.node.body), split_bool=True):
            conds = {x[1]: x[2] for x in pth if x[0] == "cond"}
            if conds.get("match.lastgroup == 'End'") is True and pth[-1][1] == "return" and pth[-1][2] in ("None", ""):
                silent.append("End")
    except AnalysisError as e:
        raise AnalysisError(f"Z6: next_psuedo_matches not analysable: {e}")
    chk.require(not silent, rule_id, "next_psuedo_matches:End:no-token", npm.where,
                "a backslash continuation is consumed without a token, so a physical line that holds nothing else never reaches the "
                "string-mode line cache: error text over such a line differs between parse_string and parse_file")


def rule_z2_z3(chk: Check, ix: Index):
    opens = []
    for q, f in sorted(ix.funcs.items()):
        for n in own_nodes(f.node):
            if isinstance(n, ast.Call) and norm_stmt(n.func) in ("open", "io.open", "path.open"):
                opens.append((q, f, n))
    # other ways of turning a file into text: each is a decoder with its own default
    for q, f in sorted(ix.funcs.items()):
        if f.rel not in (repo.SUBHEADER, repo.TOKENIZER):
            continue
        for n in own_nodes(f.node):
            if isinstance(n, ast.Call):
                name = norm_stmt(n.func)
                last = name.split(".")[-1]
                if last in ("TextIOWrapper", "read_text", "open_code", "fdopen") or name in ("codecs.open", "os.open", "tokenize.open"):
                    kw = _kw(n)
                    enc = kw.get("encoding", "").strip("'\"").lower().replace("_", "-")
                    chk.count("Z2-explicit-encoding")
                    if last == "open_code":
                        continue    # binary handle: what matters is the decoder wrapped around it
                    chk.require(enc in ("utf-8", "utf8"), "Z2-explicit-encoding", f"{q}:{norm_stmt(n)[:60]}", f"{f.rel}:{n.lineno}",
                                f"`{name}` decodes a source file without an explicit UTF-8 encoding (the locale's preferred encoding is "
                                f"used): under a non-UTF-8 locale a file with a non-ASCII character raises UnicodeDecodeError or is "
                                f"mis-decoded, while the same text passed as a string parses")
    if not opens:
        raise AnalysisError("no open() call found in the runtime modules (anchor vanished)")
    for q, f, n in opens:
        kw = _kw(n)
        mode = norm_stmt(n.args[1]) if len(n.args) > 1 else kw.get("mode", "'r'")
        chk.count("Z2-explicit-encoding")
        enc = kw.get("encoding", "").strip("'\"").lower().replace("_", "-")
        ok = "b" not in mode and enc in ("utf-8", "utf8")
        why = ("a source file is read in binary mode: its lines then end at '\\n' only, while the tokenizer's text handle (and a string) "
               "also end a line at a lone '\\r' — line numbers of a CR-only or mixed file no longer correspond" if "b" in mode else
               f"a source file is decoded as {enc!r}: a leading byte order mark is silently dropped, so the file parses although the same "
               f"text passed as a string does not (and the second reading of the file for error text decodes differently)"
               if enc in ("utf-8-sig",) else "")
        if why:
            chk.fail("Z2-explicit-encoding", f"{q}:{norm_stmt(n)}", f"{f.rel}:{n.lineno}", why)
            continue
        chk.require(ok, "Z2-explicit-encoding", f"{q}:{norm_stmt(n)}", f"{f.rel}:{n.lineno}",
                    "a source file is opened with the locale's preferred encoding: under LC_ALL=C (or a Latin-1 locale) a UTF-8 "
                    "file with a non-ASCII character raises UnicodeDecodeError or is mis-decoded, while the same text passed "
                    "as a string parses")
    # newline translation: open() and StringIO must read lines the same way
    ps = ix.get("Parser.parse_string")
    sio = _calls(ps.node, lambda s: s.endswith("StringIO"))
    chk.count("Z3-newline-mode")
    if len(sio) != 1:
        chk.fail("Z3-newline-mode", "parse_string:StringIO", ps.where, "parse_string no longer reads through io.StringIO")
        return
    s_nl = _kw(sio[0]).get("newline", "'\\n'")  # StringIO default: no translation
    for q, f, n in opens:
        if q not in ("Parser.parse_file", "Tokenizer.get_lines") and not q.startswith("Tokenizer."):
            continue
        o_nl = _kw(n).get("newline", "None")  # open default: universal newlines with translation
        same = (o_nl, s_nl) in (("None", "None"), ("''", "''"), ("'\\n'", "'\\n'"))
        chk.require(same, "Z3-newline-mode", f"{q}:newline", f"{f.rel}:{n.lineno}",
                    f"open(newline={o_nl}) translates '\\r' and '\\r\\n' to '\\n' before tokenizing while "
                    f"StringIO(newline={s_nl}) hands them through: a CR-only or CRLF file and the same text as a string give "
                    f"different tokens, positions and error text")


def rule_z4(chk: Check, ix: Index):
    f = ix.get("Tokenizer.get_lines")
    tests = [n for n in own_nodes(f.node) if isinstance(n, ast.If)]
    chk.count("Z4-line-source")
    PATH_TESTS = ("not self._path", "self._path", "self._path == ''", "self._path != ''")
    sel = next((n for n in f.node.body if isinstance(n, ast.If)), None) or (tests[0] if tests else None)
    if sel is not None and norm_stmt(sel.test) not in PATH_TESTS:
        sel = next((n for n in tests if norm_stmt(n.test) in PATH_TESTS), sel)
    path_test = sel is not None and norm_stmt(sel.test) in ("not self._path", "self._path", "self._path == ''", "self._path != ''")
    opens_inside = sel is not None and any("open(" in norm_stmt(s) for s in ast.walk(sel) if isinstance(s, ast.With))
    # guard-clause form: the string-mode branch returns, the file scan is the rest of the function
    guard_form = False
    if path_test and not opens_inside and sel in f.node.body:
        string_branch = sel.body if norm_stmt(sel.test) in ("not self._path", "self._path == ''") else sel.orelse
        after = f.node.body[f.node.body.index(sel) + 1:]
        guard_form = bool(string_branch) and isinstance(string_branch[-1], ast.Return) and \
            any("open(" in norm_stmt(s) for st in after for s in ast.walk(st) if isinstance(s, ast.With))
    ok = path_test and (opens_inside or guard_form)
    chk.require(ok, "Z4-line-source", "Tokenizer.get_lines:selection", f.where,
                "the two line sources (token cache / file scan) must be selected by whether a path was given — not by whether the "
                "cache happens to be non-empty: a string source without any token line (`parse_string('', mode='eval')`) has an empty "
                "cache, and the file branch then opens the path '' (FileNotFoundError)")
    # the cache is filled exactly when no path is given
    pk = ix.get("Tokenizer.peek")
    fills = [n for n in own_nodes(pk.node) if isinstance(n, ast.If) and "not self._path" in norm_stmt(n.test)
             and any("self._lines[" in norm_stmt(x) or "self._lines.setdefault(" in norm_stmt(x) for s in n.body for x in ast.walk(s)
                     if isinstance(x, (ast.stmt, ast.Call)))]
    # ... for every token fetched in string mode: nothing but the mode decides whether a token's lines are remembered
    chk.count("Z4-line-source")
    extra = []
    for n in fills:
        t = n.test
        conj = t.values if isinstance(t, ast.BoolOp) and isinstance(t.op, ast.And) else [t]
        extra += [norm_stmt(c) for c in conj if norm_stmt(c) not in ("not self._path", "self._path == ''")]
    chk.require(not extra, "Z4-line-source", "Tokenizer.peek:cache-fill-unconditional", pk.where,
                f"in string mode the lines of some tokens are not remembered (the fill is also conditional on {extra}): two adjacent physical "
                f"lines with the same text, or any token the extra test skips, then have no text when a syntax error is reported there, "
                f"while file mode re-reads the file and has it")
    chk.count("Z4-line-source")
    from .bufeval import arbitrate
    arbitrate(chk, len(fills) == 1, "Z4-line-source", "Tokenizer.peek:cache-fill", pk.where,
              "the per-line cache must be filled (only) in string mode", which="peek")
    # ... and before blank tokens are filtered out, so that the cache holds every line the file scan would find
    # (otherwise blank / comment-only lines inside an error span read '' from a string but their text from a file)
    loop = next((n for n in own_nodes(pk.node) if isinstance(n, ast.While)), None)
    chk.count("Z4-line-source")
    order_ok = False
    if loop is not None:
        idx_fill = next((i for i, s in enumerate(loop.body) if isinstance(s, ast.If) and "not self._path" in norm_stmt(s.test)), None)
        idx_filter = next((i for i, s in enumerate(loop.body) if isinstance(s, ast.If) and "self.is_blank(tok)" in norm_stmt(s.test)), None)
        order_ok = idx_fill is not None and (idx_filter is None or idx_fill < idx_filter)
    arbitrate(chk, order_ok, "Z4-line-source", "Tokenizer.peek:cache-before-filter", pk.where,
                "lines must be remembered before blank tokens (NL, COMMENT) are dropped: a blank or comment-only line inside an "
                "error span is otherwise '' in string mode while file mode re-reads its real text", which="peek")
    # both sources key lines by the same 1-based line number
    chk.count("Z4-line-source")
    scan = [n for n in own_nodes(f.node) if isinstance(n, ast.For)]
    # idioms: a counter started at 0 and incremented before use, or enumerate(f, 1)
    counter = any(isinstance(s, ast.AugAssign) and isinstance(s.op, ast.Add) and norm_stmt(s.value) == "1" and isinstance(s.target, ast.Name)
                  and n.body and s is n.body[0]
                  and any(isinstance(a, ast.Assign) and norm_stmt(a) == f"{s.target.id} = 0" for a in ast.walk(f.node))
                  for n in scan for s in n.body)
    enum1 = any(isinstance(n.iter, ast.Call) and norm_stmt(n.iter.func) == "enumerate" and
                (len(n.iter.args) == 2 and norm_stmt(n.iter.args[1]) == "1" or
                 any(k.arg == "start" and norm_stmt(k.value) == "1" for k in n.iter.keywords)) for n in scan)
    cnt_ok = counter or enum1
    chk.require(cnt_ok, "Z4-line-source", "Tokenizer.get_lines:line-numbering", f.where,
                "the file scan must number lines from 1 (a counter started at 0 and incremented before use, or enumerate(f, 1))")


def run(chk: Check):
    chk.explanation = (
        "Sibling agreement of the two entry points: parse_file and parse_string build the same pipeline (token generator from a "
        "readline, Tokenizer, parser, start rule `file`, same options) and differ only in the readline source, `path=` and "
        "`filename=`; every open() of a source file names UTF-8 explicitly; the newline translation of open() and StringIO is the "
        "same; the two line sources behind SyntaxError.text are selected by the path only and number lines alike.")
    chk.trusted = ["xpverif.pyflow"]
    chk.assumptions = ["PEP 263 coding cookies are out of scope (the property asks for UTF-8)"]
    ix = Index()
    rule_z1(chk, ix)
    rule_z2_z3(chk, ix)
    rule_z6(chk, ix)
    from .bufeval import rule_buffer_evaluation
    rule_buffer_evaluation(chk, "peek", "Z4-line-source")
    rule_source_verbatim(chk, ix)
    rule_z4(chk, ix)
    # string mode serves error text from token `line`s: string tokens must carry their lines (C08 L2); the cache must be
    # per parser (C13 U2/U3)
    from .c08 import rule_l2
    from .c11 import rule_y3b
    rule_y3b(chk, ix)
    from .c13 import rule_u2, rule_u3
    rule_l2(chk, ix)
    from .c08 import rule_l5, rule_l1
    rule_l5(chk, ix)
    rule_l1(chk, ix)  # a token's `line` is the text of its row: the string-mode error text is read from it
    rule_u2(chk)
    rule_u3(chk, ix)
    chk.floor("Z1-pipeline-agreement", 6)
    chk.floor("Z2-explicit-encoding", 1)
