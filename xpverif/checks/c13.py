"""C13 — parsing is a pure function: effect inventory over the runtime modules (DESIGN §4 C13, U1–U6)."""
from __future__ import annotations

import ast
from typing import Optional

from .. import constfold, repo
from ..common import AnalysisError, Check, norm_stmt, parse_py
from ..pyflow import Index, own_nodes

MUTATORS = {"append", "add", "update", "pop", "clear", "setdefault", "sort", "extend", "remove", "insert", "discard",
            "popitem", "reverse", "__setitem__", "__delitem__"}
MODULES = (repo.SUBHEADER, repo.TOKENIZER, repo.TOKENIZE, repo.PARSER_X)

# Instance attributes that may be written outside __init__, with the pairing rule that keeps each harmless across
# calls and across speculative parses (decided by the named rule; see also C14).
ALLOWED_INSTANCE_WRITES = {
    ("Parser", "_level"): "verbose-only nesting counter (V1 of C15 erases it)",
    ("Parser", "in_recursive_rule"): "incremented/decremented under try/finally (N-counter)",
    ("Parser", "_cache"): "position-keyed memo, per parser instance",
    ("Parser", "call_invalid_rules"): "pass flag set by parse(); saved/restored by the _without_invalid bracket",
    ("Parser", "_path_token"): "side channel consumed and cleared by concatenate_strings (N2)",
    ("Tokenizer", "_index"): "position",
    ("Tokenizer", "_tokens"): "position-keyed token cache",
    ("Tokenizer", "_lines"): "position-keyed line cache",
    ("Tokenizer", "_stack"): "one-token pushback, popped by the next peek",
    ("Tokenizer", "_call_macro"): "macro flag (M3)",
    ("Tokenizer", "_with_macro"): "macro flag (M3)",
    ("Tokenizer", "_proc_macro"): "macro flag (M3)",
}


def module_level_names(mod: ast.Module) -> dict[str, ast.AST]:
    out: dict[str, ast.AST] = {}
    for st in mod.body:
        if isinstance(st, ast.Assign):
            for t in st.targets:
                for n in ast.walk(t):
                    if isinstance(n, ast.Name):
                        out[n.id] = st.value
        elif isinstance(st, ast.AnnAssign) and isinstance(st.target, ast.Name) and st.value is not None:
            out[st.target.id] = st.value
    return out


def local_names(fn: ast.FunctionDef) -> set[str]:
    out = {a.arg for a in fn.args.posonlyargs + fn.args.args + fn.args.kwonlyargs}
    if fn.args.vararg:
        out.add(fn.args.vararg.arg)
    if fn.args.kwarg:
        out.add(fn.args.kwarg.arg)
    globals_ = set()
    for n in own_nodes(fn):
        if isinstance(n, ast.Global):
            globals_ |= set(n.names)
        elif isinstance(n, ast.Name) and isinstance(n.ctx, (ast.Store, ast.Del)):
            out.add(n.id)
        elif isinstance(n, (ast.FunctionDef, ast.ClassDef)):
            out.add(n.name)
    return out - globals_


def all_functions(mod: ast.Module):
    """(qualname, FunctionDef, enclosing locals) for every function incl. nested ones and methods."""
    def rec(body, prefix, outer_locals):
        for n in body:
            if isinstance(n, (ast.FunctionDef, ast.AsyncFunctionDef)):
                q = f"{prefix}{n.name}"
                loc = local_names(n) | outer_locals
                yield q, n, loc
                yield from rec(n.body, q + ".", loc)
            elif isinstance(n, ast.ClassDef):
                yield from rec(n.body, f"{prefix}{n.name}.", outer_locals)
            elif isinstance(n, (ast.If, ast.For, ast.While, ast.With, ast.Try)):
                for fld in ("body", "orelse", "finalbody"):
                    yield from rec(getattr(n, fld, []) or [], prefix, outer_locals)
    yield from rec(mod.body, "", set())


def rule_u1(chk: Check):
    for rel in MODULES:
        mod = parse_py(rel)
        mnames = module_level_names(mod)
        for q, fn, loc in all_functions(mod):
            chk.count("U1-module-state")
            bad = []
            for n in own_nodes(fn):
                if isinstance(n, ast.Global):
                    bad.append((n, f"`global {', '.join(n.names)}`"))
                tgts = []
                if isinstance(n, ast.Assign):
                    tgts = n.targets
                elif isinstance(n, (ast.AugAssign, ast.AnnAssign)):
                    tgts = [n.target]
                elif isinstance(n, ast.Delete):
                    tgts = n.targets
                for t in tgts:
                    base = t
                    while isinstance(base, (ast.Subscript, ast.Attribute)):
                        base = base.value
                    if base is not t and isinstance(base, ast.Name) and base.id in mnames and base.id not in loc:
                        bad.append((n, f"store into module-level `{base.id}`: {norm_stmt(n)[:60]}"))
                if isinstance(n, ast.Call) and isinstance(n.func, ast.Attribute) and n.func.attr in MUTATORS:
                    base = n.func.value
                    while isinstance(base, (ast.Subscript, ast.Attribute)):
                        base = base.value
                    if isinstance(base, ast.Name) and base.id in mnames and base.id not in loc:
                        bad.append((n, f"mutating call on module-level `{base.id}`: {norm_stmt(n)[:60]}"))
            if bad:
                for n, why in bad:
                    chk.fail("U1-module-state", f"{rel}:{q}:{why[:70]}", f"{rel}:{n.lineno}",
                             f"{why} — state shared by every parse in the process (results would depend on call history and "
                             f"race between threads)")
            else:
                chk.ok("U1-module-state", f"{rel}:{q}", f"{rel}:{fn.lineno}")
        # caches: only pure functions of their arguments
        for q, fn, loc in all_functions(mod):
            for d in fn.decorator_list:
                ds = norm_stmt(d)
                if "lru_cache" in ds or ds.endswith(".cache") or ds == "cache":
                    chk.count("U1-cached-pure")
                    params = {a.arg for a in fn.args.args}
                    body = [s for s in fn.body if not (isinstance(s, ast.Expr) and isinstance(s.value, ast.Constant))]
                    free = {n.id for s in body for n in ast.walk(s) if isinstance(n, ast.Name) and isinstance(n.ctx, ast.Load)}
                    impure = {x for x in free - params if x in mnames and not isinstance(mnames[x], ast.Constant)}
                    ok = len(body) == 1 and isinstance(body[0], ast.Return) and not impure and \
                        not any(isinstance(n, ast.Attribute) and isinstance(n.value, ast.Name) and n.value.id == "self" for n in ast.walk(fn))
                    chk.require(ok, "U1-cached-pure", f"{rel}:{q}", f"{rel}:{fn.lineno}",
                                f"a process-wide cache must wrap a pure function of its arguments (free names: {sorted(free - params)})")
                    # ... and what it hands out is shared by every caller: it must not be a one-shot or mutable object
                    gens = {g.name for g in ast.walk(mod) if isinstance(g, (ast.FunctionDef, ast.AsyncFunctionDef))
                            and any(isinstance(y, (ast.Yield, ast.YieldFrom)) for y in ast.walk(g))}
                    stateful = {"iter", "map", "filter", "zip", "open", "StringIO", "list", "dict", "set", "bytearray", "reversed", "enumerate"}
                    why = ""
                    ann = norm_stmt(fn.returns) if fn.returns is not None else ""
                    if any(w in ann for w in ("Iterator", "Generator", "Iterable", "list[", "dict[", "set[", "List[", "Dict[", "Set[")):
                        why = f"its return annotation is `{ann}`"
                    for r in [n for n in ast.walk(fn) if isinstance(n, ast.Return) and n.value is not None]:
                        v = r.value
                        if isinstance(v, (ast.List, ast.Dict, ast.Set, ast.ListComp, ast.DictComp, ast.SetComp, ast.GeneratorExp)):
                            why = f"it returns the mutable/one-shot object `{norm_stmt(v)[:50]}`"
                        if isinstance(v, ast.Call):
                            callee = norm_stmt(v.func).split(".")[-1]
                            if callee in gens:
                                why = f"it returns the generator object of `{callee}` (consumed by the first caller, empty or half-read for the next)"
                            elif callee in stateful:
                                why = f"it returns a `{callee}` object (one-shot or mutable)"
                    chk.count("U1-cached-pure")
                    chk.require(not why, "U1-cached-pure", f"{rel}:{q}:value", f"{rel}:{fn.lineno}",
                                f"a cached function's result is shared by all callers, but {why}")
    chk.floor("U1-module-state", 450)
    chk.floor("U1-cached-pure", 1)
    # embedded positive example
    probe = ast.parse("X = []\ndef f(a):\n    X.append(a)\n")
    pn = module_level_names(probe)
    fn = probe.body[1]
    hit = any(isinstance(n, ast.Call) and isinstance(n.func, ast.Attribute) and n.func.attr in MUTATORS and
              isinstance(n.func.value, ast.Name) and n.func.value.id in pn and n.func.value.id not in local_names(fn)
              for n in own_nodes(fn))
    if not hit:
        raise AnalysisError("U1 self-probe failed")


READ_ONLY_METHODS = {"get", "items", "keys", "values", "index", "count", "copy", "__contains__", "__getitem__"}


def _class_container_escapes(name: str) -> list[str]:
    """Uses of `<anything>.name` (or the bare name in a class body) that are not plain reads of a constant table: a look-up method,
    a subscript load, membership, iteration, len().  Anything else — a mutator call, a store, passing or returning the object — may
    change or leak the container every instance shares."""
    out = []
    for rel in MODULES:
        mod = parse_py(rel)
        parents = {c: p for p in ast.walk(mod) for c in ast.iter_child_nodes(p)}
        for n in ast.walk(mod):
            if not ((isinstance(n, ast.Attribute) and n.attr == name) or (isinstance(n, ast.Name) and n.id == name and isinstance(n.ctx, ast.Load))):
                continue
            p = parents.get(n)
            if isinstance(n, ast.Attribute) and not isinstance(n.ctx, ast.Load):
                out.append(f"{rel}:{n.lineno} (store)")
                continue
            ok = False
            if isinstance(p, ast.Attribute) and p.value is n and p.attr in READ_ONLY_METHODS and isinstance(parents.get(p), ast.Call) \
                    and parents[p].func is p:
                ok = True
            elif isinstance(p, ast.Subscript) and p.value is n and isinstance(p.ctx, ast.Load):
                ok = True
            elif isinstance(p, ast.Compare) and n in p.comparators and all(isinstance(o, (ast.In, ast.NotIn)) for o in p.ops):
                ok = True
            elif isinstance(p, (ast.For, ast.comprehension)) and p.iter is n:
                ok = True
            elif isinstance(p, ast.Call) and isinstance(p.func, ast.Name) and p.func.id in ("len", "sorted", "tuple", "frozenset", "list", "set", "dict") and n in p.args:
                ok = True
            if not ok:
                out.append(f"{rel}:{n.lineno} (`{norm_stmt(p)[:50]}`)")
    return out


def rule_u2(chk: Check):
    for rel in MODULES:
        mod = parse_py(rel)
        for cls in [n for n in mod.body if isinstance(n, ast.ClassDef)]:
            for st in cls.body:
                val = name = None
                if isinstance(st, ast.Assign) and isinstance(st.targets[0], ast.Name):
                    name, val = st.targets[0].id, st.value
                elif isinstance(st, ast.AnnAssign) and isinstance(st.target, ast.Name) and st.value is not None:
                    name, val = st.target.id, st.value
                if name is None:
                    continue
                chk.count("U2-class-state")
                mutable = isinstance(val, (ast.List, ast.Dict, ast.Set, ast.ListComp, ast.DictComp, ast.SetComp)) or (
                    isinstance(val, ast.Call) and norm_stmt(val.func) in ("list", "dict", "set", "defaultdict", "deque"))
                escapes = _class_container_escapes(name) if mutable else []
                chk.require(not (mutable and escapes), "U2-class-state", f"{rel}:{cls.name}.{name}", f"{rel}:{st.lineno}",
                            f"class attribute `{cls.name}.{name}` is a mutable container shared by all instances, and it is written or "
                            f"handed out at {escapes[:3]}")
    # ... and no method writes a class attribute (cls.X = / ClassName.X = / type(self).X =): that is process-wide state
    for rel in MODULES:
        mod = parse_py(rel)
        classes = {c.name for c in mod.body if isinstance(c, ast.ClassDef)}
        holders = [(cls.name, fn) for cls in mod.body if isinstance(cls, ast.ClassDef)
                   for fn in cls.body if isinstance(fn, (ast.FunctionDef, ast.AsyncFunctionDef))] + \
                  [("<module>", fn) for fn in mod.body if isinstance(fn, (ast.FunctionDef, ast.AsyncFunctionDef))]
        for cname, fn in holders:
            cls = type("C", (), {"name": cname})
            if True:
                for n in ast.walk(fn):
                    tg = n.targets if isinstance(n, ast.Assign) else ([n.target] if isinstance(n, (ast.AugAssign, ast.AnnAssign)) else [])
                    for t in tg:
                        base = t
                        while isinstance(base, ast.Subscript):
                            base = base.value
                        if isinstance(base, ast.Attribute):
                            owner = norm_stmt(base.value)
                            if owner == "cls" or owner in classes or owner in ("type(self)", "self.__class__"):
                                chk.count("U2-class-state")
                                chk.fail("U2-class-state", f"{rel}:{cls.name}.{fn.name}:{norm_stmt(t)[:40]}", f"{rel}:{n.lineno}",
                                         f"`{norm_stmt(n)[:60]}` writes the class attribute `{owner}.{base.attr}`: state shared by every "
                                         f"parse in the process (results depend on what was parsed before)")
    # ... and nothing reconfigures the interpreter or reads through a process-wide stdlib cache while parsing
    GLOBAL_MUTATORS = ("sys.setrecursionlimit", "sys.settrace", "sys.setprofile", "sys.setswitchinterval", "locale.setlocale",
                       "warnings.filterwarnings", "warnings.simplefilter", "random.seed", "os.chdir", "os.putenv", "signal.signal",
                       "linecache.getline", "linecache.getlines", "linecache.checkcache", "gc.disable", "gc.enable")
    for rel in MODULES:
        mod = parse_py(rel)
        for n in ast.walk(mod):
            if isinstance(n, ast.Call) and norm_stmt(n.func) in GLOBAL_MUTATORS:
                chk.count("U2-class-state")
                chk.fail("U2-class-state", f"{rel}:{norm_stmt(n.func)}", f"{rel}:{n.lineno}",
                         f"`{norm_stmt(n)[:60]}` changes or reads interpreter-wide state: two parses in one process (threads, a parse "
                         f"started from a readline callback, a file edited between two parses) influence each other")
    chk.floor("U2-class-state", 20)


def rule_u3(chk: Check, ix: Index):
    # no module-level instance of the stateful classes
    stateful = {"Tokenizer", "TokenizerState", "Parser", "XonshParser", "EndProg"}
    for rel in MODULES:
        mod = parse_py(rel)
        for st in mod.body:
            for n in ast.walk(st) if isinstance(st, (ast.Assign, ast.AnnAssign, ast.Expr)) else []:
                if isinstance(n, ast.Call) and norm_stmt(n.func) in stateful:
                    chk.fail("U3-fresh-state", f"{rel}:{norm_stmt(st)[:60]}", f"{rel}:{st.lineno}",
                             "a stateful object is created at import time and shared by every parse")
    # the entry points construct everything inside the call
    for q in ("Parser.parse_string", "Parser.parse_file"):
        f = ix.get(q)
        made = {norm_stmt(n.func) for n in own_nodes(f.node) if isinstance(n, ast.Call)}
        chk.count("U3-fresh-state")
        chk.require({"generate_tokens", "Tokenizer", "cls"} <= made, "U3-fresh-state", q, f.where,
                    f"{q} must create its own token generator, Tokenizer and parser (calls made: {sorted(made)})")
    # fresh per-instance containers in the constructors
    for q, attrs in (("Parser.__init__", ["_cache"]), ("Tokenizer.__init__", ["_tokens", "_lines", "_stack"]),
                     ("TokenizerState.__init__", ["indents", "end_progs"])):
        f = ix.get(q)
        for a in attrs:
            chk.count("U3-fresh-state")
            fresh = any(isinstance(n, (ast.Assign, ast.AnnAssign)) and norm_stmt(n.targets[0] if isinstance(n, ast.Assign) else n.target) == f"self.{a}"
                        and isinstance(n.value, (ast.List, ast.Dict, ast.Set)) for n in own_nodes(f.node))
            chk.require(fresh, "U3-fresh-state", f"{q}:self.{a}", f.where,
                        f"`self.{a}` must be a container created in the constructor, not one passed in or shared")
    # default arguments must not be mutable containers (shared across calls)
    for rel in MODULES:
        mod = parse_py(rel)
        for q, fn, loc in all_functions(mod):
            for d in fn.args.defaults + [x for x in fn.args.kw_defaults if x is not None]:
                if isinstance(d, (ast.List, ast.Dict, ast.Set)) or (isinstance(d, ast.Call) and norm_stmt(d.func) in ("list", "dict", "set")):
                    chk.fail("U3-fresh-state", f"{rel}:{q}:default", f"{rel}:{fn.lineno}",
                             "mutable default argument is shared by all calls")
    chk.count("U3-fresh-state")
    chk.ok("U3-fresh-state", "no-import-time-instances", repo.SUBHEADER)


def rule_u7(chk: Check, rule_id: str = "U7-shared-container"):
    """A module-level mutable container (list / dict / set display) is one object for the whole process.  Inside functions it may
    be *consulted* (`x in T`, `T[k]`, `T.get(k)`, iteration, len) but must not be handed on as a value — returned, bound to a
    local, stored in an object or passed to a call — because whoever receives it may grow it, and then every later parse sees
    what an earlier one put there."""
    n_tables = n_uses = 0
    for rel in MODULES:
        mod = parse_py(rel)
        tables = {}
        for st in mod.body:
            tgt = val = None
            if isinstance(st, ast.Assign) and len(st.targets) == 1 and isinstance(st.targets[0], ast.Name):
                tgt, val = st.targets[0].id, st.value
            elif isinstance(st, ast.AnnAssign) and isinstance(st.target, ast.Name) and st.value is not None:
                tgt, val = st.target.id, st.value
            if tgt and (isinstance(val, (ast.List, ast.Dict, ast.Set, ast.ListComp, ast.DictComp, ast.SetComp)) or (
                    isinstance(val, ast.Call) and isinstance(val.func, ast.Name) and val.func.id in ("list", "dict", "set", "defaultdict", "OrderedDict"))):
                tables[tgt] = st
        n_tables += len(tables)
        if not tables:
            continue
        for fn in [n for n in ast.walk(mod) if isinstance(n, (ast.FunctionDef, ast.AsyncFunctionDef))]:
            shadow = {a.arg for a in fn.args.args + fn.args.kwonlyargs} | {
                n.id for n in ast.walk(fn) if isinstance(n, ast.Name) and isinstance(n.ctx, ast.Store)}
            parents = {}
            for p in ast.walk(fn):
                for c in ast.iter_child_nodes(p):
                    parents[id(c)] = p
            for n in ast.walk(fn):
                if not (isinstance(n, ast.Name) and isinstance(n.ctx, ast.Load) and n.id in tables and n.id not in shadow):
                    continue
                n_uses += 1
                p = parents.get(id(n))
                consult = (isinstance(p, ast.Subscript) and p.value is n and isinstance(p.ctx, ast.Load)) or \
                    (isinstance(p, ast.Compare) and n in p.comparators and all(isinstance(o, (ast.In, ast.NotIn)) for o in p.ops)) or \
                    (isinstance(p, ast.Attribute) and p.value is n and p.attr in ("get", "keys", "values", "items", "index", "count", "__contains__",
                                                                                 "copy")) or \
                    (isinstance(p, (ast.For, ast.comprehension)) and p.iter is n) or \
                    (isinstance(p, ast.Call) and isinstance(p.func, ast.Name) and p.func.id in ("len", "sorted", "tuple", "list", "set", "frozenset",
                                                                                              "dict", "any", "all", "bool", "iter", "enumerate")
                     and n in p.args) or \
                    (isinstance(p, ast.Starred)) or (isinstance(p, ast.Compare) and p.left is n and all(isinstance(o, (ast.Is, ast.IsNot, ast.Eq, ast.NotEq)) for o in p.ops))
                if consult:
                    continue
                chk.count(rule_id)
                chk.fail(rule_id, f"{rel}:{fn.name}:{n.id}", f"{rel}:{n.lineno}",
                         f"the module-level container `{n.id}` is handed on as a value in `{fn.name}` ({type(p).__name__}): it is one "
                         f"object shared by every parse of the process, and whoever receives it can grow it — a later parse then sees what "
                         f"an earlier one left (e.g. the shared list ends up as the `ifs` of every comprehension)")
    chk.count(rule_id)
    chk.ok(rule_id, "runtime-modules:scanned", repo.SUBHEADER, f"{n_tables} module-level containers, {n_uses} uses inside functions")


def rule_u5(chk: Check):
    """Hash-order-sensitive sinks: iteration over a set may only feed order-insensitive consumers."""
    folded = constfold.fold_tokenize()
    for rel in (repo.TOKENIZE, repo.TOKENIZER, repo.SUBHEADER):
        mod = parse_py(rel)
        set_funcs = {n.name for n in ast.walk(mod) if isinstance(n, ast.FunctionDef) and n.returns is not None
                     and norm_stmt(n.returns).lower().startswith(("set[", "set", "frozenset", "abstractset"))}
        set_names = {k for k, v in module_level_names(mod).items() if isinstance(v, (ast.Set, ast.SetComp)) or (
            isinstance(v, ast.Call) and norm_stmt(v.func) in ("set", "frozenset"))}

        def is_set(e: ast.expr) -> bool:
            if isinstance(e, (ast.Set, ast.SetComp)):
                return True
            if isinstance(e, ast.Name) and e.id in set_names:
                return True
            if isinstance(e, ast.Call) and isinstance(e.func, ast.Name) and (e.func.id in set_funcs or e.func.id in ("set", "frozenset")):
                return True
            return False

        for n in ast.walk(mod):
            sites = []
            if isinstance(n, ast.Call):
                insensitive = isinstance(n.func, ast.Name) and n.func.id in ("sorted", "set", "frozenset", "len", "min", "max", "any", "all", "sum")
                for a in n.args:
                    inner = a.value if isinstance(a, ast.Starred) else a
                    if is_set(inner) and not insensitive and (isinstance(a, ast.Starred) or (
                            isinstance(n.func, ast.Attribute) and n.func.attr == "join") or (
                            isinstance(n.func, ast.Name) and n.func.id in ("list", "tuple", "map", "enumerate", "zip"))):
                        sites.append((a, f"{norm_stmt(n)[:70]}"))
            elif isinstance(n, (ast.For, ast.comprehension)) and is_set(n.iter):
                sites.append((n.iter, f"for … in {norm_stmt(n.iter)[:50]}"))
            for node, desc in sites:
                chk.count("U5-hash-order")
                key = f"{rel}:{desc}"
                w = f"{rel}:{getattr(node, 'lineno', 0)}"
                # the one accepted shape: an alternation of letter-only string prefixes followed by a mandatory quote,
                # where the overall match is the same whatever the order of the alternatives
                if rel == repo.TOKENIZE and "_all_string_prefixes" in desc and "group(" in desc:
                    prefixes = constfold.string_prefix_set()
                    letters = all(p == "" or p.isalpha() for p in prefixes)
                    ss = folded.need("StringStart")
                    follows_quote = ss.startswith("(?P<StringPrefix>(") and ")(?P<Quote>(" in ss
                    chk.require(letters and follows_quote, "U5-hash-order", key, w,
                                "string prefixes are joined into an alternation in set (hash) order; that is harmless only while "
                                "every prefix is letters only and a mandatory quote follows (unique match) — "
                                f"letters-only={letters}, quote-follows={follows_quote}")
                else:
                    chk.fail("U5-hash-order", key, w,
                             "iteration over a set feeds an order-sensitive consumer: the result depends on PYTHONHASHSEED")
    chk.floor("U5-hash-order", 0)   # no set-fed sink at all is fine (the alternation may be written out as a pattern)


def rule_u6(chk: Check, ix: Index):
    """Instance attributes written outside the constructors must be in the reviewed table."""
    for q, f in sorted(ix.funcs.items()):
        if f.cls not in ("Parser", "Tokenizer") or f.node.name == "__init__":
            continue
        for n in own_nodes(f.node):
            tgts = []
            if isinstance(n, ast.Assign):
                tgts = n.targets
            elif isinstance(n, (ast.AugAssign, ast.AnnAssign)):
                tgts = [n.target]
            for t in tgts:
                for x in ([t] if not isinstance(t, ast.Tuple) else t.elts):
                    base = x
                    while isinstance(base, ast.Subscript):
                        base = base.value
                    if not isinstance(base, ast.Attribute):
                        continue
                    owner = None
                    if norm_stmt(base.value) == "self":
                        owner = f.cls
                    elif norm_stmt(base.value) == "self._tokenizer":
                        owner = "Tokenizer"
                    if owner is None:
                        continue
                    chk.count("U6-side-channel")
                    key = f"{q}:{owner}.{base.attr}"
                    if (owner, base.attr) in ALLOWED_INSTANCE_WRITES:
                        chk.ok("U6-side-channel", key, f"{f.rel}:{n.lineno}")
                    else:
                        chk.fail("U6-side-channel", key, f"{f.rel}:{n.lineno}",
                                 f"`{norm_stmt(n)[:60]}` writes instance state `{owner}.{base.attr}` that is not position-keyed and "
                                 f"has no reviewed set/reset pairing: a speculative (backtracked) parse or an earlier statement can "
                                 f"leak through it")
    # generated actions must not write instance state directly
    gen = parse_py(repo.PARSER_X)
    for fn in [n for n in ast.walk(gen) if isinstance(n, ast.FunctionDef)]:
        for n in own_nodes(fn):
            tgts = n.targets if isinstance(n, ast.Assign) else ([n.target] if isinstance(n, (ast.AugAssign, ast.AnnAssign)) else [])
            for t in tgts:
                if isinstance(t, ast.Attribute) and norm_stmt(t.value).startswith("self"):
                    chk.count("U6-side-channel")
                    ok = norm_stmt(t) == "self.call_invalid_rules" and fn.name.endswith("without_invalid")
                    chk.require(ok, "U6-side-channel", f"{repo.PARSER_X}:{fn.name}:{norm_stmt(t)}", f"{repo.PARSER_X}:{n.lineno}",
                                "a generated rule method writes parser state directly")
    chk.floor("U6-side-channel", 15)


def run(chk: Check):
    chk.explanation = (
        "Exhaustive effect inventory of peg_parser/*.py: no function writes module-level state (no global, no store or mutating "
        "call on a module-level binding), process-wide caches wrap pure functions, no class-level mutable containers or mutable "
        "defaults, no import-time instances of stateful classes and fresh containers in every constructor, the shared context "
        "singletons are never written, the only hash-order-dependent construction (string prefix alternation) is order-"
        "insensitive by a folded-regex argument, and every instance attribute written outside a constructor is in a reviewed "
        "table of position-keyed caches or paired flags. Thread safety follows from the absence of shared mutable state.")
    chk.trusted = ["xpverif.pyflow", "xpverif.constfold (verified-pure folding of tokenize.py initialisers)"]
    chk.assumptions = ["aliasing of module-level containers through locals is not tracked (none is passed around today)",
                       "the pairing rules behind the reviewed table are decided by M3/N2 (C07/C14) and V1 (C15)"]
    ix = Index()
    rule_u1(chk)
    rule_u2(chk)
    rule_u3(chk, ix)
    from .inventory import rule_walk_writes
    rule_walk_writes(chk, ix, "S6-singleton-write")
    from .c04 import rule_s6
    rule_s6(chk)
    rule_u5(chk)
    rule_u6(chk, ix)
    rule_u7(chk)
