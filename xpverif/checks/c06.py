"""C06 — subprocess arguments: bracket table, positional adjacency, WS handling, verbatim words (DESIGN §4 C06, P1–P4)."""
from __future__ import annotations

import ast

from .. import actions, constfold, probe, repo, typed
from ..absval import Const, ListV, Node, members
from ..common import AnalysisError, Check, norm_stmt, parse_py
from ..ir import Cut, Lit, Look, Ref, Tok, walk_alt_items
from ..pyflow import Index, own_nodes

X = probe.xonsh_attr
KW = "keywords=[⊥*]"
BRACKETS = {("$(", ")", "subproc_captured"), ("$[", "]", "subproc_uncaptured"), ("!(", ")", "subproc_captured_object"),
            ("![", "]", "subproc_captured_hiddenobject")}


def rule_p1(chk: Check, ir, I):
    r = ir.rules.get("sub_procs")
    if r is None:
        raise AnalysisError("rule sub_procs vanished")
    got = set()
    for i, a in enumerate(r.alts):
        lits = [ni.item.value for ni in a.items if isinstance(ni.item, Lit)]
        meth = None
        if a.action is not None:
            for n in ast.walk(a.action):
                if isinstance(n, ast.Call) and isinstance(n.func, ast.Attribute) and n.func.attr == "handle_proc" and n.args \
                        and isinstance(n.args[0], ast.Constant):
                    meth = n.args[0].value
        chk.count("P1-bracket-table")
        trip = (lits[0] if lits else None, lits[-1] if lits else None, meth)
        got.add(trip)
        chk.require(trip in BRACKETS, "P1-bracket-table", f"sub_procs#alt{i}", str(a.pos),
                    f"`{a}` maps {trip[0]} … {trip[1]} to `{trip[2]}`; the four forms are {sorted(BRACKETS)}")
    chk.count("P1-bracket-table")
    chk.require(got == BRACKETS, "P1-bracket-table", "sub_procs:complete", str(r.pos), f"missing forms: {sorted(BRACKETS - got)}")
    # runtime call shapes
    v = probe.call(I, "Parser.handle_proc", [Const("M"), ListV(probe.node("Constant", "ARG"), True)], {}, with_span=True)
    chk.count("P1-bracket-table")
    want = f"Call(func={X('M')}, args=[<ARG:Constant>*], {KW})"
    chk.require(probe.shapes(v) == {want}, "P1-bracket-table", "handle_proc:shape", repo.SUBHEADER,
                f"handle_proc(method, args) must be __xonsh__.<method>(*args); got {sorted(probe.shapes(v))}")
    for qual, arg, fn, what in (("Parser.proc_pyexpr", probe.node("Name", "E"), "list_of_strs_or_callables", "@(expr)"),
                                ("Parser.proc_inject", ListV(probe.node("Constant", "ARG"), True), "subproc_captured_inject", "@$(..)")):
        v = probe.call(I, qual, [arg], {}, with_span=True)
        inner = "<E:Name>" if qual.endswith("pyexpr") else "<ARG:Constant>"
        want = f"Starred(value=Call(func={X(fn)}, args=[{inner}*], {KW}), ctx=Load)"
        chk.count("P1-bracket-table")
        chk.require(probe.shapes(v) == {want}, "P1-bracket-table", f"{what}:shape", repo.SUBHEADER,
                    f"{what} must become a starred __xonsh__.{fn}(..) call; got {sorted(probe.shapes(v))}")
        if qual.endswith("pyexpr"):
            # ... whatever the expression is: a literal tuple / list / constant goes through the same runtime call (which is what
            # turns its items into strings)
            for cls in ("Tuple", "List", "Constant", "Call", "ListComp"):
                v2 = probe.call(I, qual, [probe.node(cls, "E")], {}, with_span=True)
                want2 = f"Starred(value=Call(func={X(fn)}, args=[<E:{cls}>*], {KW}), ctx=Load)"
                chk.count("P1-bracket-table")
                chk.require(probe.shapes(v2) == {want2}, "P1-bracket-table", f"{what}:shape({cls})", repo.SUBHEADER,
                            f"{what} with a {cls} inside must become a starred __xonsh__.{fn}(..) call like any other expression; got "
                            f"{sorted(probe.shapes(v2))}")
    # which literal opens which builder in proc_cmd
    pc = ir.rules.get("proc_cmd")
    if pc is None:
        raise AnalysisError("rule proc_cmd vanished")
    table = {}
    for a in pc.alts:
        lits = [ni.item.value for ni in a.items if isinstance(ni.item, Lit)]
        if a.action is not None and lits:
            for n in ast.walk(a.action):
                if isinstance(n, ast.Call) and isinstance(n.func, ast.Attribute) and n.func.attr in ("proc_pyexpr", "proc_inject"):
                    table[lits[0]] = (n.func.attr, lits[-1])
    chk.count("P1-bracket-table")
    chk.require(table == {"@(": ("proc_pyexpr", ")"), "@$(": ("proc_inject", ")")}, "P1-bracket-table", "proc_cmd:@-forms", str(pc.pos),
                f"`@(`..`)` must build proc_pyexpr and `@$(`..`)` proc_inject; found {table}")


def rule_p2(chk: Check, ix: Index, ir):
    import types
    from .. import constfold
    from ..pyflow import stmt_paths
    f = ix.get("Parser.is_adjacent")
    chk.count("P2-adjacency")

    class FakeTok:
        def __init__(self, start, end):
            self.start, self.end = start, end

    def node(start, end):
        return types.SimpleNamespace(lineno=start[0], col_offset=start[1], end_lineno=end[0], end_col_offset=end[1])

    params = [a.arg for a in f.node.args.args if a.arg not in ("self", "cls")]
    bad = []
    try:
        for mk_prev in (FakeTok, node):
            for mk_cur in (FakeTok, node):
                for pe, cs, want in (((1, 5), (1, 5), True), ((1, 5), (1, 6), False), ((1, 5), (2, 5), False), ((3, 0), (2, 0), False),
                                     ((2, 5), (2, 5), True), ((1, 5), (2, 0), False), ((1, 0), (2, 0), False), ((1, 5), (1, 4), False)):
                    prev = mk_prev((pe[0] - 1 if pe[0] > 1 else 1, 0), pe)   # a piece that may start on an earlier line
                    cur = mk_cur(cs, (cs[0], cs[1] + 2))
                    try:
                        got = constfold.eval_pure_function(f.node, {params[0]: prev, params[1]: cur}, extra={"TokenInfo": FakeTok},
                                                           data_attrs=("start", "end", "lineno", "col_offset", "end_lineno", "end_col_offset"))
                    except constfold.PureEvalError:
                        # second evaluator (statement subset; the tokenizer's lines are available: a word ending its line, no
                        # continuation character after it)
                        from .c17 import EvalError as _EvE, _mini_eval as _mini
                        me = types.SimpleNamespace(_tokenizer=types.SimpleNamespace(get_lines=lambda nums: ["ls -l\n" for _ in nums]))
                        try:
                            got = _mini(f.node, {"self": me, params[0]: prev, params[1]: cur, "TokenInfo": FakeTok}, {"get_lines"})
                        except _EvE as e2:
                            raise constfold.PureEvalError(str(e2))
                    if bool(got) != want:
                        bad.append((mk_prev.__name__, pe, mk_cur.__name__, cs, got))
    except (constfold.PureEvalError, IndexError) as e:
        bad.append(("not evaluable", str(e)))
    chk.require(not bad, "P2-adjacency", "Parser.is_adjacent", f.where,
                f"two pieces are one word exactly when the end (line, column) of the previous equals the start (line, column) of the next; "
                f"differs on (previous kind, its end, next kind, its start, result) = {bad[:2]}")
    # the splitter: the generator `_proc_args`, or — when it has been folded into its only caller — `proc_args` itself, which
    # then collects the words in a list it returns ("emit" is `yield stash` or `<that list>.append(stash)`)
    g = ix.funcs.get("Parser._proc_args") or ix.get("Parser.proc_args")
    emit_texts = ["yield stash"]
    rets = [norm_stmt(s.value) for s in own_nodes(g.node) if isinstance(s, ast.Return) and s.value is not None]
    if len(rets) == 1 and rets[0].isidentifier():
        inits = [norm_stmt(s) for s in own_nodes(g.node) if isinstance(s, (ast.Assign, ast.AnnAssign)) and
                 norm_stmt(s.targets[0] if isinstance(s, ast.Assign) else s.target) == rets[0]]
        if len(inits) == 1 and inits[0].endswith(("= []", "= list()")):
            emit_texts.append(f"{rets[0]}.append(stash)")
    loops = [n for n in own_nodes(g.node) if isinstance(n, ast.For)]
    chk.count("P2-adjacency")
    ok = len(loops) == 1 and norm_stmt(loops[0].iter) == "args"
    chk.require(ok, "P2-adjacency", "Parser._proc_args:order", g.where,
                "the pieces must be walked in source order (a plain loop over `args`, no sorting/reversal)")
    if ok:
        # one iteration, as a path set: the piece is appended exactly once; the word so far is emitted first exactly when there is
        # one and the piece is not adjacent to it, and the new word then starts from nothing
        chk.count("P2-adjacency")
        var = norm_stmt(loops[0].target)
        why = ""
        try:
            for pth in stmt_paths(loops[0].body, split_bool=True):
                eff = [x[1] for x in pth if x[0] == "do"]
                conds = [(x[1], x[2]) for x in pth if x[0] == "cond"]
                appends = [e for e in eff if "_append_node_or_token(" in e]
                if len(appends) != 1 or not appends[0].startswith("stash = self._append_node_or_token(") or not appends[0].endswith(f", {var})"):
                    why = f"a path appends the piece {len(appends)} times: {eff}"
                    break
                onto_none = appends[0] == f"stash = self._append_node_or_token(None, {var})" or \
                    ("stash = None" in eff and eff.index("stash = None") < eff.index(appends[0]))
                emitted = any(t in eff for t in emit_texts)
                emit_at = min((eff.index(t) for t in emit_texts if t in eff), default=-1)
                # what the path knows
                has_word = any((c in ("stash", "stash is not None") and t) or (c in ("not stash", "stash is None") and not t) or
                               (c.startswith("stash and ") and t) for c, t in conds)
                no_word = any((c in ("stash", "stash is not None") and not t) or (c in ("not stash", "stash is None") and t) for c, t in conds)
                apart = any((c == f"self.is_adjacent(stash, {var})" and not t) or (c == f"not self.is_adjacent(stash, {var})" and t) or
                            (c == f"stash and (not self.is_adjacent(stash, {var}))" and t) or (c == f"stash and not self.is_adjacent(stash, {var})" and t)
                            for c, t in conds)
                if emitted != (apart and not no_word):
                    why = f"under {conds} the word so far is {'emitted' if emitted else 'kept'}"
                    break
                if emitted and (not onto_none or emit_at > eff.index(appends[0])):
                    why = "after emitting a word the next one must start from nothing, and the emission comes first"
                    break
                if not emitted and onto_none and not no_word:
                    why = f"under {conds} the word so far is dropped without being emitted"
                    break
        except AnalysisError as e:
            why = f"loop body not analysable: {e}"
        chk.require(not why, "P2-adjacency", "Parser._proc_args:split", g.where,
                    f"adjacent pieces are glued onto the current word; otherwise the word is emitted first and a new one started ({why})")
        chk.count("P2-adjacency")
        tail = [norm_stmt(s) for s in g.node.body if isinstance(s, ast.If)]
        chk.require(any(t.startswith(tuple(f"if {c}: {e}" for c in ("stash", "stash is not None") for e in emit_texts)) for t in tail), "P2-adjacency",
                    "Parser._proc_args:last", g.where, "the last word must be emitted after the loop")
    # hand-shifted start columns break positional adjacency
    from .c04 import rule_adjusted_location
    rule_adjusted_location(chk, ir, "P2-adjusted-location")


def rule_p3(chk: Check, ix: Index, ir):
    # whitespace tokens are dropped (words are split by position only) except while a subprocess macro captures raw text:
    # the token filter as a truth table (shared with C01/C09)
    from .c01 import rule_is_blank
    rule_is_blank(chk, "P3-whitespace-tokens")
    for r, k, a in actions.all_alts(ir.rules):
        for it in walk_alt_items(a):
            if isinstance(it, Tok) and it.name == "WS":
                chk.count("P3-whitespace-tokens")
                chk.require(r.name == "any_cmd", "P3-whitespace-tokens", f"{k}:WS", str(a.pos),
                            "a WS token is consumed outside the raw-capture rule `any_cmd`")


def rule_p4(chk: Check, ix: Index, I):
    # a lone word/string token becomes Constant(value=tok.string) with the token's own span
    v = probe.call(I, "Parser._append_node_or_token", [probe.NONE, probe.tok("W", "NAME")], {})
    chk.count("P4-verbatim-words")
    nodes = [m for m in members(v) if isinstance(m, Node)]
    ok = len(nodes) == 1 and nodes[0].shape == "Constant(value=<W.string>)" and nodes[0].locsrc == (("W",), ("W",))
    chk.require(ok, "P4-verbatim-words", "_append_node_or_token:first", repo.SUBHEADER,
                f"a word must become Constant(value=tok.string) spanning the token; got {[(n.shape, n.locsrc) for n in nodes]}")
    # gluing keeps left-to-right order: previous text + current text, start of previous, end of current
    f = ix.get("Parser._append_node_or_token")
    glue = [n for n in ast.walk(f.node) if isinstance(n, ast.BinOp) and isinstance(n.op, ast.Add) and norm_stmt(n) == "tree.value + cmd.string"]
    chk.count("P4-verbatim-words")
    chk.require(len(glue) == 1, "P4-verbatim-words", "_append_node_or_token:glue-order", f.where,
                "glued text must be previous.value + current.string, in that order")
    v = probe.call(I, "Parser._append_node_or_token", [probe.node("Constant", "PREV"), probe.tok("CUR", "NAME")], {})
    nodes = [m for m in members(v) if isinstance(m, Node) and m.cls == "Constant"]
    chk.count("P4-verbatim-words")
    ok = bool(nodes) and all(n.locsrc == (("PREV",), ("CUR",)) for n in nodes)
    chk.require(ok, "P4-verbatim-words", "_append_node_or_token:glue-span", f.where,
                f"a glued word must start where the previous piece starts and end where the current one ends; got {[n.locsrc for n in nodes]}")
    from ..absval import Tok
    prevs = {"Constant": probe.node("Constant", "PREV"), "Starred": probe.node("Starred", "PREV"), "Tuple": probe.node("Tuple", "PREV"),
             "Call": probe.node("Call", "PREV")}
    curs = {"token": probe.tok("CUR", "NAME"), "Starred": probe.node("Starred", "CUR"), "Call": probe.node("Call", "CUR")}
    for pk, pv in prevs.items():
        for ck, cv in curs.items():
            v = probe.call(I, "Parser._append_node_or_token", [pv, cv], {})
            nodes = [m for m in members(v) if isinstance(m, Node)]
            chk.count("P4-verbatim-words")
            bad = [(n.cls, n.locsrc) for n in nodes if n.locsrc != (("PREV",), ("CUR",))]
            chk.require(bool(nodes) and not bad, "P4-verbatim-words", f"_append_node_or_token:span({pk}+{ck})", f.where,
                        f"gluing a {ck} onto a {pk} must give a node that starts where the previous piece starts and ends where the new "
                        f"piece ends (the next adjacency test uses that end); got {bad or 'no node'}")
    binops = [n for n in ast.walk(f.node) if isinstance(n, ast.Call) and norm_stmt(n.func) == "ast.BinOp"]
    chk.count("P4-verbatim-words")
    ok = len(binops) >= 1 and all({k.arg: norm_stmt(k.value) for k in b.keywords}.get("left") == "tree" for b in binops)
    chk.require(ok, "P4-verbatim-words", "_append_node_or_token:concat-order", f.where,
                "the general concatenation must keep the previous piece on the left")
    # element order: in every list built from both, what comes from the previous pieces precedes what comes from the new piece
    params = [a.arg for a in f.node.args.args]
    prev_p, cur_p = params[1], params[2]
    derived = {prev_p: "P", cur_p: "C"}
    for n in own_nodes(f.node):
        if isinstance(n, ast.Assign) and len(n.targets) == 1 and isinstance(n.targets[0], ast.Name):
            used = {x.id for x in ast.walk(n.value) if isinstance(x, ast.Name)}
            kinds = {derived[u] for u in used if u in derived}
            if len(kinds) == 1 and n.targets[0].id not in (prev_p, cur_p):
                derived[n.targets[0].id] = next(iter(kinds))
    n_lists = 0
    for n in own_nodes(f.node):
        if isinstance(n, ast.List) and isinstance(n.ctx, ast.Load):
            seq = []
            for e in n.elts:
                used = {x.id for x in ast.walk(e) if isinstance(x, ast.Name)}
                kinds = {derived[u] for u in used if u in derived}
                seq.append(next(iter(kinds)) if len(kinds) == 1 else "?")
            if "P" in seq and "C" in seq:
                n_lists += 1
                chk.count("P4-verbatim-words")
                ok = seq.index("C") > max(i for i, k in enumerate(seq) if k == "P")
                chk.require(ok, "P4-verbatim-words", f"_append_node_or_token:element-order:{norm_stmt(n)[:50]}", f"{f.rel}:{n.lineno}",
                            f"`{norm_stmt(n)}` puts the new piece before the pieces collected so far: `@(x)suf` would become ('suf', *x)")
    chk.units["word_lists_with_both_sides"] = n_lists
    return


def rule_p5(chk: Check, ix: Index, rule_id: str = "P5-glue"):
    """How two adjacent pieces of one word are glued (`Parser._append_node_or_token`), decided by evaluating the builder over
    every combination of what came before (nothing / a text constant / an `@(...)` spread / a tuple already built / any other
    expression) and what comes next (a word token / a spread / any other expression): text joins text, a spread next to text
    makes the tuple xonsh multiplies out, everything else is string concatenation with `+` — in particular `prefix$VAR` and
    `prefix$(cmd)` are one argument, not a tuple."""
    f = ix.get("Parser._append_node_or_token")
    params = [a.arg for a in f.node.args.args if a.arg != "self"]
    if len(params) != 2:
        raise AnalysisError("_append_node_or_token no longer takes (tree, cmd)")

    class FakeTok:
        def __init__(self, string, start, end):
            self.string, self.start, self.end = string, start, end

        def loc(self):
            return {"lineno": self.start[0], "col_offset": self.start[1], "end_lineno": self.end[0], "end_col_offset": self.end[1]}

        def loc_start(self):
            return {"lineno": self.start[0], "col_offset": self.start[1]}

        def loc_end(self):
            return {"end_lineno": self.end[0], "end_col_offset": self.end[1]}

    def L(c0, c1):
        return dict(lineno=1, col_offset=c0, end_lineno=1, end_col_offset=c1)
    load = ast.Load()
    env_lookup = ast.Subscript(value=ast.Name(id="env", ctx=load, **L(2, 3)), slice=ast.Constant(value="X", **L(3, 4)), ctx=load, **L(2, 6))
    spread = ast.Starred(value=ast.Name(id="v", ctx=load, **L(4, 5)), ctx=load, **L(2, 6))
    trees = {
        "nothing": None,
        "text": ast.Constant(value="ab", **L(2, 6)),
        "spread": spread,
        "tuple": ast.Tuple(elts=[ast.Constant(value="ab", **L(0, 2)), spread], ctx=load, **L(0, 6)),
        "expr": env_lookup,
        "call": ast.Call(func=ast.Name(id="f", ctx=load, **L(2, 3)), args=[], keywords=[], **L(2, 6)),
    }
    cmds = {
        "word": FakeTok("cd", (1, 6), (1, 8)),
        "spread": ast.Starred(value=ast.Name(id="w", ctx=load, **L(8, 9)), ctx=load, **L(6, 10)),
        "expr": ast.Subscript(value=ast.Name(id="env", ctx=load, **L(6, 7)), slice=ast.Constant(value="Y", **L(7, 8)), ctx=load, **L(6, 10)),
        "call": ast.Call(func=ast.Name(id="g", ctx=load, **L(6, 7)), args=[], keywords=[], **L(6, 10)),
        "fstring": ast.JoinedStr(values=[], **L(6, 10)),
    }
    ev = constfold.builder_expr_eval(("loc", "loc_end", "loc_start"))
    bad = []
    n = 0
    for tk, tree in trees.items():
        for ck, cmd in cmds.items():
            n += 1
            try:
                got = constfold.eval_pure_function(f.node, {"self": object(), params[0]: tree, params[1]: cmd},
                                                   extra={"TokenInfo": FakeTok, "ast": ast, "Load": load}, expr_eval=ev)
            except constfold.PureEvalError as e:
                chk.count(rule_id)
                chk.undecided(rule_id, "Parser._append_node_or_token", f.where, f"the builder is outside the evaluable subset: {e}")
                return
            is_tok = isinstance(cmd, FakeTok)
            piece = ("Constant", cmd.string) if is_tok else ("same", id(cmd))

            def desc(x):
                if isinstance(x, ast.Constant):
                    return ("Constant", x.value)
                return ("same", id(x))
            if tree is None:
                want = piece
                have = desc(got)
            elif isinstance(tree, ast.Constant) and is_tok:
                want, have = ("Constant", tree.value + cmd.string), desc(got)
            elif isinstance(tree, ast.Constant) and isinstance(cmd, ast.Starred):
                want = ("Tuple", [desc(tree), piece])
                have = ("Tuple", [desc(e) for e in got.elts]) if isinstance(got, ast.Tuple) else (type(got).__name__,)
            elif isinstance(tree, ast.Starred) and is_tok:
                want = ("Tuple", [desc(tree), piece])
                have = ("Tuple", [desc(e) for e in got.elts]) if isinstance(got, ast.Tuple) else (type(got).__name__,)
            elif isinstance(tree, ast.Tuple) and is_tok:
                want = ("Tuple", [desc(e) for e in tree.elts] + [piece])
                have = ("Tuple", [desc(e) for e in got.elts]) if isinstance(got, ast.Tuple) else (type(got).__name__,)
            else:
                want = ("BinOp", desc(tree), "Add", piece)
                have = ("BinOp", desc(got.left), type(got.op).__name__, desc(got.right)) if isinstance(got, ast.BinOp) else (type(got).__name__,)
            if want != have:
                bad.append((f"{tk} + {ck}", f"gives {have[0]}, expected {want[0]}"))
                continue
            # the glued node starts where the first piece starts and ends where the second one ends
            if tree is not None and isinstance(got, ast.AST):
                end = cmd.end if is_tok else (cmd.end_lineno, cmd.end_col_offset)
                span = (got.lineno, got.col_offset, getattr(got, "end_lineno", None), getattr(got, "end_col_offset", None))
                if span != (tree.lineno, tree.col_offset, end[0], end[1]):
                    bad.append((f"{tk} + {ck}", f"span {span}, expected {(tree.lineno, tree.col_offset, *end)}"))
    chk.count(rule_id)
    chk.units["glue_cases_evaluated"] = n
    chk.require(not bad, rule_id, "Parser._append_node_or_token", f.where,
                f"adjacent pieces of a subprocess word are glued wrongly: {bad[:4]} (text+text is one constant, text next to an `@(...)` "
                f"spread is the tuple that is multiplied out, anything else is `+` concatenation into ONE argument)")


def run(chk: Check):
    chk.explanation = (
        "P1: the (open, close, runtime method) triples of the four subprocess forms, and the shapes built for @(..) and @$(..), are "
        "read off the IR and the symbolically evaluated builders. P2: adjacency compares an end pair with a start pair, pieces are "
        "walked in source order, a word is emitted exactly when the next piece is not adjacent, the last word is emitted, and no "
        "caller of a location-shifting helper shifts a piece's own start. P3: WS tokens are dropped outside raw capture and consumed "
        "by no rule but any_cmd. P4: a word becomes Constant(tok.string) over the token's span; glued text is previous + current with "
        "the previous start and the current end. Word splitting over all spellings depends on how every spelling tokenizes and is "
        "not decided.")
    chk.explanation += ' Also evaluated here: every look-ahead in front of a bracket form admits all of its openers (A10) and all column producers use one unit.'
    chk.trusted = ["xpverif.absint shapes and location provenance", "xpverif.pyir"]
    chk.assumptions = ["token coordinates are right (C08)"]
    ix = Index()
    ir = repo.ir_x()
    tr = typed.run()
    rule_p1(chk, ir, tr.interp)
    rule_p2(chk, ix, ir)
    rule_p3(chk, ix, ir)
    rule_p4(chk, ix, tr.interp)
    rule_p5(chk, ix)
    from .firstpass import rule_first_pass_raisers
    rule_first_pass_raisers(chk, ir)
    from .firstpass import rule_no_token_rewrite
    rule_no_token_rewrite(chk, ir, ix)
    from .c02 import rule_path_literal_gate
    rule_path_literal_gate(chk)  # every quoted word of a command is first tried as a string literal: the p-prefix gate runs on it
    from .c01 import rule_result_span
    rule_result_span(chk, ir)
    # every bracket form must stay reachable through the look-aheads in front of it, and adjacency compares columns that
    # must all be in one unit (rules of C01, necessary here too)
    from .c01 import rule_column_unit, rule_lookahead_cover
    rule_lookahead_cover(chk, ir)
    rule_column_unit(chk, only_consistent=True)
    # how a word is cut into tokens (number/name sub-languages, keyword table) and where glued nodes end decide adjacency
    from .c09 import rule_k1
    from .c02 import rule_x5
    from .. import constfold
    rule_k1(chk, constfold.fold_tokenize(), False)
    rule_x5(chk, ir)
    tr.feed(chk, {"A5-loc-key": "A5-loc-key", "A5-loc-pair": "A5-loc-pair", "A5-loc-order": "A5-loc-order"})
    chk.floor("P1-bracket-table", 9)
    chk.floor("P2-adjacency", 4)
    chk.floor("P3-whitespace-tokens", 2)
    chk.floor("P4-verbatim-words", 4)
