"""C11 — syntax errors are well-formed and point into the source (DESIGN §4 C11, Y1–Y5)."""
from __future__ import annotations

import ast
from typing import Optional

from .. import actions, pyflow, repo
from ..common import AnalysisError, Check, norm_stmt, parse_py
from ..pyflow import Index, own_nodes

BUILDERS = {"Parser._build_syntax_error", "Parser.raise_indentation_error"}
ERR_CLASSES = ("SyntaxError", "IndentationError")


def rule_y1(chk: Check, ix: Index):
    """Ownership: positioned errors are constructed only by the builders."""
    # embedded positive example: the matcher must see a direct construction
    probe = ast.parse("def f():\n    raise SyntaxError('x')")
    if not [n for n in ast.walk(probe) if isinstance(n, ast.Call) and norm_stmt(n.func) in ERR_CLASSES]:
        raise AnalysisError("Y1 self-probe failed")
    for q, f in sorted(ix.funcs.items()):
        for n in own_nodes(f.node):
            if isinstance(n, ast.Call) and norm_stmt(n.func) in ERR_CLASSES:
                chk.count("Y1-error-ownership")
                from .. import helpers as _helpers
                q_owner = _helpers.owner(f.rel, ix.modules[f.rel], q) if f.rel in ix.modules else q
                key = f"{q_owner}:{norm_stmt(n.func)}({norm_stmt(n.args[0])[:50] if n.args else ''})"
                if q in BUILDERS:
                    chk.ok("Y1-error-ownership", key, f"{f.rel}:{n.lineno}")
                else:
                    has_pos = len(n.args) >= 2
                    chk.fail("Y1-error-ownership", key, f"{f.rel}:{n.lineno}",
                             f"{norm_stmt(n.func)} is constructed outside the error builders"
                             + ("" if has_pos else " and without any position (lineno/offset/text are None)")
                             + ": file name, 1-based column, end position and source text are not filled in the common way")
    # errors born inside ast.literal_eval carry the literal's own coordinates and file name
    gen = parse_py(repo.PARSER_X)
    sites = []
    for rel, mod in list(ix.modules.items()) + [(repo.PARSER_X, gen)]:
        for fn in ast.walk(mod):
            if isinstance(fn, ast.FunctionDef):
                for n in own_nodes(fn):
                    if isinstance(n, ast.Call) and norm_stmt(n.func) == "ast.literal_eval":
                        sites.append((rel, fn, n))
    for rel, fn, n in sites:
        chk.count("Y1-foreign-error")
        guarded = False
        for t in ast.walk(fn):
            if isinstance(t, ast.Try) and any(n is x for b in t.body for x in ast.walk(b)):
                for h in t.handlers:
                    if h.type is None or "SyntaxError" in norm_stmt(h.type) or "Exception" in norm_stmt(h.type):
                        guarded = True
        chk.require(guarded, "Y1-foreign-error", f"{fn.name}:{norm_stmt(n)}", f"{rel}:{n.lineno}",
                    "a SyntaxError raised inside ast.literal_eval (bad escape, oversized number, NUL) escapes with the "
                    "literal's own file name '<unknown>' and coordinates relative to the literal, not to the source")
    chk.floor("Y1-error-ownership", 2)
    # nothing else evaluates source text through the compiler (each such call would be another foreign-error site)
    for rel, mod in list(ix.modules.items()) + [(repo.PARSER_X, gen)]:
        for n in ast.walk(mod):
            if isinstance(n, ast.Call) and norm_stmt(n.func) in ("eval", "compile", "ast.parse", "exec"):
                chk.count("Y1-foreign-error")
                chk.fail("Y1-foreign-error", f"{rel}:{norm_stmt(n)[:40]}", f"{rel}:{n.lineno}",
                         f"`{norm_stmt(n)[:50]}` hands source text to the compiler: its errors carry their own coordinates")
    chk.floor("Y1-foreign-error", 1)


def _args_layout(fn: ast.FunctionDef) -> Optional[list[str]]:
    """The elements of the second argument of the error constructor: a tuple display, or a local built up from tuple displays
    by `=` and `+=`."""
    calls = [n for n in ast.walk(fn) if isinstance(n, ast.Call) and norm_stmt(n.func) in ERR_CLASSES and len(n.args) == 2]
    if len(calls) != 1:
        return None
    a = calls[0].args[1]
    if isinstance(a, ast.Tuple):
        return [norm_stmt(e) for e in a.elts]
    if not isinstance(a, ast.Name):
        return None
    elems: list[str] = []
    for st in fn.body:
        if isinstance(st, ast.Assign) and norm_stmt(st.targets[0]) == a.id:
            v = st.value
            parts = []
            while isinstance(v, ast.BinOp) and isinstance(v.op, ast.Add):
                parts.insert(0, v.right)
                v = v.left
            parts.insert(0, v)
            if not all(isinstance(x, ast.Tuple) for x in parts):
                return None
            elems = [norm_stmt(e) for x in parts for e in x.elts]
        elif isinstance(st, ast.AugAssign) and norm_stmt(st.target) == a.id and isinstance(st.value, ast.Tuple) \
                and isinstance(st.op, ast.Add):
            elems += [norm_stmt(e) for e in st.value.elts]
    return elems or None


def rule_y2(chk: Check, ix: Index):
    """Layout: (filename, line, column+1, text, end line, end column+1) in both constructors."""
    import re
    for q in sorted(BUILDERS):
        f = ix.get(q)
        lay = _args_layout(f.node)
        chk.count("Y2-args-layout")
        key = f"{q}:args"
        ok = False
        detail = f"args tuple not found or not six elements: {lay}"
        if lay and len(lay) == 6:
            m1 = re.fullmatch(r"(.+)\[0\]", lay[1])
            m2 = re.fullmatch(r"(.+)\[1\] \+ 1", lay[2])
            m4 = re.fullmatch(r"(.+)\[0\]", lay[4])
            m5 = re.fullmatch(r"(.+)\[1\] \+ 1", lay[5])
            ok = bool(lay[0] == "self.filename" and m1 and m2 and m4 and m5 and m1.group(1) == m2.group(1)
                      and m4.group(1) == m5.group(1))
            starts = m1.group(1) if m1 else "?"
            ends = m4.group(1) if m4 else "?"
            ok = ok and starts.endswith("start") and ends.endswith("end")
            detail = (f"args are {lay}; required (self.filename, S[0], S[1] + 1, text, E[0], E[1] + 1) with S a start and E "
                      f"an end position: token columns are 0-based, SyntaxError offsets 1-based, on both ends")
        chk.require(ok, "Y2-args-layout", key, f.where, detail)
        # the constructed exception receives (message, args)
        calls = [n for n in own_nodes(f.node) if isinstance(n, ast.Call) and norm_stmt(n.func) in ERR_CLASSES]
        chk.count("Y2-args-layout")
        chk.require(len(calls) == 1 and len(calls[0].args) == 2 and not calls[0].keywords,
                    "Y2-args-layout", f"{q}:ctor", f.where, "the error must be built as Error(message, args)")


def rule_y3(chk: Check, ix: Index):
    """Text provenance in _build_syntax_error."""
    f = ix.get("Parser._build_syntax_error")
    # decided by evaluating the builder on the four combinations of given / missing start and end, with a recording tokenizer:
    # whatever its shape, (file, line, column + 1, text, end line, end column + 1) must come out as specified
    import types as _t
    from .. import constfold
    tok = _t.SimpleNamespace(start=(7, 3), end=(8, 9), line="TOKEN LINE\n")

    class _Tk:
        def diagnose(self):
            return tok

        def get_lines(self, nums):
            return [f"<{n}>\n" for n in nums]
    me = _t.SimpleNamespace(_tokenizer=_Tk(), filename="FILE")
    # class-level literal constants of Parser are visible through `self`
    for cst in next((c.body for c in ast.walk(ix.modules[repo.SUBHEADER]) if isinstance(c, ast.ClassDef) and c.name == "Parser"), []):
        tgt = cst.targets[0] if isinstance(cst, ast.Assign) and len(cst.targets) == 1 else getattr(cst, "target", None)
        if isinstance(tgt, ast.Name) and getattr(cst, "value", None) is not None:
            try:
                setattr(me, tgt.id, ast.literal_eval(cst.value))
            except Exception:
                pass
    ev = constfold.builder_expr_eval(("diagnose", "get_lines", "join", "SyntaxError", "IndentationError"))
    params = [a.arg for a in f.node.args.args]
    for label, S, E in (("no-span", None, None), ("start-only", (5, 2), None), ("end-only", None, (9, 4)), ("both", (5, 2), (6, 1)),
                        ("end-at-column-0", (5, 2), (6, 0)), ("same-position", (5, 0), (5, 0)), ("end-only-column-0", None, (9, 0)),
                        ("long-range", (5, 2), (40, 1))):
        chk.count("Y3-text-provenance")
        try:
            err = constfold.eval_pure_function(f.node, {params[0]: me, params[1]: "MSG", params[2]: S, params[3]: E},
                                               extra={"SyntaxError": SyntaxError, "IndentationError": IndentationError}, expr_eval=ev)
        except constfold.PureEvalError as e:
            chk.undecided("Y3-text-provenance", f"_build_syntax_error:{label}", f.where, f"outside the evaluable subset: {e}")
            continue
        s0, e0 = S or tok.start, E or tok.end
        text = tok.line if (S is None and E is None) else "\\n".join(f"<{n}>\n" for n in range(s0[0], e0[0] + 1))
        want = ("MSG", ("FILE", s0[0], s0[1] + 1, text, e0[0], e0[1] + 1))
        got = getattr(err, "args", None)
        chk.require(isinstance(err, SyntaxError) and got == want, "Y3-text-provenance", f"_build_syntax_error:{label}", f.where,
                    f"with {label.replace('-', ' ')} the error must carry {want}; it carries {got}: a missing position defaults to the "
                    f"diagnosed token's, the text is that token's own line when no span is given and otherwise the lines start[0]..end[0] "
                    f"of the source, columns are 1-based on both ends")
    # raise sites give both positions, so that the text comes from the line store (a fabricated end-of-input token has no line)
    for q2, g in sorted(ix.funcs.items()):
        if g.cls != "Parser":
            continue
        for c in own_nodes(g.node):
            if isinstance(c, ast.Call) and norm_stmt(c.func) == "self._build_syntax_error":
                chk.count("Y3-text-provenance")
                n_pos = len(c.args) + sum(1 for k in c.keywords if k.arg in ("start", "end"))
                chk.require(n_pos >= 3 or g.node.name == "make_syntax_error", "Y3-text-provenance",
                            f"{q2}:{norm_stmt(c)[:50]}", f"{g.rel}:{c.lineno}",
                            "the error is built without a start and an end: its text is then the diagnosed token's own `line`, which is "
                            "empty for the NEWLINE fabricated at the end of input (`if x` without a final newline reports text '')")


def rule_positionless_wrappers(chk: Check, ix: Index):
    """`make_syntax_error(message)` builds an error without positions (upstream pegen's spelling); it is kept for compatibility and
    exempt at its definition, but a *use* of it from the parser's own code is a position-less build like any other."""
    wrappers = set()
    for q, g in ix.funcs.items():
        if g.cls == "Parser":
            for c in own_nodes(g.node):
                if isinstance(c, ast.Call) and norm_stmt(c.func) == "self._build_syntax_error":
                    n_pos = len(c.args) + sum(1 for k in c.keywords if k.arg in ("start", "end"))
                    if n_pos < 3:
                        wrappers.add(g.node.name)
    for q, g in sorted(ix.funcs.items()):
        if g.rel not in (repo.SUBHEADER, repo.PARSER_X):
            continue
        for c in own_nodes(g.node):
            if isinstance(c, ast.Call) and isinstance(c.func, ast.Attribute) and norm_stmt(c.func.value) == "self" and c.func.attr in wrappers \
                    and g.node.name not in wrappers:
                chk.count("Y3-text-provenance")
                chk.fail("Y3-text-provenance", f"{q}:{norm_stmt(c)[:50]}", f"{g.rel}:{c.lineno}",
                         f"`{q}` builds its error through `{c.func.attr}`, which gives no start and end: the text is then the diagnosed "
                         f"token's own `line`, empty for the NEWLINE fabricated at the end of input (`x = = 1` without a final newline "
                         f"reports text '')")


def _whole_text(e: ast.expr) -> str:
    """`text`, `text[0:]` / `text[:]` (a string's full slice is the string) and a conditional between such forms are one value."""
    if isinstance(e, ast.Subscript) and isinstance(e.slice, ast.Slice) and e.slice.upper is None and e.slice.step is None and \
            (e.slice.lower is None or (isinstance(e.slice.lower, ast.Constant) and e.slice.lower.value == 0)):
        return _whole_text(e.value)
    if isinstance(e, ast.IfExp):
        a, b = _whole_text(e.body), _whole_text(e.orelse)
        if a == b:
            return a
    return norm_stmt(e)


def rule_y3b(chk: Check, ix: Index):
    """The line cache maps a line number to the text of that very line: the only writes are
    `self._lines[tok.start[0]] = tok.line`, first writer wins."""
    writes = []
    for q, f in sorted(ix.funcs.items()):
        if f.cls != "Tokenizer" or f.node.name == "__init__":
            continue
        for n in own_nodes(f.node):
            if isinstance(n, ast.Assign) and any(isinstance(t, ast.Subscript) and norm_stmt(t.value) == "self._lines" for t in n.targets):
                writes.append((f, n, norm_stmt(n.targets[0].slice), _whole_text(n.value)))
            if isinstance(n, ast.Call) and isinstance(n.func, ast.Attribute) and norm_stmt(n.func.value) == "self._lines" \
                    and n.func.attr in ("setdefault", "update", "__setitem__"):
                writes.append((f, n, norm_stmt(n.args[0]) if n.args else "?", norm_stmt(n.args[1]) if len(n.args) > 1 else "?"))
    chk.count("Y3-line-cache")
    if not writes:
        chk.fail("Y3-line-cache", "Tokenizer:_lines-writes", repo.TOKENIZER, "the line cache is never filled")
        return
    from .. import physlines
    helper = physlines.rule_helper(chk, ix, "Y3-line-cache")
    for f, n, k, v in writes:
        chk.count("Y3-line-cache")
        ok = False
        if helper is not None:
            for loop, num, text in physlines.consumer_loops(f.node, helper):
                if any(n is x for st in loop.body for x in ast.walk(st)) and k == num and v == text:
                    ok = True
        chk.require(ok, "Y3-line-cache", f"{f.qual}:{norm_stmt(n)[:60]}", f"{f.rel}:{n.lineno}",
                    f"the cache entry for line `{k}` is filled with `{v}`; entries must be the (number, text) pairs of the physical lines "
                    f"of the token (all of them: a multi-line string's interior lines have no token of their own), first writer wins")


def _pos_source(e: ast.expr) -> Optional[tuple[str, str]]:
    """(object, 'start'|'end') for `x.start`, `x.end`, `(x.lineno, x.col_offset)`, `(x.end_lineno or 0, x.end_col_offset or 0)`."""
    if isinstance(e, ast.Attribute) and e.attr in ("start", "end"):
        return norm_stmt(e.value), e.attr
    if isinstance(e, ast.Tuple) and len(e.elts) == 2:
        parts = []
        for x in e.elts:
            if isinstance(x, ast.BoolOp) and isinstance(x.op, ast.Or):
                x = x.values[0]
            if not isinstance(x, ast.Attribute):
                return None
            parts.append((norm_stmt(x.value), x.attr))
        (o1, a1), (o2, a2) = parts
        if o1 == o2 and (a1, a2) == ("lineno", "col_offset"):
            return o1, "start"
        if o1 == o2 and (a1, a2) == ("end_lineno", "end_col_offset"):
            return o1, "end"
        return o1 + "/" + o2, "mixed:" + a1 + "," + a2
    return None


def rule_y4(chk: Check, ix: Index):
    """Every raise_* helper passes a coherent (start, end)."""
    for q, f in sorted(ix.funcs.items()):
        if f.cls != "Parser" or not (f.node.name.startswith("raise_") or f.node.name == "expect_forced"):
            continue
        defs: dict[str, list[ast.expr]] = {}
        for n in own_nodes(f.node):
            if isinstance(n, ast.Assign) and len(n.targets) == 1 and isinstance(n.targets[0], ast.Name):
                defs.setdefault(n.targets[0].id, []).append(n.value)

        def leaves(e: ast.expr, depth: int = 0) -> list[ast.expr]:
            if isinstance(e, ast.IfExp):
                return leaves(e.body, depth) + leaves(e.orelse, depth)
            if isinstance(e, ast.Name) and e.id in defs and depth < 4:
                return [x for v in defs[e.id] for x in leaves(v, depth + 1)]
            return [e]
        for n in own_nodes(f.node):
            if not (isinstance(n, ast.Call) and isinstance(n.func, ast.Attribute) and n.func.attr in ("_build_syntax_error", "make_syntax_error")
                    and norm_stmt(n.func.value) == "self"):
                continue
            bound = {k.arg: k.value for k in n.keywords if k.arg}
            for i, which in ((1, "start"), (2, "end")):
                e = n.args[i] if len(n.args) > i else bound.get(which)
                if e is None or (isinstance(e, ast.Constant) and e.value is None):
                    continue
                for leaf in leaves(e):
                    if isinstance(leaf, ast.Constant) and leaf.value is None:
                        continue
                    chk.count("Y4-coherent-span")
                    ps = _pos_source(leaf)
                    key = f"{q}:{which} = {norm_stmt(leaf)}"
                    if ps is None:
                        chk.undecided("Y4-coherent-span", key, f"{f.rel}:{n.lineno}", "position source not recognised")
                        continue
                    obj, kind = ps
                    good = kind == which or (which == "end" and kind == "start")  # `…starting_from` ends at the next token's start
                    chk.require(good and not kind.startswith("mixed"), "Y4-coherent-span", key, f"{f.rel}:{n.lineno}",
                                f"`{which}` is taken from {obj} ({kind}); line and column must come from the same object and a "
                                f"start must be a start position")
    chk.floor("Y4-coherent-span", 8)


def rule_y4b(chk: Check, ir):
    """Positions written out at a raise site in a grammar action: each (line, column) pair is the start or the end of one
    object — a start line combined with an end column (or two objects) points outside the reported line."""
    n = 0
    for rule, key, a in actions.all_alts(ir.rules):
        if a.action is None:
            continue
        for call in ast.walk(a.action):
            if not (isinstance(call, ast.Call) and isinstance(call.func, ast.Attribute) and call.func.attr.startswith("raise_")):
                continue
            tuples = [x for x in call.args[1:] if isinstance(x, ast.Tuple)] + [k.value for k in call.keywords if isinstance(k.value, ast.Tuple)]
            for i, t in enumerate(tuples):
                n += 1
                chk.count("Y4-coherent-span")
                ps = _pos_source(t)
                k2 = f"{key}:{call.func.attr}:{norm_stmt(t)}"
                if ps is None:
                    chk.fail("Y4-coherent-span", k2, str(a.pos),
                             f"position `{norm_stmt(t)}` is not the (line, column) of one end of one object (arithmetic on a column "
                             f"or a mix of attributes): it can point outside the reported line")
                    continue
                obj, kind = ps
                want = "start" if i == 0 else "end"
                chk.require(not kind.startswith("mixed") and (kind == want or (want == "end" and kind == "start")), "Y4-coherent-span", k2, str(a.pos),
                            f"argument {i + 1} of {call.func.attr} is taken from {obj} ({kind}); line and column must come from the same "
                            f"end of the same object and the first position must be a start")
    chk.units["explicit_position_tuples_at_raise_sites"] = n


def rule_y5(chk: Check, ir):
    """Range errors are raised with the earlier item first (end not before start)."""
    for rule, key, a in actions.all_alts(ir.rules):
        if a.action is None:
            continue
        caps = actions.capture_names(a)
        for call in ast.walk(a.action):
            if isinstance(call, ast.Call) and isinstance(call.func, ast.Attribute) and \
                    call.func.attr == "raise_syntax_error_known_range" and len(call.args) == 3:
                s, e = call.args[1], call.args[2]
                fs, fe = actions.free_captures(s, caps), actions.free_captures(e, caps)
                if len(fs) != 1 or len(fe) != 1:
                    continue
                cs, ce = next(iter(fs)), next(iter(fe))
                chk.count("Y5-range-order")
                chk.require(caps[cs] <= caps[ce], "Y5-range-order", f"{key}:{cs}->{ce}", str(a.pos),
                            f"range error from `{cs}` to `{ce}`, but `{ce}` is matched before `{cs}` in `{a}`: the end would lie "
                            f"before the start")
    chk.floor("Y5-range-order", 15)


def run(chk: Check):
    _run(chk)
    from .c03 import rule_e9
    from ..pyflow import Index as _Ix
    rule_e9(chk, _Ix())  # an error object that cannot be constructed is not a well-formed error
    from .c12 import rule_source_verbatim
    from ..pyflow import Index as _Ix
    rule_source_verbatim(chk, _Ix())   # spans and error text refer to the caller's text

def _run(chk: Check):
    chk.explanation = (
        "Ownership and layout rules over the ~200 lines of error plumbing: SyntaxError/IndentationError are constructed only "
        "by the two builders, whose argument tuples have the CPython layout with both 0->1-based column conversions; the text "
        "comes from the reported token or from the reported line range; every raise_* helper passes a coherent start/end; range "
        "errors name the earlier item first; errors born inside ast.literal_eval are intercepted. The behaviour for every "
        "rejected input follows because every reachable raise of these classes goes through the checked builders.")
    chk.trusted = ["xpverif.pyflow", "xpverif.pyir"]
    chk.assumptions = ["token coordinates themselves are right (C08)", "the line lookup is total (rule E3-line-lookup of C03)"]
    ix = Index()
    rule_y1(chk, ix)
    rule_positionless_wrappers(chk, ix)
    rule_y2(chk, ix)
    rule_y3(chk, ix)
    rule_y3b(chk, ix)
    rule_y4(chk, ix)
    rule_y4b(chk, repo.ir_x())
    rule_y5(chk, repo.ir_x())
    # the reported text comes from the line cache and from how lines are split: a cache shared between parsers (C13 U2/U3) or a
    # newline mode that differs between the entry points (C12 Z2/Z3/Z4) makes `text` and line numbers wrong
    from .c12 import rule_z2_z3, rule_z4
    from .c13 import rule_u2, rule_u3
    rule_z2_z3(chk, ix)
    rule_z4(chk, ix)
    rule_u2(chk)
    rule_u3(chk, ix)
    from .. import typed
    # errors "at a node" report that node's span: line and column of each end come from one object, start before end
    typed.run().feed(chk, {"A5-loc-key": "A5-loc-key", "A5-loc-pair": "A5-loc-pair", "A5-loc-order": "A5-loc-order", "S4-location": "S4-location"})
    from .c08 import rule_l1, rule_l5
    rule_l5(chk, ix)
    rule_l1(chk, ix)   # error positions are token positions
    from .. import constfold, macros
    from .c02 import rule_path_literal_gate, rule_path_literal_wrap
    from .c09 import rule_k1
    macros.rule_n2(chk, ix, repo.ir_x())   # a stale path-literal marker relocates later string nodes (and the errors reported at them)
    rule_path_literal_gate(chk)
    rule_path_literal_wrap(chk)
    rule_k1(chk, constfold.fold_tokenize(), False)   # what reaches ast.literal_eval is what the number patterns let through
    chk.units["functions"] = len(ix.funcs)
