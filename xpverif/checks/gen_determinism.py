"""Facts about the *generator sources* that C16 can decide without running them:

GF1  hash-order lint: iteration over a set (or picking from one) may only feed order-insensitive consumers
GF2  keyword classification: the regex that decides "this literal is a keyword" is the identifier language
GF3  truthiness wrapping: the call text emitted for `x*` / `[x]` ends in a comma (a one-tuple, always true) and the one for
     `x+` / gathers does not
GF4  keyword tables are emitted through sorted()
GF5  decorator emission: @memoize_left_rec for leaders, @logger for other left-recursive rules, @memoize otherwise / on (memo)
"""
from __future__ import annotations

import ast
from typing import Optional

from .. import rx
from ..common import AnalysisError, Check, norm_stmt, parse_py

GEN_FILES = ("tasks/generator.py", "pegen/parser_generator.py", "pegen/python_generator.py", "pegen/grammar.py",
             "pegen/sccutils.py", "pegen/build.py", "pegen/__main__.py")
INSENSITIVE_CONSUMERS = {"sorted", "set", "frozenset", "len", "min", "max", "any", "all", "sum"}
SET_MUTATORS = {"add", "update", "discard", "difference_update", "intersection_update", "setdefault"}

# Hash-order dependent iterations that were read and found harmless; (file, function, iterated expression) -> reason
REVIEWED = {
    ("pegen/sccutils.py", "dfs", "edges[v]"): "visit order only changes the order in which components are yielded, never their membership; the consumer folds over them with flag stores",
    ("pegen/sccutils.py", "strongly_connected_components", "vertices"): "same: order of yielded components only",
    ("pegen/sccutils.py", "dfs", "graph[node]"): "order of yielded cycles only; the consumer intersects candidate sets, which is order-independent",
    ("pegen/sccutils.py", "topsort", "set.union(*data.values()) - set(data.keys())"): "topsort is not on the generation path",
    ("pegen/parser_generator.py", "make_first_graph", "vertices"): "only adds empty entries for vertices without outgoing edges; dict order feeds the SCC search whose result is order-independent",
}


def _is_set_annotation(a: Optional[ast.expr]) -> bool:
    if a is None:
        return False
    s = norm_stmt(a)
    return s.lower().startswith(("set[", "abstractset[", "frozenset[", "typing.set[")) or s in ("set", "Set", "AbstractSet")


def _is_dict_of_sets(a: Optional[ast.expr]) -> bool:
    if a is None:
        return False
    s = norm_stmt(a).replace(" ", "")
    return s.lower().startswith("dict[") and ("set[" in s.lower().split(",", 1)[-1])


class _SetTyper:
    def __init__(self, mod: ast.Module):
        self.set_returning = {n.name for n in ast.walk(mod) if isinstance(n, ast.FunctionDef) and _is_set_annotation(n.returns)}
        self.attr_sets: set[str] = set()
        for n in ast.walk(mod):
            if isinstance(n, ast.AnnAssign) and isinstance(n.target, ast.Attribute) and _is_set_annotation(n.annotation):
                self.attr_sets.add(n.target.attr)
            if isinstance(n, ast.Assign) and isinstance(n.targets[0], ast.Attribute) and self._literal_set(n.value):
                self.attr_sets.add(n.targets[0].attr)

    @staticmethod
    def _literal_set(v: ast.expr) -> bool:
        return isinstance(v, (ast.Set, ast.SetComp)) or (isinstance(v, ast.Call) and norm_stmt(v.func) in ("set", "frozenset"))

    def function_env(self, fn: ast.FunctionDef, outer: tuple[set, set]) -> tuple[set, set]:
        sets, dict_of_sets = set(outer[0]), set(outer[1])
        for a in fn.args.args + fn.args.kwonlyargs:
            if _is_set_annotation(a.annotation):
                sets.add(a.arg)
            if _is_dict_of_sets(a.annotation):
                dict_of_sets.add(a.arg)
        for n in ast.walk(fn):
            if isinstance(n, ast.AnnAssign) and isinstance(n.target, ast.Name):
                if _is_set_annotation(n.annotation):
                    sets.add(n.target.id)
                if _is_dict_of_sets(n.annotation):
                    dict_of_sets.add(n.target.id)
            if isinstance(n, ast.Assign) and len(n.targets) == 1 and isinstance(n.targets[0], ast.Name):
                v = n.value
                if self._literal_set(v) or (isinstance(v, ast.Call) and isinstance(v.func, ast.Name) and v.func.id in self.set_returning) \
                        or (isinstance(v, ast.Call) and isinstance(v.func, ast.Attribute) and v.func.attr in self.set_returning) \
                        or (isinstance(v, ast.BinOp) and isinstance(v.op, (ast.Sub, ast.BitOr, ast.BitAnd)) and self.is_set(v.left, sets, dict_of_sets)):
                    sets.add(n.targets[0].id)
                if isinstance(v, ast.DictComp) and self._literal_set(v.value):
                    dict_of_sets.add(n.targets[0].id)
        return sets, dict_of_sets

    def is_set(self, e: ast.expr, sets: set, dict_of_sets: set) -> bool:
        if self._literal_set(e):
            return True
        if isinstance(e, ast.Name):
            return e.id in sets
        if isinstance(e, ast.Attribute):
            return e.attr in self.attr_sets
        if isinstance(e, ast.Subscript) and isinstance(e.value, ast.Name):
            return e.value.id in dict_of_sets
        if isinstance(e, ast.Call):
            f = e.func
            name = f.id if isinstance(f, ast.Name) else (f.attr if isinstance(f, ast.Attribute) else "")
            return name in self.set_returning
        if isinstance(e, ast.BinOp) and isinstance(e.op, (ast.Sub, ast.BitOr, ast.BitAnd)):
            return self.is_set(e.left, sets, dict_of_sets)
        return False


def _body_insensitive(stmts, loopvars: set[str]) -> bool:
    for st in stmts:
        if isinstance(st, ast.Expr) and isinstance(st.value, ast.Call) and isinstance(st.value.func, ast.Attribute) \
                and st.value.func.attr in SET_MUTATORS and st.value.func.attr != "setdefault":
            continue
        if isinstance(st, ast.AugAssign) and isinstance(st.op, (ast.Sub, ast.BitOr, ast.BitAnd)):
            continue
        if isinstance(st, ast.Assign) and all(isinstance(t, ast.Attribute) for t in st.targets) and isinstance(st.value, ast.Constant):
            continue  # idempotent flag stores such as rules[name].left_recursive = True
        if isinstance(st, ast.If) and _body_insensitive(st.body, loopvars) and _body_insensitive(st.orelse, loopvars):
            continue
        if isinstance(st, ast.For) and _body_insensitive(st.body, loopvars):
            continue
        if isinstance(st, ast.Raise) or isinstance(st, ast.Pass):
            continue
        return False
    return True


def rule_gf1(chk: Check):
    for rel in GEN_FILES:
        mod = parse_py(rel)
        typer = _SetTyper(mod)

        def visit_fn(fn: ast.FunctionDef, outer):
            env = typer.function_env(fn, outer)
            sets, dos = env
            nested = [n for n in ast.walk(fn) if isinstance(n, ast.FunctionDef) and n is not fn]
            nested_nodes = {id(x) for nf in nested for x in ast.walk(nf)}
            for n in ast.walk(fn):
                if id(n) in nested_nodes and n not in nested:
                    continue
                site = None
                if isinstance(n, ast.For) and typer.is_set(n.iter, sets, dos):
                    lv = {x.id for x in ast.walk(n.target) if isinstance(x, ast.Name)}
                    site = (n.iter, _body_insensitive(n.body, lv), f"for … in {norm_stmt(n.iter)}")
                elif isinstance(n, ast.comprehension) and typer.is_set(n.iter, sets, dos):
                    site = (n.iter, None, f"comprehension over {norm_stmt(n.iter)}")
                elif isinstance(n, ast.Call):
                    f = n.func
                    name = f.id if isinstance(f, ast.Name) else (f.attr if isinstance(f, ast.Attribute) else "")
                    if name == "pop" and isinstance(f, ast.Attribute) and typer.is_set(f.value, sets, dos) and not n.args:
                        site = (f.value, False, f"{norm_stmt(n)} picks an arbitrary element")
                    elif name in ("list", "tuple", "next", "iter", "enumerate", "join") and n.args and typer.is_set(
                            n.args[0].value if isinstance(n.args[0], ast.Starred) else n.args[0], sets, dos):
                        site = (n.args[0], False, f"{norm_stmt(n)[:60]}")
                    elif any(isinstance(a, ast.Starred) and typer.is_set(a.value, sets, dos) for a in n.args) and name not in INSENSITIVE_CONSUMERS:
                        site = (n, False, f"{norm_stmt(n)[:60]} unpacks a set")
                if site is None:
                    continue
                it, insensitive, desc = site
                chk.count("GF1-hash-order")
                key = f"{rel}:{fn.name}:{norm_stmt(it)[:60]}"
                where = f"{rel}:{getattr(it, 'lineno', fn.lineno)}"
                if insensitive is None:
                    # comprehension: fine when it builds a set/dict or feeds an order-insensitive consumer
                    parent_ok = any(isinstance(p, (ast.SetComp, ast.DictComp)) and n in p.generators for p in ast.walk(fn)) or any(
                        isinstance(p, ast.Call) and isinstance(p.func, ast.Name) and p.func.id in INSENSITIVE_CONSUMERS and p.args
                        and isinstance(p.args[0], (ast.GeneratorExp, ast.ListComp)) and n in p.args[0].generators for p in ast.walk(fn))
                    insensitive = parent_ok
                if insensitive:
                    chk.ok("GF1-hash-order", key, where)
                elif (rel, fn.name, norm_stmt(it)) in REVIEWED:
                    chk.ok("GF1-hash-order", key, where, "reviewed: " + REVIEWED[(rel, fn.name, norm_stmt(it))])
                else:
                    chk.fail("GF1-hash-order", key, where,
                             f"{desc}: the generator's output would depend on set iteration order, i.e. on PYTHONHASHSEED "
                             f"(generation is no longer deterministic across runs)")
            for nf in [x for x in fn.body if isinstance(x, ast.FunctionDef)]:
                visit_fn(nf, env)

        for top in mod.body:
            if isinstance(top, ast.FunctionDef):
                visit_fn(top, (set(), set()))
            elif isinstance(top, ast.ClassDef):
                for m in top.body:
                    if isinstance(m, ast.FunctionDef):
                        visit_fn(m, (set(), set()))
    chk.floor("GF1-hash-order", 3)


def _find_method(mod: ast.Module, cls: str, name: str) -> Optional[ast.FunctionDef]:
    for c in mod.body:
        if isinstance(c, ast.ClassDef) and c.name == cls:
            for m in c.body:
                if isinstance(m, ast.FunctionDef) and m.name == name:
                    return m
    return None


def rule_gf2(chk: Check):
    mod = parse_py("pegen/python_generator.py")
    fn = _find_method(mod, "PythonCallMakerVisitor", "visit_StringLeaf")
    if fn is None:
        raise AnalysisError("PythonCallMakerVisitor.visit_StringLeaf vanished")
    pats = [n.args[0].value for n in ast.walk(fn) if isinstance(n, ast.Call) and norm_stmt(n.func) in ("re.match", "re.fullmatch")
            and n.args and isinstance(n.args[0], ast.Constant) and isinstance(n.args[0].value, str)]
    chk.count("GF2-keyword-regex")
    if len(pats) != 1:
        chk.fail("GF2-keyword-regex", "visit_StringLeaf:pattern", f"pegen/python_generator.py:{fn.lineno}",
                 "the literal-is-a-keyword test is no longer a single regular expression")
        return
    try:
        an = rx.Analysis({"gen": pats[0], "ident": r"[a-zA-Z_]\w*\Z"})
        diff = an.witness_difference("gen", "ident")
    except rx.Unsupported as e:
        raise AnalysisError(f"keyword regex not analysable: {e}")
    chk.require(diff is None, "GF2-keyword-regex", "visit_StringLeaf:pattern", f"pegen/python_generator.py:{fn.lineno}",
                f"a quoted literal is classified as a keyword by `{pats[0]}`, which differs from the identifier language on "
                f"{diff[0]!r}: the KEYWORDS/SOFT_KEYWORDS tables the generator emits would change" if diff else "")


def _ends_with_comma(e: ast.expr, fn: ast.FunctionDef) -> Optional[bool]:
    if isinstance(e, ast.Constant) and isinstance(e.value, str):
        return e.value.endswith(",")
    if isinstance(e, ast.JoinedStr) and e.values:
        last = e.values[-1]
        if isinstance(last, ast.Constant):
            return str(last.value).endswith(",")
        return False
    if isinstance(e, ast.BinOp) and isinstance(e.op, ast.Add):
        return _ends_with_comma(e.right, fn)
    if isinstance(e, ast.Name):
        defs = [n.value for n in ast.walk(fn) if isinstance(n, ast.Assign) and any(isinstance(t, ast.Name) and t.id == e.id for t in n.targets)]
        vals = {_ends_with_comma(d, fn) for d in defs}
        return vals.pop() if len(vals) == 1 else None
    if isinstance(e, ast.Call):
        return False  # f"self.{name}()" built elsewhere: a call text ends in ')'
    return None


def _emitted_call_exprs(fn: ast.FunctionDef) -> list[ast.expr]:
    """Second components of the (name, call) pairs a visit_* method produces (returned or stored in the cache)."""
    out = []
    for n in ast.walk(fn):
        v = None
        if isinstance(n, ast.Return) and isinstance(n.value, ast.Tuple) and len(n.value.elts) == 2:
            v = n.value.elts[1]
        elif isinstance(n, ast.Assign) and isinstance(n.value, ast.Tuple) and len(n.value.elts) == 2 and \
                any("cache" in norm_stmt(t) for t in n.targets):
            v = n.value.elts[1]
        if v is not None:
            out.append(v)
    return out


def rule_gf3(chk: Check):
    want = {"visit_Repeat0": True, "visit_Repeat1": False, "visit_Gather": False}
    for rel, cls in (("pegen/python_generator.py", "PythonCallMakerVisitor"), ("tasks/generator.py", "XonshCallMakerVisitor")):
        mod = parse_py(rel)
        for meth, comma in want.items():
            fn = _find_method(mod, cls, meth)
            if fn is None:
                continue
            exprs = _emitted_call_exprs(fn)
            chk.count("GF3-truthiness-comma")
            vals = {_ends_with_comma(e, fn) for e in exprs}
            ok = bool(exprs) and vals == {comma}
            chk.require(ok, "GF3-truthiness-comma", f"{rel}:{cls}.{meth}", f"{rel}:{fn.lineno}",
                        f"the call text for `{'x*' if meth == 'visit_Repeat0' else ('x+' if meth == 'visit_Repeat1' else 's.x+')}` must "
                        f"{'end in a comma (one-tuple: an empty repetition still succeeds)' if comma else 'not end in a comma (an empty result must fail)'}"
                        f"; found endings {sorted(map(str, vals))}: regenerating would change the shipped parser")
    # visit_Opt: adds the comma unless already present
    mod = parse_py("pegen/python_generator.py")
    fn = _find_method(mod, "PythonCallMakerVisitor", "visit_Opt")
    chk.count("GF3-truthiness-comma")
    ok = False
    if fn is not None:
        ifs = [n for n in ast.walk(fn) if isinstance(n, ast.If) and "endswith(',')" in norm_stmt(n.test)]
        if len(ifs) == 1:
            a = [_ends_with_comma(r.value.elts[1], fn) for r in ast.walk(ifs[0]) if isinstance(r, ast.Return) and isinstance(r.value, ast.Tuple)]
            els = [r for s in ifs[0].orelse for r in ast.walk(s) if isinstance(r, ast.Return) and isinstance(r.value, ast.Tuple)]
            ok = bool(els) and all(_ends_with_comma(r.value.elts[1], fn) is True for r in els)
    chk.require(ok, "GF3-truthiness-comma", "pegen/python_generator.py:PythonCallMakerVisitor.visit_Opt",
                f"pegen/python_generator.py:{fn.lineno if fn else 0}",
                "an optional item must be emitted as a one-tuple (trailing comma) unless its call text already ends in one")


def rule_gf4_gf5(chk: Check):
    for rel, cls in (("pegen/python_generator.py", "PythonParserGenerator"), ("tasks/generator.py", "XonshParserGenerator")):
        mod = parse_py(rel)
        gen = _find_method(mod, cls, "generate")
        if gen is None:
            raise AnalysisError(f"{cls}.generate vanished")
        for table in ("keywords", "soft_keywords"):
            chk.count("GF4-sorted-tables")
            ok = any(isinstance(n, ast.Call) and norm_stmt(n.func) == "sorted" and n.args and norm_stmt(n.args[0]).endswith(f".{table}")
                     for n in ast.walk(gen))
            chk.require(ok, "GF4-sorted-tables", f"{rel}:{cls}.generate:{table}", f"{rel}:{gen.lineno}",
                        f"the {table} table is a set and must be emitted through sorted()")
        vr = _find_method(mod, cls, "visit_Rule")
        chk.count("GF5-decorator-emission")
        if vr is None:
            raise AnalysisError(f"{cls}.visit_Rule vanished")
        # decided by evaluating the statements of visit_Rule that precede the emission of the `def` line over all combinations of
        # (left_recursive, leader, memo): whatever the shape of the decision (if/elif chain, helper returning the text, table)
        import types
        from .c17 import Classes, EvalError, _mini_eval
        C = Classes()
        prefix = []
        for st in vr.body:
            if any(isinstance(c, ast.Call) and norm_stmt(c.func) == "self.print" and c.args and
                   (norm_stmt(c.args[0]).lstrip("f").strip("'\"").startswith("def ")) for c in ast.walk(st)):
                break
            prefix.append(st)
        fake_fn = ast.FunctionDef(name="prefix", args=vr.args, body=prefix or [ast.Pass()], decorator_list=[], returns=None, type_params=[])
        ast.fix_missing_locations(fake_fn)
        bad, und = [], ""
        for lr in (False, True):
            for leader in (False, True):
                for memo in (False, True):
                    printed: list = []

                    class Me:
                        cleanup_statements: list = []

                        def print(self, *a):
                            printed.append(" ".join(str(x) for x in a))

                        def __getattr__(self, name):
                            r = C.resolve(cls, name)
                            if r is None:
                                raise AttributeError(name)
                            fn = r[2]
                            static = any(norm_stmt(d) == "staticmethod" for d in fn.decorator_list)

                            def call(*args):
                                params = [a.arg for a in fn.args.args]
                                env = dict(zip(params, args if static else (self,) + args))
                                return _mini_eval(fn, env, allowed)
                            return call
                    node = types.SimpleNamespace(left_recursive=lr, leader=leader, memo=memo, name="r", type=None, nullable=False,
                                                 is_loop=lambda: False, is_gather=lambda: False, flatten=lambda: None, rhs=None)
                    allowed = {"print", "is_loop", "is_gather", "flatten", "endswith", "append"} | {m for m in C.methods(cls)}
                    try:
                        _mini_eval(fake_fn, {"self": Me(), "node": node}, allowed)
                    except EvalError as e:
                        und = str(e)
                        break
                    got = [x for x in printed if x.startswith("@")]
                    if lr:
                        want = ["@memoize_left_rec"] if leader else ["@logger"]
                    elif cls == "XonshParserGenerator":
                        want = ["@memoize"] if memo else []
                    else:
                        want = ["@memoize"]
                    if got != want:
                        bad.append(((lr, leader, memo), got))
        key = f"{rel}:{cls}.visit_Rule"
        if und:
            chk.undecided("GF5-decorator-emission", key, f"{rel}:{vr.lineno}", f"decorator decision not evaluable: {und}")
        else:
            chk.require(not bad, "GF5-decorator-emission", key, f"{rel}:{vr.lineno}",
                        "decorators must be emitted as: @memoize_left_rec for the leader of a left-recursive group, @logger for its other "
                        "members, and @memoize " + ("only for (memo) rules" if cls == "XonshParserGenerator" else "for every other rule") +
                        f"; for (left_recursive, leader, memo) = {bad[:2]}")


def rule_gf6(chk: Check):
    """GF6: helper rules (`_tmp_N`) are shared between groups only when the groups generate the same code.  The generators
    keep a cache from a *description* of the group to the helper; the description must distinguish capture names and actions
    (they end up in the helper's body).  In pegen, `repr()` of Rhs/Alt/NamedItem shows both, `str()` hides names and actions
    (SIMPLE_STR) — decided by reading the two methods of each class, not assumed."""
    gram = parse_py("pegen/grammar.py")
    simple = any(isinstance(n, ast.Assign) and norm_stmt(n.targets[0]) == "SIMPLE_STR" and isinstance(n.value, ast.Constant)
                 and n.value.value is True for n in gram.body)

    def shows(cls: str, meth: str, attr: str) -> bool:
        fn = _find_method(gram, cls, meth)
        if fn is None:
            return False
        for n in ast.walk(fn):
            if isinstance(n, ast.Attribute) and n.attr == attr and isinstance(n.value, ast.Name) and n.value.id == "self":
                # shown unconditionally, or under a test that does not mention SIMPLE_STR
                guarded = any(isinstance(i, ast.If) and "SIMPLE_STR" in norm_stmt(i.test) and any(n is x for x in ast.walk(i))
                              for i in ast.walk(fn))
                if not (guarded and simple):
                    return True
        return False

    injective = {"repr": shows("Alt", "__repr__", "action") and shows("NamedItem", "__repr__", "name"),
                 "str": shows("Alt", "__str__", "action") and shows("NamedItem", "__str__", "name")}
    n_sites = 0
    for rel, cls in (("tasks/generator.py", "XonshParserGenerator"), ("pegen/parser_generator.py", "ParserGenerator")):
        mod = parse_py(rel)
        fn = _find_method(mod, cls, "artifical_rule_from_rhs")
        if fn is None:
            continue
        keys = []
        for n in ast.walk(fn):
            if isinstance(n, ast.Call) and isinstance(n.func, ast.Attribute) and n.func.attr in ("get", "setdefault") and \
                    "cache" in norm_stmt(n.func.value) and n.args:
                keys.append(n.args[0])
            if isinstance(n, ast.Subscript) and "cache" in norm_stmt(n.value):
                keys.append(n.slice)
        for k in keys:
            n_sites += 1
            chk.count("GF6-helper-identity")
            if isinstance(k, ast.Name):
                # a local bound once to the description (`key = repr(rhs)`)
                defs = [a.value for a in ast.walk(fn) if isinstance(a, ast.Assign) and len(a.targets) == 1 and norm_stmt(a.targets[0]) == k.id]
                if len(defs) == 1:
                    k = ast.copy_location(defs[0], k)
            f = norm_stmt(k.func) if isinstance(k, ast.Call) else None
            ok = f in injective and injective[f]
            chk.require(ok, "GF6-helper-identity", f"{rel}:{cls}.artifical_rule_from_rhs:{norm_stmt(k)}", f"{rel}:{k.lineno}",
                        f"groups are shared by the key `{norm_stmt(k)}`, which does not show capture names and actions: two groups that "
                        f"differ only there collapse onto one helper and the regenerated parser differs from the shipped one")
    chk.units["helper_cache_keys"] = n_sites


def rule_gf7_gf8(chk: Check):
    """GF7: generator classes keep no class-level mutable containers (a second generation in the same process would start
    from the first one's helper cache).  GF8: when a grammar defines a rule name twice (xonsh.gram does, for `fstring`), the
    later definition wins — the shipped parser was generated that way."""
    n = 0
    for rel in ("tasks/generator.py", "pegen/parser_generator.py", "pegen/python_generator.py", "pegen/grammar.py"):
        mod = parse_py(rel)
        for cls in [c for c in ast.walk(mod) if isinstance(c, ast.ClassDef)]:
            for st in cls.body:
                val = name = None
                if isinstance(st, ast.Assign) and isinstance(st.targets[0], ast.Name):
                    name, val = st.targets[0].id, st.value
                elif isinstance(st, ast.AnnAssign) and isinstance(st.target, ast.Name) and st.value is not None:
                    name, val = st.target.id, st.value
                if name is None:
                    continue
                n += 1
                chk.count("GF7-generator-state")
                mutable = isinstance(val, (ast.List, ast.Dict, ast.Set, ast.ListComp, ast.DictComp, ast.SetComp)) or (
                    isinstance(val, ast.Call) and norm_stmt(val.func) in ("list", "dict", "set", "defaultdict", "deque", "Counter"))
                chk.require(not mutable, "GF7-generator-state", f"{rel}:{cls.name}.{name}", f"{rel}:{st.lineno}",
                            f"`{cls.name}.{name}` is a class-level mutable container: generator instances share it, so what a second run "
                            f"in the same process emits depends on the first")
    chk.count("GF7-generator-state")
    chk.ok("GF7-generator-state", "classes-scanned", "pegen/", f"{n} class attributes")
    gram = parse_py("pegen/grammar.py")
    init = _find_method(gram, "Grammar", "__init__")
    chk.count("GF8-last-definition-wins")
    ok = False
    if init is not None:
        for st in ast.walk(init):
            if isinstance(st, ast.Assign) and norm_stmt(st.targets[0]) == "self.rules" and isinstance(st.value, ast.DictComp) and \
                    norm_stmt(st.value.key).endswith(".name"):
                ok = True
            if isinstance(st, ast.Assign) and isinstance(st.targets[0], ast.Subscript) and norm_stmt(st.targets[0].value) == "self.rules":
                ok = True
        if any(isinstance(c, ast.Call) and norm_stmt(c.func) == "self.rules.setdefault" for c in ast.walk(init)):
            ok = False
    chk.require(ok, "GF8-last-definition-wins", "pegen/grammar.py:Grammar.__init__", f"pegen/grammar.py:{init.lineno if init else 0}",
                "the rule table must be filled so that a later definition of a name replaces an earlier one (plain dict insertion); "
                "the grammars in this repository define `fstring` twice and the shipped parser follows the later definition")


def _module_literals(rel: str) -> dict:
    """Module-level names bound to a literal: named constants a method may test against."""
    from .c17 import module_pure_constants
    return {k: v for k, v in module_pure_constants(rel).items() if isinstance(v, (str, int, tuple, frozenset, set, list, dict))}


def rule_gf9_11(chk: Check):
    """GF9: once a rule has registered clean-up statements, every `return` it emits goes through add_return (which emits them
    first); the one direct emission is the compact `return self.seq_alts(...)` form taken before anything else is printed.
    GF10: the cycle search of a left-recursive component keeps self-edges (a rule that calls itself first is its own cycle and
    decides who the leader is).  GF11: how a grammar NAME leaf becomes a call — evaluated over the finite set of leaf kinds."""
    import types
    from .. import constfold
    mod = parse_py("tasks/generator.py")
    vr = _find_method(mod, "XonshParserGenerator", "visit_Rule")
    chk.count("GF9-return-through-cleanup")
    if vr is None:
        raise AnalysisError("XonshParserGenerator.visit_Rule vanished")
    direct = [n for n in ast.walk(vr) if isinstance(n, ast.Call) and norm_stmt(n.func) == "self.print" and n.args and
              norm_stmt(n.args[0]).lstrip("f").strip("'\"").startswith("return")]
    ok = all(norm_stmt(d.args[0]) in ("f'return {call}'",) for d in direct) and len(direct) <= 1
    chk.require(ok, "GF9-return-through-cleanup", "tasks/generator.py:XonshParserGenerator.visit_Rule", f"tasks/generator.py:{vr.lineno}",
                f"visit_Rule prints a `return` directly ({[norm_stmt(d.args[0]) for d in direct]}): statements registered for clean-up "
                f"(restoring call_invalid_rules in *_without_invalid rules) are skipped on that path of the generated method")
    scc = parse_py("pegen/sccutils.py")
    fn = next((n for n in ast.walk(scc) if isinstance(n, ast.FunctionDef) and n.name == "find_cycles_in_scc"), None)
    chk.count("GF10-self-edges")
    ok = False
    if fn is not None:
        for n in ast.walk(fn):
            if isinstance(n, ast.Assign) and norm_stmt(n.targets[0]) == "graph" and isinstance(n.value, ast.DictComp) and \
                    isinstance(n.value.value, ast.SetComp):
                conds = [norm_stmt(c) for g in n.value.value.generators for c in g.ifs]
                ok = conds in (["dst in scc"], [])
    chk.require(ok, "GF10-self-edges", "pegen/sccutils.py:find_cycles_in_scc", f"pegen/sccutils.py:{fn.lineno if fn else 0}",
                "the graph handed to the cycle search must keep every edge inside the component, self-edges included: dropping them "
                "changes which rules count as cycle-breaking leaders (`primary` would lose @memoize_left_rec to `func_macro_start`)")
    # GF11
    leaf = _find_method(mod, "XonshCallMakerVisitor", "visit_NameLeaf")
    chk.count("GF11-name-leaf")
    if leaf is None:
        raise AnalysisError("XonshCallMakerVisitor.visit_NameLeaf vanished")

    class FakeEnum(dict):
        @property
        def __members__(self):
            return self

    from .. import repo as _repo
    members = sorted(_repo.token_enum_names())      # the tokenizer's Token enum, read from its definition
    toks = [t for t in members if t not in ("SOFT_KEYWORD", "KEYWORD", "ANY_TOKEN")]
    canon = _repo.token_enum_canonical()
    enum = FakeEnum({t: types.SimpleNamespace(name=canon.get(t, t)) for t in members})
    gen = types.SimpleNamespace(tokens=set(members) | {"SOFT_KEYWORD", "KEYWORD", "ANY_TOKEN"}, tokens_enum=enum)
    me = types.SimpleNamespace(gen=gen)
    bad = []
    for name in toks + ["SOFT_KEYWORD", "KEYWORD", "ANY_TOKEN", "expression", "star_targets", "t_primary"]:
        if name in ("SOFT_KEYWORD", "KEYWORD", "NAME", "ANY_TOKEN"):
            want = (name.lower(), f"self.{name.lower()}()")
        elif name in toks:
            want = ("_" + name.lower(), f"self.token('{name}')")
        else:
            want = (name, f"self.{name}()")
        try:
            got = constfold.eval_pure_function(leaf, {"self": me, "node": types.SimpleNamespace(value=name)},
                                               data_attrs=("gen", "tokens", "tokens_enum", "name", "value", "__members__"),
                                               extra=_module_literals("tasks/generator.py"))
        except constfold.PureEvalError as e:
            bad.append((name, f"not evaluable: {e}"))
            break
        if tuple(got) != want:
            bad.append((name, tuple(got)))
    chk.require(not bad, "GF11-name-leaf", "tasks/generator.py:XonshCallMakerVisitor.visit_NameLeaf", f"tasks/generator.py:{leaf.lineno}",
                f"a NAME leaf must become self.name()/keyword()/soft_keyword()/any_token() for the four pseudo tokens, self.token('X') for "
                f"a token kind and self.<rule>() for a rule; differs on {bad[:3]} — the regenerated parser would not be the shipped one")


def rule_gf12_14(chk: Check):
    """GF12: the names of the walrus variables of an alternative — `dedupe` evaluated on sequences of names: a name seen before gets
    the first free `_k` suffix and the name *returned* is the one recorded (the default action of an alternative without an action
    lists the recorded names).  GF13: `cut` never becomes a recorded variable name.  GF14: every item of a collapsed `seq_alts`
    alternative is rendered through the visitor (that is where keywords get registered)."""
    import types
    from .. import constfold
    from ..pyflow import stmt_paths
    pg = parse_py("pegen/parser_generator.py")
    dd = _find_method(pg, "ParserGenerator", "dedupe")
    chk.count("GF12-dedupe")
    if dd is None:
        raise AnalysisError("ParserGenerator.dedupe vanished")
    ev = constfold.builder_expr_eval(("append", "count", "index"))
    bad = []
    try:
        for seq in (["a", "b"], ["literal", "literal"], ["literal", "opt", "literal", "literal"], ["x", "x_1", "x"], ["cut", "a", "a"]):
            me = types.SimpleNamespace(local_variable_names=[])
            got = [constfold.eval_pure_function(dd, {"self": me, "name": n}, expr_eval=ev, max_steps=500) for n in seq]
            want, seen = [], []
            for n in seq:
                k, cand = 0, n
                while cand in seen:
                    k += 1
                    cand = f"{n}_{k}"
                seen.append(cand)
                want.append(cand)
            if got != want or me.local_variable_names != want:
                bad.append((seq, got, me.local_variable_names))
        chk.require(not bad, "GF12-dedupe", "pegen/parser_generator.py:ParserGenerator.dedupe", f"pegen/parser_generator.py:{dd.lineno}",
                    f"dedupe must return the first free spelling of the name and record exactly what it returns; (names, returned, recorded) = "
                    f"{bad[:2]} — the default action `[a, b, ...]` of an alternative without an action is built from the recorded names, so the "
                    f"regenerated helper returns the wrong elements")
    except constfold.PureEvalError as e:
        chk.undecided("GF12-dedupe", "pegen/parser_generator.py:ParserGenerator.dedupe", f"pegen/parser_generator.py:{dd.lineno}",
                      f"outside the evaluable subset: {e}")
    # GF13
    py = parse_py("pegen/python_generator.py")
    ni = _find_method(py, "PythonParserGenerator", "visit_NamedItem")
    chk.count("GF13-cut-not-a-variable")
    if ni is None:
        raise AnalysisError("PythonParserGenerator.visit_NamedItem vanished")
    ok, seen_call = True, False
    for pth in stmt_paths(ni.body, split_bool=True):
        for i, x in enumerate(pth):
            text = x[1] if x[0] == "do" else ""
            if "self.dedupe(" in text:
                seen_call = True
                before = {y[1]: y[2] for y in pth[:i] if y[0] == "cond"}
                if not (before.get("name != 'cut'") is True or before.get("name == 'cut'") is False):
                    ok = False
    chk.require(ok and seen_call, "GF13-cut-not-a-variable", "pegen/python_generator.py:PythonParserGenerator.visit_NamedItem",
                f"pegen/python_generator.py:{ni.lineno}",
                "the commit marker `cut` must not be recorded as a variable of the alternative: an alternative with `~` and no action "
                "would regenerate as `return [cut, x]` instead of `return x`")
    # GF14
    gen = parse_py("tasks/generator.py")
    rh = _find_method(gen, "XonshCallMakerVisitor", "rhs_helper")
    chk.count("GF14-items-through-visitor")
    if rh is None:
        raise AnalysisError("XonshCallMakerVisitor.rhs_helper vanished")
    # methods of the call maker that themselves go through the visitor count as rendering
    VIS = ("self.lookahead_call_helper(", "self.visit(", "self.generate_call(")
    cmcls = next((c for c in gen.body if isinstance(c, ast.ClassDef) and c.name == "XonshCallMakerVisitor"), None)
    via = set()
    for m in (cmcls.body if cmcls is not None else []):
        if isinstance(m, ast.FunctionDef) and m.name != "rhs_helper" and any(v in norm_stmt(m) for v in VIS):
            via.add(f"self.{m.name}(")
    marks = VIS + tuple(sorted(via))
    loops = [n for n in rh.body if isinstance(n, ast.For)]
    comps = [n.value for n in rh.body if isinstance(n, ast.Assign) and isinstance(n.value, (ast.ListComp, ast.GeneratorExp))]
    ok = len(loops) == 1 or (not loops and len(comps) == 1)
    if ok and loops:
        n_app = 0
        for pth in stmt_paths(loops[0].body, split_bool=True):
            rendered = False
            for x in pth:
                text = x[1] if x[0] == "do" else ""
                if any(v in text for v in marks):
                    rendered = True
                if ".append(" in text:
                    n_app += 1
                    ok = ok and rendered
        ok = ok and n_app >= 1
    elif ok:
        ok = any(v in norm_stmt(comps[0].elt) for v in marks)
    chk.require(ok, "GF14-items-through-visitor", "tasks/generator.py:XonshCallMakerVisitor.rhs_helper", f"tasks/generator.py:{rh.lineno}",
                "every alternative of a collapsed `seq_alts(...)` group must be rendered by the visitor; text assembled around it skips the "
                "visitor's bookkeeping (a string leaf that is a keyword is then missing from the regenerated KEYWORDS table)")


def rule_gf15(chk: Check):
    """GF15: the helper counter advances on *every* request for a group helper, also when the group is answered from the
    de-duplication cache — the shipped numbering of the `_tmp_N` methods was produced that way, and a regenerated parser is compared
    method by method."""
    from ..pyflow import stmt_paths
    mod = parse_py("tasks/generator.py")
    fn = _find_method(mod, "XonshParserGenerator", "artifical_rule_from_rhs")
    chk.count("GF15-counter-per-request")
    if fn is None:
        raise AnalysisError("XonshParserGenerator.artifical_rule_from_rhs vanished")
    cls = next((c for c in mod.body if isinstance(c, ast.ClassDef) and c.name == "XonshParserGenerator"), None)
    bumpers = {"self.counter += 1", "self.counter = self.counter + 1"}
    helper_calls = set()
    pg = parse_py("pegen/parser_generator.py")
    for m in [x for c in list(mod.body) + list(pg.body) if isinstance(c, ast.ClassDef) for x in c.body if isinstance(x, ast.FunctionDef)]:
        if any(norm_stmt(st) in bumpers for st in ast.walk(m) if isinstance(st, ast.stmt)) and m.name != "artifical_rule_from_rhs":
            helper_calls.add(f"self.{m.name}(")
    try:
        paths = stmt_paths(list(fn.body), opaque_loops=True, split_bool=True)
    except AnalysisError as e:
        chk.undecided("GF15-counter-per-request", "XonshParserGenerator.artifical_rule_from_rhs", f"tasks/generator.py:{fn.lineno}", str(e))
        return
    bad = []
    for pth in paths:
        texts = [x[1] for x in pth if x[0] in ("do", "cond")] + [pth[-1][2] or ""]
        bumped_at = next((i for i, x in enumerate(pth) if (x[0] == "do" and (x[1] in bumpers or any(h in x[1] for h in helper_calls)))), None)
        if bumped_at is None and pth[-1][1] == "return":
            bad.append([x[1] for x in pth if x[0] == "cond"])
    chk.require(not bad, "GF15-counter-per-request", "XonshParserGenerator.artifical_rule_from_rhs", f"tasks/generator.py:{fn.lineno}",
                f"a path returns a helper name without having advanced the counter (conditions {bad[:1]}): a de-duplicated group then "
                f"no longer uses up a number and every later `_tmp_N` of the regenerated parser is renumbered against the shipped one")


def run(chk: Check):
    rule_gf15(chk)
    rule_gf12_14(chk)
    rule_gf1(chk)
    rule_gf2(chk)
    rule_gf3(chk)
    rule_gf4_gf5(chk)
    rule_gf6(chk)
    rule_gf7_gf8(chk)
    rule_gf9_11(chk)
    chk.floor("GF6-helper-identity", 2)
