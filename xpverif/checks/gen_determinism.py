"""U5 for the generator: hash-order-dependent iteration must feed order-insensitive sinks only."""
from __future__ import annotations

from ..common import Check


def run(chk: Check):
    chk.note("generator determinism lint: not yet armed")
