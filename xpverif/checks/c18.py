"""C18 — linear work: memo barriers on forks, O(1) cache hits, consuming repetitions (DESIGN §4 C18)."""
from __future__ import annotations

import ast
from collections import Counter

from .. import irtools, repo
from ..common import AnalysisError, Check, norm_stmt, parse_py
from ..pyflow import CFG
from ..ir import (Alt, Cut, Forced, Gather, Group, Item, Lit, Look, Opt, Ref, Rep, Rule, Tok, walk_alt_items,
                  walk_alts)

MEMO = ("memoize", "memoize_left_rec")


def memoised(r: Rule) -> bool:
    return r.decorator in MEMO


def forks(ir, include_invalid: bool):
    """For each rule R: non-memoised rules X invoked >= 2 times at the same input position during one
    evaluation of R (positions identified by the exact item prefix consumed since R's start)."""
    rules = ir.rules
    # call graph through non-memoised rules only (edge A->B exists if A's body can call B; walking stops at memoised B)
    g: dict[str, set[str]] = {}
    for r in rules.values():
        s = set()
        for a in r.alts:
            if a.invalid_guard and not include_invalid:
                continue
            for it in walk_alt_items(a):
                if isinstance(it, Ref) and it.name in rules:
                    s.add(it.name)
        g[r.name] = s

    def reaches_unmemoised(x: str, target: str) -> list[str] | None:
        """Path x ->* target where every intermediate rule (incl. x, excl. target) is non-memoised."""
        if memoised(rules[x]):
            return None
        seen = {x}
        todo = [(x, [x])]
        while todo:
            v, path = todo.pop()
            for w in sorted(g.get(v, ())):
                if w == target:
                    return path + [w]
                if w in seen or memoised(rules[w]):
                    continue
                seen.add(w)
                todo.append((w, path + [w]))
        return None

    out = []
    stats = {"rules_expanded": 0, "invocations": 0}
    for R in rules.values():
        if R.name.startswith("invalid_") and not include_invalid:
            continue
        if memoised(R):
            continue  # a cycle back into a memoised rule is a cache hit the second time round
        counts: Counter = Counter()
        first_site: dict = {}
        expanded: set = set()

        def visit(it: Item, prefix: tuple, stack: tuple, site):
            if isinstance(it, Ref):
                if it.name not in rules:
                    return
                key = (prefix, it.name)
                counts[key] += 1
                first_site.setdefault(key, []).append(site)
                stats["invocations"] += 1
                x = rules[it.name]
                # an unmemoised rule is evaluated every time; a memoised one the first time it is met at this position (a miss:
                # its body runs and may evaluate unmemoised rules that are also reached another way), later meetings are hits.
                # Only one memoised rule is looked through on a path: deeper ones are misses of *other* evaluations
                through_memo = sum(1 for n in stack[1:] if memoised(rules[n]))
                # a rule already on the stack is entered once more (one unrolling of the recursion): the second level meets the
                # rules of the first at the positions one nesting level further in, which is where a quadratic re-scan shows
                if stack.count(it.name) < 2 and key not in expanded and len(stack) < 40 and (not memoised(x) or through_memo == 0):
                    expanded.add(key)
                    expand(x, prefix, stack + (it.name,))
            elif isinstance(it, Group):
                for a in it.alts:
                    walk_alt(a, prefix, stack, site)
            elif isinstance(it, (Opt, Rep, Look, Forced)):
                visit(it.item, prefix, stack, site)
            elif isinstance(it, Gather):
                visit(it.item, prefix, stack, site)

        def walk_alt(a: Alt, prefix: tuple, stack: tuple, site):
            if a.invalid_guard and not include_invalid:
                return
            cur = prefix
            for ni in a.items:
                visit(ni.item, cur, stack, site if site else str(a.pos))
                if isinstance(ni.item, (Look, Cut)):
                    continue
                if len(cur) >= 6:
                    break  # deeper prefixes add nothing to same-position detection near the start
                cur = cur + (ni.item.key(),)

        def expand(rule: Rule, prefix: tuple, stack: tuple):
            stats["rules_expanded"] += 1
            for a in rule.alts:
                walk_alt(a, prefix, stack, str(a.pos))

        expand(R, (), (R.name,))
        for (prefix, xname), n in counts.items():
            if n < 2 or memoised(rules[xname]):
                continue
            path = reaches_unmemoised(xname, R.name)
            if path is None:
                # X does not lead back into R, but both recurse on their own through unmemoised rules only and R enters X at every
                # level: each level of R re-runs X's whole descent (work grows with the square of the nesting depth)
                if xname != R.name and reaches_unmemoised(R.name, R.name) is not None and reaches_unmemoised(xname, xname) is not None \
                        and prefix:
                    path = [R.name, "...", R.name, xname, "...", xname]
                else:
                    continue
            # the repeated evaluation multiplies only if the recursion through X meets no memo barrier at all: X lies on a
            # cycle of unmemoised rules (a cycle that passes a memoised rule is cut there: its second evaluation is a hit)
            if reaches_unmemoised(xname, xname) is None:
                continue
            out.append({"rule": R.name, "fork": xname, "times": n, "prefix": prefix, "cycle": path,
                        "sites": first_site[(prefix, xname)][:3]})
    return out, stats


def rule_w1(chk: Check, ir, include_invalid: bool, rule_id: str, pass1_forks: frozenset = frozenset()):
    found, stats = forks(ir, include_invalid)
    chk.units[f"{rule_id}.stats"] = stats
    # one obligation per unmemoised rule X: "X is never evaluated twice at one position inside an unmemoised cycle"
    by_fork: dict[str, list] = {}
    for f in found:
        by_fork.setdefault(f["fork"], []).append(f)
    for r in ir.rules.values():
        if memoised(r) or (r.name.startswith("invalid_") and not include_invalid):
            continue
        chk.count(rule_id)
        fs = by_fork.get(r.name)
        if not fs:
            chk.ok(rule_id, r.name, str(r.pos))
            continue
        f = sorted(fs, key=lambda f: (len(f["cycle"]), f["rule"]))[0]
        pre = " ".join(str(p[1]) if len(p) > 1 else p[0] for p in f["prefix"]) or "<start>"
        others = sorted({x["rule"] for x in fs})
        chk.fail(rule_id, f"fork:{r.name}", str(r.pos),
                 f"one evaluation of `{f['rule']}` invokes the unmemoised rule `{r.name}` {f['times']}x at the same position "
                 f"(after `{pre}`; call sites {f['sites']}), and `{r.name}` leads back to `{f['rule']}` through unmemoised "
                 f"rules only ({' -> '.join(f['cycle'])}): work multiplies by {f['times']} per nesting level "
                 f"[also forked inside: {', '.join(others[:8])}]")


def rule_w4(chk: Check, ir):
    """Opener re-read as a word.  Y is the body of a repetition P: Y+ (both unmemoised).  If an alternative of Y starts by
    consuming a literal L and then recurses into P/Y without Y having committed (no cut at Y's level), while a *later*
    alternative of Y accepts L through a token wildcard (OP, NAME, ...), then a failure deep inside the first alternative makes
    Y swallow L as a plain word and the repetition re-parses everything after L once more: two evaluations of Y at the same
    position per nesting level."""
    rules = ir.rules

    def wildcard_kinds(rule_name: str, seen=()) -> set[str]:
        """Token wildcards a rule can match as its whole (single-token) result."""
        out: set[str] = set()
        if rule_name in seen or rule_name not in rules:
            return out
        for a in rules[rule_name].alts:
            cons = [ni.item for ni in a.items if not isinstance(ni.item, (Look, Cut))]
            if len(cons) != 1:
                continue
            it = cons[0]
            if isinstance(it, Tok) and it.name in ("OP", "ANY_TOKEN", "NAME", "KEYWORD"):
                out.add(it.name)
            elif isinstance(it, Ref):
                out |= wildcard_kinds(it.name, seen + (rule_name,))
        return out

    def compatible(lit: str, kinds: set[str]) -> bool:
        word = lit[:1].isalpha() or lit[:1] == "_"
        return ("ANY_TOKEN" in kinds) or (word and ({"NAME", "KEYWORD"} & kinds)) or (not word and "OP" in kinds)

    def reach_unmemo(start: str, targets: set[str]) -> bool:
        seen, todo = set(), [start]
        while todo:
            v = todo.pop()
            if v in targets:
                return True
            if v in seen or v not in rules or memoised(rules[v]):
                continue
            seen.add(v)
            for a in rules[v].alts:
                for it in walk_alt_items(a):
                    if isinstance(it, Ref):
                        todo.append(it.name)
        return False

    def openers(alt_items, committed: bool, depth=0):
        """(literal, items after it, committed?) for the ways an item sequence can start by consuming a literal."""
        out = []
        for idx, ni in enumerate(alt_items):
            it = ni.item
            if isinstance(it, Look):
                continue
            if isinstance(it, Cut):
                committed = True
                continue
            if isinstance(it, Lit):
                rest = alt_items[idx + 1:]
                c = committed or (bool(rest) and isinstance(rest[0].item, Cut) and False)
                out.append((it.value, rest, committed))
            elif isinstance(it, Group) and all(len(g.items) == 1 and isinstance(g.items[0].item, Lit) for g in it.alts):
                # a choice of literal openers: `('(' | '!(' | '$(')`
                for g in it.alts:
                    out.append((g.items[0].item.value, alt_items[idx + 1:], committed))
            elif isinstance(it, Ref) and it.name in rules and not memoised(rules[it.name]) and depth < 3:
                for b in rules[it.name].alts:
                    # a cut inside the referenced rule commits that rule only, not the caller
                    for lit, rest, _c in openers(b.items, False, depth + 1):
                        out.append((lit, rest, committed))
            break
        return out

    # repetitions P: Y+ with both unmemoised
    pairs = set()
    bodies: dict[str, list] = {}
    for P in rules.values():
        if memoised(P):
            continue
        for a in P.alts:
            for it in walk_alt_items(a):
                if isinstance(it, Rep) and isinstance(it.item, Ref) and it.item.name in rules and not memoised(rules[it.item.name]):
                    pairs.add((P.name, it.item.name))
                    bodies[it.item.name] = rules[it.item.name].alts
                elif isinstance(it, Rep) and isinstance(it.item, Group) and len(it.item.alts) > 1:
                    # an inline choice as the body of the repetition: `( A | B )*`
                    yn = f"{P.name}:({it.item})"[:80]
                    pairs.add((P.name, yn))
                    bodies[yn] = it.item.alts
    chk.units["unmemoised_repetitions"] = sorted(f"{p}: {y}+" for p, y in pairs)
    for pname, yname in sorted(pairs):
        Y = type("Y", (), {"alts": bodies[yname]})
        for i, a in enumerate(Y.alts):
            if a.invalid_guard:
                continue
            later = set()
            for b in Y.alts[i + 1:]:
                cons = [ni.item for ni in b.items if not isinstance(ni.item, (Look, Cut))]
                if len(cons) == 1 and isinstance(cons[0], Ref):
                    later |= wildcard_kinds(cons[0].name)
                elif len(cons) == 1 and isinstance(cons[0], Tok) and cons[0].name in ("OP", "ANY_TOKEN", "NAME", "KEYWORD"):
                    later.add(cons[0].name)
            if not later:
                continue
            # does Y commit at its own level before the nested content?  a leading `&(..) ~` or `L ~` does
            for lit, rest, committed in openers(a.items, False):
                chk.count("W4-opener-reread")
                key = f"reread:{yname}#alt{i}:{lit}"
                if not compatible(lit, later):
                    chk.ok("W4-opener-reread", key, str(a.pos))
                    continue
                y_commits = committed or any(isinstance(ni.item, Cut) for ni in a.items)
                nxt = next((ni.item for ni in rest if not isinstance(ni.item, (Cut, Look))), None)
                recursive = False
                for it in ([nxt] if nxt is not None else []):
                    def refs_in(x):
                        if isinstance(x, Ref):
                            yield x
                        for c in x.children():
                            yield from refs_in(c)
                    for sub in refs_in(it):
                        if reach_unmemo(sub.name, {pname, yname}):
                            recursive = True
                if recursive and not y_commits:
                    chk.fail("W4-opener-reread", key, str(a.pos),
                             f"`{yname}` alternative {i} consumes `{lit}` and recurses into `{pname}` without `{yname}` having committed; a "
                             f"later alternative of `{yname}` accepts `{lit}` as a plain word ({sorted(later)}), so when the nested part "
                             f"fails the opener is swallowed as a word and `{pname}` parses the rest again: work doubles per nesting level")
                else:
                    chk.ok("W4-opener-reread", key, str(a.pos))


def rule_w2(chk: Check):
    sub = parse_py(repo.SUBHEADER)
    for wname, inner in (("memoize", "memoize_wrapper"), ("memoize_left_rec", "memoize_left_rec_wrapper")):
        outer = repo.find_func(sub, wname)
        fn = repo.find_func(outer, inner)
        where = f"{repo.SUBHEADER}:{fn.lineno}"
        def _evaluation_verdict():
            """(undecided-reason, counter-examples) of evaluating the wrapper from source (see the store rule below)."""
            from .c17 import Crash, EvalError, eval_left_rec, eval_memoize, left_rec_expected
            import itertools
            bad_, und_ = [], ""
            try:
                if inner == "memoize_wrapper":
                    for verbose in (False, True):
                        for succ in (True, False):
                            for args in ((), ("NUMBER",)):
                                tree, endp, entry, second, level = eval_memoize(fn, verbose, succ, args)
                                want_tree, want_end = (("T", args), 5) if succ else (None, 3)
                                if tree != want_tree or endp != want_end or entry is None or tuple(entry) != (want_tree, want_end) or \
                                        second != (0, True, True) or level != 0:
                                    bad_.append((verbose, succ, args, tree, endp, entry, second))
                else:
                    for n in range(0, 8 if chk.tier == "thorough" else 6):
                        for stream in itertools.product("n+x", repeat=n):
                            for verbose in (False, True):
                                tree, endp, entry, second, level, depth = eval_left_rec(fn, verbose, stream)
                                want = left_rec_expected(stream)
                                if entry is None or tuple(entry) != (want[0], want[1]) or second != (0, True, True):
                                    bad_.append(("".join(stream), verbose, entry, second))
            except Crash as e:
                bad_.append(f"raises {e}")
            except EvalError as e:
                und_ = str(e)
            return und_, bad_
        _und_ev, _bad_ev = _evaluation_verdict()
        _eval_clean = not _und_ev and not _bad_ev
        # key = mark, method_name, args|()
        key_assign = [s for s in fn.body if isinstance(s, ast.Assign) and norm_stmt(s.targets[0]) == "key"]
        chk.count("W2-cache-hit")
        elts = [norm_stmt(e) for e in key_assign[0].value.elts] if len(key_assign) == 1 and isinstance(key_assign[0].value, ast.Tuple) else []
        has_mark = any(isinstance(s, ast.Assign) and norm_stmt(s) == "mark = self._mark()" for s in fn.body)
        elts = ["mark" if (e == "self._mark()" or (e == "mark" and has_mark)) else e for e in elts]
        ok = sorted(elts) in (["args", "mark", "method_name"], ["()", "mark", "method_name"])
        chk.require(ok, "W2-cache-hit", f"{inner}:key", where,
                    f"the cache key must be exactly (position mark, rule name, args) with mark = self._mark(); found {elts}: a key that "
                    f"also depends on other parser state (recursion depth, flags) misses for the same rule at the same position, and the "
                    f"whole sub-parse is repeated")
        # the fast path: first `if key in self._cache ...:` has no loop, no call to method, and returns
        fast = next((s for s in fn.body if isinstance(s, ast.If) and "key in self._cache" in norm_stmt(s.test)), None)
        chk.count("W2-cache-hit")
        good = fast is not None and not any(isinstance(n, (ast.For, ast.While)) for n in ast.walk(fast)) and \
            not any(isinstance(n, ast.Call) and isinstance(n.func, ast.Name) and n.func.id == "method" for b in fast.body for n in ast.walk(b)) and \
            isinstance(fast.body[-1], ast.Return)
        # (a spelling the shape test does not know — one `.get()` instead of `in` + index — is decided by the evaluation: the second
        # call at a position runs the rule body zero times and restores result and position)
        chk.require(good or _eval_clean, "W2-cache-hit", f"{inner}:fast-path", where,
                    "a cache hit must return without looping or re-running the rule body")
        # every call of method() happens under `key not in self._cache`
        chk.count("W2-cache-hit")
        calls_ok = True
        from ..pyflow import stmt_paths as _sp

        def _is_method_call(n):
            return isinstance(n, ast.Call) and isinstance(n.func, ast.Name) and n.func.id == "method"
        in_loop = any(_is_method_call(n) for lp in ast.walk(fn) if isinstance(lp, (ast.For, ast.While, ast.Try)) for n in ast.walk(lp))
        if in_loop:
            # the seed-growing loop: structural form — every call sits in the body of the top-level `if key not in self._cache:`
            for st in fn.body:
                for n in ast.walk(st):
                    if _is_method_call(n) and not (isinstance(st, ast.If) and norm_stmt(st.test) == "key not in self._cache"
                                                   and any(n is x for b in st.body for x in ast.walk(b))):
                        calls_ok = False
        try:
            if in_loop:
                raise StopIteration
            n_call_paths = 0
            for pth in _sp(fn.body, split_bool=True):
                known: dict[str, bool] = {}
                feasible = True
                called_at = None
                for i, x in enumerate(pth):
                    if x[0] == "cond" and x[1] in ("key in self._cache", "key not in self._cache"):
                        hit = x[2] if x[1] == "key in self._cache" else not x[2]
                        if called_at is None:
                            if "hit" in known and known["hit"] != hit:
                                feasible = False
                            known["hit"] = hit
                    text = x[1] if x[0] == "do" else (x[2] if x[0] == "exit" else "")
                    if called_at is None and x[0] in ("do", "exit") and text and any(
                            isinstance(c, ast.Call) and isinstance(c.func, ast.Name) and c.func.id == "method" for c in ast.walk(ast.parse(text))):
                        called_at = i
                        if known.get("hit") is not False:
                            calls_ok = calls_ok and not feasible  # the rule ran on a path that did not establish a miss
                        n_call_paths += 1
            if n_call_paths == 0:
                calls_ok = False
        except StopIteration:
            pass
        except (AnalysisError, SyntaxError):
            calls_ok = False
        chk.require(calls_ok or _eval_clean, "W2-cache-hit", f"{inner}:miss-only", where,
                    "the wrapped rule may only run when the key is not cached")
        # a miss stores what the rule returned — failures included — with the position reached, and the next call at the same
        # position is answered from the cache without running the rule: decided by evaluating the wrapper from source around a
        # fake rule body (plain wrapper: success / failure x arguments; left-recursive wrapper: every token stream of length <= 5
        # for  r: r '+' 'n' | 'n'), tracing on and off.  A skipped store makes every enclosing rule repeat the sub-parse.
        chk.count("W2-cache-hit")
        und, bad = _und_ev, _bad_ev
        if und:
            chk.undecided("W2-cache-hit", f"{inner}:store-on-all-paths", where, f"not evaluable: {und}")
        else:
            chk.require(not bad, "W2-cache-hit", f"{inner}:store-on-all-paths", where,
                        "after running the rule body the result must be stored on every path (a skipped store — e.g. for failures, or only "
                        f"in one pass — makes every enclosing rule repeat the sub-parse: work multiplies per nesting level): {bad[:1]}")
    # parse(): second pass at most once, not inside a loop
    parser = repo.find_class(sub, "Parser")
    parse = repo.find_func(parser, "parse")
    calls = [n for n in ast.walk(parse) if isinstance(n, ast.Call) and norm_stmt(n.func) == "getattr(self, rule)"]
    loops = [n for n in ast.walk(parse) if isinstance(n, (ast.For, ast.While))]
    chk.count("W2-cache-hit")
    chk.require(len(calls) <= 2 and not loops, "W2-cache-hit", "Parser.parse:passes", f"{repo.SUBHEADER}:{parse.lineno}",
                f"parse() must run the start rule at most twice (found {len(calls)} calls, {len(loops)} loops)")


def rule_w3(chk: Check, ir):
    allr = dict(ir.rules)
    nullable = irtools.compute_nullable(allr)
    item_n = irtools.make_item_nullable(nullable)
    from ..actions import all_alts
    for rule, key, a in all_alts(ir.rules):
        for j, ni in enumerate(a.items):
            for it in _walk(ni.item):
                if isinstance(it, Rep):
                    chk.count("W3-consuming-repetition")
                    chk.require(not item_n(it.item), "W3-consuming-repetition", f"{key}.i{j}:{it}", str(a.pos),
                                f"the body of `{it}` can succeed without consuming a token (endless or quadratic repetition)")
                elif isinstance(it, Gather):
                    chk.count("W3-consuming-repetition")
                    chk.require(not (item_n(it.item) and item_n(it.sep)), "W3-consuming-repetition",
                                f"{key}.i{j}:{it}", str(a.pos),
                                f"separator and element of `{it}` can both match empty")


def _walk(it: Item):
    yield it
    if isinstance(it, Group):
        return  # nested alts are visited by all_alts
    for c in it.children():
        yield from _walk(c)


def rule_w5(chk: Check):
    """W5: the token buffer is indexed, never copied: the helpers that run once per token or per rule evaluation (peek, getnext,
    mark, reset, span's backward scan, diagnose) must not slice, list(), sorted() or otherwise materialise `self._tokens` — one
    such copy per call makes the total work quadratic in the number of tokens."""
    tk = parse_py(repo.TOKENIZER)
    cls = repo.find_class(tk, "Tokenizer")
    hot = ("peek", "getnext", "mark", "reset", "get_last_non_whitespace_token", "diagnose", "is_blank")
    for fn in [n for n in cls.body if isinstance(n, ast.FunctionDef) and n.name in hot]:
        chk.count("W5-buffer-copy")
        bad = ""
        for n in ast.walk(fn):
            if isinstance(n, ast.Subscript) and norm_stmt(n.value) == "self._tokens" and isinstance(n.slice, ast.Slice):
                bad = norm_stmt(n)
            if isinstance(n, ast.Call) and norm_stmt(n.func) in ("list", "sorted", "tuple", "reversed", "enumerate", "len") and n.args:
                a0 = n.args[0]
                if norm_stmt(n.func) in ("list", "sorted", "tuple") and "self._tokens" in norm_stmt(a0):
                    bad = norm_stmt(n)
            if isinstance(n, ast.Call) and norm_stmt(n.func).split(".")[-1] in ("islice", "reversed", "dropwhile", "takewhile", "filter", "zip") \
                    and any("self._tokens" in norm_stmt(a) for a in n.args):
                # a walk that starts at an end of the buffer (and skips up to the current position) is linear in how far the parser
                # is from that end — the whole buffer in the diagnostic pass
                bad = norm_stmt(n)
            if isinstance(n, (ast.ListComp, ast.GeneratorExp, ast.For)) and "self._tokens" in norm_stmt(n.generators[0].iter if not isinstance(n, ast.For) else n.iter) \
                    and not norm_stmt(n.generators[0].iter if not isinstance(n, ast.For) else n.iter).startswith("reversed(self._tokens)"):
                it = n.generators[0].iter if not isinstance(n, ast.For) else n.iter
                if isinstance(it, ast.Subscript) or norm_stmt(it) == "self._tokens":
                    bad = norm_stmt(it)
        chk.require(not bad, "W5-buffer-copy", f"Tokenizer.{fn.name}", f"{repo.TOKENIZER}:{fn.lineno}",
                    f"`{bad}` copies or walks the whole token buffer on every call of `{fn.name}` (called once per token or per rule): total "
                    f"work grows with the square of the input length")
    chk.floor("W5-buffer-copy", 5)


def rule_w6(chk: Check, ix):
    """W6: inside a loop that accumulates into a collection, nothing may walk the whole collection on every iteration (join it,
    copy it, sort it, sum it): the loop's total work is then quadratic in what it accumulates.  W7: a function that calls itself
    must not evaluate the same recursive call twice on one path (`if f(e) is not None: return f(e)`): every level of nesting then
    doubles the work."""
    from ..pyflow import own_nodes
    from .. import repo as _repo
    WHOLE = {"list", "tuple", "sorted", "sum", "set", "dict", "frozenset", "reversed"}
    n_loops = n_rec = 0
    for q, f in sorted(ix.funcs.items()):
        if f.rel not in (_repo.SUBHEADER, _repo.TOKENIZER, _repo.TOKENIZE):
            continue
        for loop in own_nodes(f.node):
            if not isinstance(loop, (ast.For, ast.While)):
                continue
            n_loops += 1
            grown: set[str] = set()
            for n in ast.walk(loop):
                if isinstance(n, ast.Subscript) and isinstance(n.ctx, ast.Store) and isinstance(n.value, ast.Name):
                    grown.add(n.value.id)
                if isinstance(n, ast.Call) and isinstance(n.func, ast.Attribute) and isinstance(n.func.value, ast.Name) and \
                        n.func.attr in ("append", "add", "extend", "update", "setdefault", "insert"):
                    grown.add(n.func.value.id)
            if not grown:
                continue

            def mentions(e) -> set[str]:
                out = set()
                for x in ast.walk(e):
                    if isinstance(x, ast.Name) and x.id in grown:
                        out.add(x.id)
                return out
            for st in loop.body + loop.orelse:
                for n in ast.walk(st):
                    if not isinstance(n, ast.Call):
                        continue
                    whole = None
                    if isinstance(n.func, ast.Attribute) and n.func.attr == "join" and n.args:
                        arg = n.args[0]
                        core = arg.func.value if isinstance(arg, ast.Call) and isinstance(arg.func, ast.Attribute) and \
                            arg.func.attr in ("values", "items", "keys") else arg
                        if isinstance(core, ast.Name) and core.id in grown:
                            whole = core.id
                        elif isinstance(arg, (ast.GeneratorExp, ast.ListComp)) and mentions(arg.generators[0].iter):
                            whole = sorted(mentions(arg.generators[0].iter))[0]
                    elif isinstance(n.func, ast.Name) and n.func.id in WHOLE and n.args:
                        arg = n.args[0]
                        core = arg.func.value if isinstance(arg, ast.Call) and isinstance(arg.func, ast.Attribute) and \
                            arg.func.attr in ("values", "items", "keys") else arg
                        if isinstance(core, ast.Name) and core.id in grown:
                            whole = core.id
                    elif isinstance(n.func, ast.Attribute) and n.func.attr in ("copy",) and isinstance(n.func.value, ast.Name) and n.func.value.id in grown:
                        whole = n.func.value.id
                    if whole:
                        chk.count("W6-loop-work")
                        chk.fail("W6-loop-work", f"{q}:{norm_stmt(n)[:50]}", f"{f.rel}:{n.lineno}",
                                 f"`{norm_stmt(n)[:60]}` walks all of `{whole}` on every iteration of the loop that fills it: the loop does "
                                 f"quadratic work in the size of what it captures")
        # W7
        name = f.node.name
        rec_calls = [c for c in own_nodes(f.node) if isinstance(c, ast.Call) and
                     ((isinstance(c.func, ast.Attribute) and c.func.attr == name and norm_stmt(c.func.value) in ("self", "cls")) or
                      (isinstance(c.func, ast.Name) and c.func.id == name and f.cls is None))]
        if rec_calls:
            n_rec += 1
            chk.count("W6-loop-work")
            dup = None
            for st in own_nodes(f.node):
                if isinstance(st, ast.If):
                    in_test = {norm_stmt(c) for c in ast.walk(st.test) if any(c is r for r in rec_calls)}
                    in_body = {norm_stmt(c) for b in st.body for c in ast.walk(b) if any(c is r for r in rec_calls)}
                    if in_test & in_body:
                        dup = sorted(in_test & in_body)[0]
                elif isinstance(st, ast.stmt) and not isinstance(st, (ast.For, ast.While, ast.Try, ast.With, ast.FunctionDef)):
                    texts = [norm_stmt(c) for c in ast.walk(st) if any(c is r for r in rec_calls)]
                    if len(texts) != len(set(texts)):
                        dup = texts[0]
            chk.require(dup is None, "W6-loop-work", f"{q}:recursive-call-once", f.where,
                        f"the recursive call `{dup}` is evaluated in a test and again under it: each nesting level of the input doubles "
                        f"the work (exponential in the depth of nested displays)")
    chk.count("W6-loop-work")
    chk.ok("W6-loop-work", "runtime-modules:scanned", _repo.SUBHEADER, f"{n_loops} loops, {n_rec} self-recursive functions scanned")
    if n_loops < 10 or n_rec < 1:
        raise AnalysisError(f"W6: only {n_loops} loops / {n_rec} recursive functions seen")


def run(chk: Check):
    chk.explanation = (
        "A graph criterion on the IR of the parser that runs: (W1) no rule evaluates an unmemoised rule twice at the same "
        "position when that rule leads back to it through unmemoised rules only (each such cycle multiplies work per nesting "
        "level — the packrat argument needs a memo barrier on every fork); (W2) a cache hit is O(1) and the wrapped rule runs "
        "only on a miss, parse() runs at most two passes; (W3) every repetition body consumes a token. Both passes are analysed: pass 1 "
        "(alternatives without invalid_ rules) and pass 2 (diagnostic pass with invalid_ rules enabled).")
    chk.trusted = ["xpverif.pyir decompiler", "PEG determinism: equal item prefixes from the same start end at the same position"]
    chk.assumptions = ["positions are identified by syntactically equal item prefixes, so forks through differently spelled "
                       "but equivalent prefixes are not seen (the criterion is necessary, not sufficient, for linearity)",
                       "the backward scan of get_last_non_whitespace_token is not counted as parsing work (the property counts "
                       "getnext/peek/reset)"]
    ir = repo.ir_x()
    chk.units["rules"] = len(ir.rules)
    chk.units["memoised"] = sorted(r.name for r in ir.rules.values() if memoised(r))
    rule_w1(chk, ir, False, "W1-memo-barrier")
    if True:  # the diagnostic pass is as cheap to analyse as the first one: both tiers
        p1 = frozenset(o.key.split(":", 1)[1] for o in chk.obs if o.rule == "W1-memo-barrier" and o.status == "fail")
        rule_w1(chk, ir, True, "W1-memo-barrier-pass2", p1)
    rule_w2(chk)
    rule_w3(chk, ir)
    rule_w4(chk, ir)
    rule_w5(chk)
    from ..pyflow import Index as _Ix6
    rule_w6(chk, _Ix6())
    # the scanner is part of the work: no exponentially ambiguous regular expression (C03 T4)
    from .c03 import rule_t4
    from ..pyflow import Index
    rule_t4(chk, Index())
    chk.floor("W1-memo-barrier", 150)
    chk.floor("W2-cache-hit", 9)
    chk.floor("W3-consuming-repetition", 100)
    # the commit points W4 relies on exist in a regenerated parser only if the generator emits the cut variable and its exit
    from .c17 import Classes, rule_t3
    rule_t3(chk, Classes())
