"""C15 — options only do what they say (DESIGN §4 C15: V1 verbose-erasure equivalence, V2 lemma, V3 py_version)."""
from __future__ import annotations

import ast
import copy
from typing import Optional

from .. import actions, repo
from ..common import AnalysisError, Check, norm_stmt, parse_py
from ..pyflow import Index, own_nodes

INERT_CALLS = {"print"}
PURE_IN_LOGGING = {"repr", "str", "len", "join", "showpeek", "format", "map"}   # map over repr/str: a lazy spelling of the same


# ------------------------------------------------------------------ residual construction
class _Subst(ast.NodeTransformer):
    def __init__(self, mapping: dict[str, ast.expr]):
        self.mapping = mapping

    def visit_Attribute(self, node):
        s = norm_stmt(node)
        if s in self.mapping and isinstance(node.ctx, ast.Load):
            return ast.copy_location(copy.deepcopy(self.mapping[s]), node)
        return self.generic_visit(node)

    def visit_Name(self, node):
        if node.id in self.mapping and isinstance(node.ctx, ast.Load):
            return ast.copy_location(copy.deepcopy(self.mapping[node.id]), node)
        return node


def split_tuple_assigns(stmts):
    out = []
    for st in stmts:
        if isinstance(st, ast.Assign) and len(st.targets) == 1 and isinstance(st.targets[0], ast.Tuple) \
                and isinstance(st.value, ast.Tuple) and len(st.targets[0].elts) == len(st.value.elts) \
                and all(isinstance(t, ast.Name) for t in st.targets[0].elts):
            for t, v in zip(st.targets[0].elts, st.value.elts):
                out.append(ast.copy_location(ast.Assign([t], v), st))
        else:
            for fld in ("body", "orelse", "finalbody"):
                if hasattr(st, fld) and isinstance(getattr(st, fld), list):
                    setattr(st, fld, split_tuple_assigns(getattr(st, fld)))
            out.append(st)
    return out


def const_bool(e: ast.expr) -> Optional[bool]:
    if isinstance(e, ast.Constant) and isinstance(e.value, bool):
        return e.value
    return None


def simplify(e: ast.expr) -> ast.expr:
    if isinstance(e, ast.UnaryOp) and isinstance(e.op, ast.Not):
        inner = simplify(e.operand)
        c = const_bool(inner)
        if c is not None:
            return ast.Constant(not c)
        return ast.UnaryOp(ast.Not(), inner)
    if isinstance(e, ast.BoolOp):
        vals = [simplify(v) for v in e.values]
        is_and = isinstance(e.op, ast.And)
        out = []
        for v in vals:
            c = const_bool(v)
            if c is None:
                out.append(v)
            elif c != is_and:  # False in and / True in or: absorbs (operands before it have no side effects here)
                return ast.Constant(c)
        if not out:
            return ast.Constant(is_and)
        if len(out) == 1:
            return out[0]
        return ast.BoolOp(e.op, out)
    return e


def fold(stmts):
    out = []
    for st in stmts:
        if isinstance(st, ast.If):
            test = simplify(st.test)
            c = const_bool(test)
            if c is True:
                out += fold(st.body)
                continue
            if c is False:
                out += fold(st.orelse)
                continue
            new = ast.If(test, fold(st.body), fold(st.orelse))
            if not new.body and not new.orelse:
                continue
            if not new.body:
                new = ast.If(simplify(ast.UnaryOp(ast.Not(), test)), new.orelse, [])
            out.append(ast.copy_location(new, st))
        elif isinstance(st, (ast.While, ast.For)):
            st = copy.copy(st)
            st.body = fold(st.body) or [ast.Pass()]
            st.orelse = fold(st.orelse)
            out.append(st)
        elif isinstance(st, ast.Try):
            st = copy.copy(st)
            st.body = fold(st.body) or [ast.Pass()]
            st.finalbody = fold(st.finalbody)
            st.orelse = fold(st.orelse)
            out.append(st)
        elif isinstance(st, ast.With):
            st = copy.copy(st)
            st.body = fold(st.body) or [ast.Pass()]
            out.append(st)
        else:
            out.append(st)
    return out


def propagate_constants(stmts, mapping: dict[str, ast.expr]):
    """Locals assigned exactly once, at top level, from a constant are replaced by that constant."""
    counts: dict[str, int] = {}
    for n in ast.walk(ast.Module(stmts, [])):
        if isinstance(n, ast.Name) and isinstance(n.ctx, ast.Store):
            counts[n.id] = counts.get(n.id, 0) + 1
    for st in stmts:
        if isinstance(st, ast.Assign) and len(st.targets) == 1 and isinstance(st.targets[0], ast.Name) \
                and isinstance(st.value, ast.Constant) and isinstance(st.value.value, bool) and counts.get(st.targets[0].id) == 1:
            mapping[st.targets[0].id] = st.value
    return mapping


def names_used(stmts) -> set[str]:
    return {n.id for n in ast.walk(ast.Module(stmts, [])) if isinstance(n, ast.Name) and isinstance(n.ctx, ast.Load)}


class Eraser:
    def __init__(self, inert_methods: set[str]):
        self.inert_methods = inert_methods
        self.offenders: list[str] = []

    def args_harmless(self, call: ast.Call) -> bool:
        """Everything evaluated to produce a log line must be unable to fail or to change state: only the whitelisted
        conversions (repr/str/join/len/format and showpeek) may be called."""
        for a in list(call.args) + [k.value for k in call.keywords]:
            for n in ast.walk(a):
                if isinstance(n, ast.Call):
                    f = n.func
                    name = f.id if isinstance(f, ast.Name) else (f.attr if isinstance(f, ast.Attribute) else "")
                    if name not in PURE_IN_LOGGING:
                        self.offenders.append(name or norm_stmt(f))
                        return False
        return True

    def is_print_stmt(self, st) -> bool:
        if isinstance(st, ast.Expr) and isinstance(st.value, ast.Call):
            f = st.value.func
            if isinstance(f, ast.Name) and f.id in INERT_CALLS:
                return self.args_harmless(st.value)
            if isinstance(f, ast.Attribute) and norm_stmt(f.value) == "self" and f.attr in self.inert_methods:
                return True
        if isinstance(st, ast.AugAssign) and norm_stmt(st.target) == "self._level":
            return True
        if isinstance(st, ast.Assign) and len(st.targets) == 1 and isinstance(st.targets[0], ast.Attribute) \
                and st.targets[0].attr == "_verbose":
            return True  # the store of the option itself (checked by V1-flag-stores)
        if isinstance(st, ast.Pass):
            return True
        return False

    def erase(self, stmts):
        stmts = self._erase_prints(stmts)
        # locals read by nothing that is left
        while True:
            used = names_used(stmts)
            new = self._erase_dead_locals(stmts, used)
            if ast.dump(ast.Module(new, [])) == ast.dump(ast.Module(stmts, [])):
                return new
            stmts = new

    def _erase_prints(self, stmts):
        out = []
        for st in stmts:
            if self.is_print_stmt(st):
                continue
            st = copy.copy(st)
            for fld in ("body", "orelse", "finalbody"):
                if hasattr(st, fld) and isinstance(getattr(st, fld), list):
                    setattr(st, fld, self._erase_prints(getattr(st, fld)))
            if isinstance(st, ast.If) and not st.body and not st.orelse:
                continue
            if isinstance(st, ast.If) and not st.body:
                st = ast.If(simplify(ast.UnaryOp(ast.Not(), st.test)), st.orelse, [])
            if isinstance(st, (ast.While, ast.For, ast.Try, ast.With)) and not st.body:
                st.body = [ast.Pass()]
            out.append(st)
        return out

    def _erase_dead_locals(self, stmts, used):
        out = []
        for st in stmts:
            tgt = None
            if isinstance(st, ast.Assign) and len(st.targets) == 1 and isinstance(st.targets[0], ast.Name):
                tgt = st.targets[0].id
            elif isinstance(st, ast.AugAssign) and isinstance(st.target, ast.Name):
                tgt = st.target.id
            if tgt is not None and tgt not in used and self._pure(st.value):
                continue
            st = copy.copy(st)
            for fld in ("body", "orelse", "finalbody"):
                if hasattr(st, fld) and isinstance(getattr(st, fld), list):
                    setattr(st, fld, self._erase_dead_locals(getattr(st, fld), used))
            if isinstance(st, ast.If) and not st.body and not st.orelse:
                continue
            if isinstance(st, ast.If) and not st.body:
                st = ast.If(simplify(ast.UnaryOp(ast.Not(), st.test)), st.orelse, [])
            out.append(st)
        return out

    @staticmethod
    def _pure(e: ast.expr) -> bool:
        for n in ast.walk(e):
            if isinstance(n, ast.Call):
                f = n.func
                name = f.id if isinstance(f, ast.Name) else (f.attr if isinstance(f, ast.Attribute) else "")
                if name not in PURE_IN_LOGGING:
                    return False
            if isinstance(n, (ast.Yield, ast.YieldFrom, ast.Await, ast.NamedExpr)):
                return False
        return True


def cut_after_return(stmts):
    out = []
    for st in stmts:
        st = copy.copy(st)
        for fld in ("body", "orelse", "finalbody"):
            if hasattr(st, fld) and isinstance(getattr(st, fld), list):
                setattr(st, fld, cut_after_return(getattr(st, fld)))
        out.append(st)
        if isinstance(st, (ast.Return, ast.Raise)):
            break
    return out


def inline_temp_return(stmts):
    """`x = E; return x` == `return E` when x is used nowhere else."""
    out = list(stmts)
    if len(out) >= 2 and isinstance(out[-1], ast.Return) and isinstance(out[-1].value, ast.Name) \
            and isinstance(out[-2], ast.Assign) and len(out[-2].targets) == 1 and isinstance(out[-2].targets[0], ast.Name) \
            and out[-2].targets[0].id == out[-1].value.id:
        name = out[-1].value.id
        others = [n for n in ast.walk(ast.Module(out[:-2], [])) if isinstance(n, ast.Name) and n.id == name]
        if not others:
            out = out[:-2] + [ast.Return(out[-2].value)]
    return out


def specialise(stmts, cond: ast.expr, truth: bool):
    """Fold tests syntactically equal to `cond` (or its `not`/`not in` negation) under the assumption cond == truth."""
    csrc = norm_stmt(cond)
    neg = None
    if isinstance(cond, ast.Compare) and len(cond.ops) == 1 and isinstance(cond.ops[0], (ast.In, ast.NotIn)):
        flipped = ast.Compare(cond.left, [ast.NotIn() if isinstance(cond.ops[0], ast.In) else ast.In()], cond.comparators)
        neg = norm_stmt(flipped)

    class T(ast.NodeTransformer):
        def generic_visit(self, node):
            node = super().generic_visit(node)
            if isinstance(node, ast.expr):
                s = norm_stmt(node)
                if s == csrc:
                    return ast.Constant(truth)
                if neg is not None and s == neg:
                    return ast.Constant(not truth)
            return node

    new = [T().visit(copy.deepcopy(s)) for s in stmts]
    return fold(new)


def eliminate_early_return(stmts):
    """`if C: A; return t` followed by R is the same as R alone when R specialised under C is `A; return t`."""
    changed = True
    while changed:
        changed = False
        for i, st in enumerate(stmts):
            if isinstance(st, ast.If) and not st.orelse and st.body and isinstance(st.body[-1], ast.Return):
                rest = stmts[i + 1:]
                spec = cut_after_return(specialise(rest, st.test, True))
                if ast.dump(ast.Module(spec, [])) == ast.dump(ast.Module(st.body, [])):
                    stmts = stmts[:i] + rest
                    changed = True
                    break
    return stmts


def residual(fn: ast.FunctionDef, flag_exprs: list[str], value: bool, eraser: Eraser):
    body = copy.deepcopy(fn.body)
    body = [s for s in body if not (isinstance(s, ast.Expr) and isinstance(s.value, ast.Constant))]
    body = split_tuple_assigns(body)
    mapping: dict[str, ast.expr] = {f: ast.Constant(value) for f in flag_exprs}
    for _ in range(3):
        body = [_Subst(mapping).visit(s) for s in body]
        body = fold(body)
        before = len(mapping)
        propagate_constants(body, mapping)
        if len(mapping) == before:
            break
    body = eraser.erase(body)
    body = fold(body)
    body = cut_after_return(body)
    body = eliminate_early_return(body)
    body = inline_temp_return(body)
    return body


def dump(stmts) -> str:
    return "\n".join(ast.unparse(s) for s in stmts)


# ------------------------------------------------------------------ V2 lemma
def lemma_falsy_tree_means_no_move(fn: ast.FunctionDef) -> tuple[bool, str]:
    """In memoize_left_rec_wrapper: whenever a falsy tree is stored in the cache, the stored end mark is `mark`
    (the position the key was taken at), so resetting to it is a no-op."""
    stores = [n for n in ast.walk(fn) if isinstance(n, ast.Assign) and any(norm_stmt(t) == "self._cache[key]" for t in n.targets)]
    if not stores:
        return False, "no cache stores found"
    for st in stores:
        v = st.value
        if not (isinstance(v, ast.Tuple) and len(v.elts) == 2):
            return False, f"store `{norm_stmt(st)}` is not a (tree, mark) pair"
        tree, end = norm_stmt(v.elts[0]), norm_stmt(v.elts[1])
        if end == "mark":
            continue
        if tree == "None":
            return False, f"`{norm_stmt(st)}` stores a failure with an end mark other than `mark`"
        # truthiness established before the store?
        ok = False
        if tree == "result":
            # in the growing loop: guarded by `if not result: break`
            for n in ast.walk(fn):
                if isinstance(n, ast.While) and any(st is x for x in ast.walk(n)):
                    idx = next(i for i, s in enumerate(n.body) if any(st is x for x in ast.walk(s)))
                    ok = any(isinstance(s, ast.If) and norm_stmt(s.test) == "not result" and
                             any(isinstance(b, ast.Break) for b in s.body) for s in n.body[:idx])
        elif tree == "tree":
            # preceded by `if tree: endmark = self._mark() else: endmark = mark`
            for n in ast.walk(fn):
                if isinstance(n, ast.If) and norm_stmt(n.test) == "tree" and n.orelse and \
                        any(norm_stmt(s) == "endmark = mark" for s in n.orelse) and n.lineno < st.lineno:
                    ok = True
        if not ok:
            return False, f"`{norm_stmt(st)}`: cannot show that a falsy tree is stored only with end mark `mark`"
    return True, ""


class _V2Rewrite(ast.NodeTransformer):
    """`if tree: self._reset(endmark)` -> `self._reset(endmark)` (valid under the lemma)."""

    def visit_If(self, node):
        self.generic_visit(node)
        if norm_stmt(node.test) == "tree" and not node.orelse and len(node.body) == 1 and norm_stmt(node.body[0]) == "self._reset(endmark)":
            return node.body[0]
        return node


# ------------------------------------------------------------------ rules
def rule_v1(chk: Check, ix: Index):
    # functions whose own body is print-only (so that calling them is inert)
    inert_methods: set[str] = set()
    base = Eraser(set())
    for q, f in ix.funcs.items():
        if f.cls in ("Tokenizer", "Parser"):
            left = base.erase(copy.deepcopy([s for s in f.node.body if not (isinstance(s, ast.Expr) and isinstance(s.value, ast.Constant))]))
            if not left and any(isinstance(n, ast.Call) and isinstance(n.func, ast.Name) and n.func.id == "print" for n in ast.walk(f.node)):
                inert_methods.add(f.node.name)
    chk.units["print_only_methods"] = sorted(inert_methods)
    eraser = Eraser(inert_methods)
    targets = []
    for q, f in sorted(ix.funcs.items()):
        reads = [n for n in own_nodes(f.node) if isinstance(n, ast.Attribute) and n.attr == "_verbose" and isinstance(n.ctx, ast.Load)]
        uses_param = "verbose" in [a.arg for a in f.node.args.args + f.node.args.kwonlyargs] and any(
            isinstance(n, (ast.If, ast.IfExp, ast.While)) and any(isinstance(x, ast.Name) and x.id == "verbose" for x in ast.walk(n.test))
            for n in own_nodes(f.node))
        if reads or uses_param:
            targets.append((q, f, uses_param))
    chk.units["verbose_dependent_functions"] = [q for q, _, _ in targets]
    for q, f, uses_param in targets:
        flags = ["self._verbose"] + (["verbose"] if uses_param else [])
        r0 = residual(f.node, flags, False, eraser)
        r1 = residual(f.node, flags, True, eraser)
        chk.count("V1-verbose-erasure")
        key = f"{q}"
        if dump(r0) == dump(r1):
            chk.ok("V1-verbose-erasure", key, f.where)
            continue
        # V2: the one known residual difference, valid under a lemma checked in the same function
        r0b = [_V2Rewrite().visit(copy.deepcopy(s)) for s in r0]
        r1b = [_V2Rewrite().visit(copy.deepcopy(s)) for s in r1]
        r0b = inline_temp_return(eliminate_early_return(cut_after_return(fold(r0b))))
        r1b = inline_temp_return(eliminate_early_return(cut_after_return(fold(r1b))))
        if dump(r0b) == dump(r1b):
            ok, why = lemma_falsy_tree_means_no_move(f.node)
            if not ok and f.node.name == "memoize_left_rec_wrapper":
                # the syntactic lemma does not fit this spelling: decide the same fact by evaluating the wrapper from source, tracing
                # on and off, on every token stream of length <= 5 for  r: r '+' 'n' | 'n'  (result, position, cache, second call)
                import itertools
                from .c17 import EvalError, eval_left_rec
                try:
                    diffs = []
                    for n in range(0, 6):
                        for stream in itertools.product("n+x", repeat=n):
                            a = eval_left_rec(f.node, False, stream)
                            b = eval_left_rec(f.node, True, stream)
                            if a != b:
                                diffs.append(("".join(stream), a[:4], b[:4]))
                    ok = not diffs
                    why = f"tracing changes the outcome on {diffs[:1]}" if diffs else ""
                except EvalError as e:
                    why = f"{why}; not evaluable either: {e}"
            chk.count("V2-reset-lemma")
            chk.require(ok, "V2-reset-lemma", key, f.where,
                        f"verbose and non-verbose paths differ in `if tree: self._reset(endmark)` vs an unconditional reset; that is "
                        f"equivalent only if a falsy tree is always cached with the key's own mark — {why}")
            if ok:
                chk.ok("V1-verbose-erasure", key, f.where, "equal modulo V2")
            else:
                chk.fail("V1-verbose-erasure", key, f.where, "differs beyond the V2 lemma")
            continue
        # the plain memo wrapper in a spelling the residual comparison cannot line up (one `.get()` lookup shared by both paths):
        # decided by evaluating it from source, tracing on and off, for success / failure x arguments — result, position, cache
        # entry, second call from the cache, trace depth back to 0
        if f.node.name == "memoize_wrapper":
            from .c17 import EvalError, eval_memoize
            try:
                diffs = []
                for succ in (True, False):
                    for args in ((), ("NUMBER",), ("a", "b")):
                        a0 = eval_memoize(f.node, False, succ, args)
                        a1 = eval_memoize(f.node, True, succ, args)
                        if a0 != a1 or a0[3] != (0, True, True):
                            diffs.append((succ, args, a0[:4], a1[:4]))
                if not diffs:
                    chk.ok("V1-verbose-erasure", key, f.where, "residuals differ in shape; equal by evaluation over outcome x arguments")
                    continue
            except EvalError:
                pass
        # report the first differing line
        a, b = dump(r0).splitlines(), dump(r1).splitlines()
        diff = next(((x, y) for x, y in zip(a + [""] * len(b), b + [""] * len(a)) if x != y), ("", ""))
        extra = f" (the trace calls `{eraser.offenders[0]}`, which is not one of the harmless conversions, so the log line itself can fail " \
                f"or change state)" if eraser.offenders else ""
        chk.fail("V1-verbose-erasure", key, f.where,
                 f"after substituting the flag and erasing print-only statements the verbose and non-verbose versions of `{q}` are "
                 f"different programs: non-verbose has `{diff[0].strip()[:70]}` where verbose has `{diff[1].strip()[:70]}` — turning "
                 f"tracing on changes what the parser does{extra}")
    # code that runs only for the trace must not be able to raise on its own: (a) a `finally` that reads a local first bound inside
    # its `try` body (unbound when the body raised), (b) `%`-formatting whose format string is built from data
    for q, g in sorted(ix.funcs.items()):
        if g.rel not in (repo.SUBHEADER, repo.TOKENIZER):
            continue
        for t in [n for n in own_nodes(g.node) if isinstance(n, ast.Try) and n.finalbody]:
            bound_in_try = {x.id for b in t.body for x in ast.walk(b) if isinstance(x, ast.Name) and isinstance(x.ctx, ast.Store)}
            # definitely bound before the try: simple statements that precede it in its own block or in an enclosing one
            bound_before = {a.arg for a in g.node.args.args + g.node.args.kwonlyargs}
            if g.node.args.vararg:
                bound_before.add(g.node.args.vararg.arg)

            def chain(block, target):
                for i, st in enumerate(block):
                    if st is target:
                        return [block[:i]]
                    for fld in ("body", "orelse", "finalbody"):
                        sub = getattr(st, fld, None)
                        if isinstance(sub, list) and sub and isinstance(sub[0], ast.stmt):
                            r = chain(sub, target)
                            if r is not None:
                                return [block[:i]] + r
                return None

            for pre in chain(g.node.body, t) or []:
                for st in pre:
                    if isinstance(st, (ast.Assign, ast.AugAssign, ast.AnnAssign, ast.Expr, ast.Import, ast.ImportFrom)):
                        bound_before |= {x.id for x in ast.walk(st) if isinstance(x, ast.Name) and isinstance(x.ctx, ast.Store)}
            read_in_final = {x.id for b in t.finalbody for x in ast.walk(b) if isinstance(x, ast.Name) and isinstance(x.ctx, ast.Load)}
            risky = sorted((bound_in_try - bound_before) & read_in_final)
            chk.count("V1-verbose-erasure")
            chk.require(not risky, "V1-verbose-erasure", f"{q}:finally-reads:{','.join(risky)}", f"{g.rel}:{t.lineno}",
                        f"the `finally` block reads {risky}, first bound inside the `try` body: when the body raises the name is unbound and "
                        f"an UnboundLocalError replaces the real error (only with verbose=True if the read is in the trace)")
        for n in own_nodes(g.node):
            # (c) a table indexed by the trace depth: the depth is unbounded (it follows the nesting of the input), a table is not
            if isinstance(n, ast.Subscript) and not isinstance(n.slice, ast.Slice) and "_level" in norm_stmt(n.slice) and \
                    isinstance(n.ctx, ast.Load):
                chk.count("V1-verbose-erasure")
                chk.fail("V1-verbose-erasure", f"{q}:table-by-depth:{norm_stmt(n)[:40]}", f"{g.rel}:{n.lineno}",
                         f"`{norm_stmt(n)}` indexes a finite table with the trace depth, which grows with the nesting of the input: beyond "
                         f"the table's length the trace raises IndexError, so verbose=True changes the outcome of the parse")
            if isinstance(n, ast.BinOp) and isinstance(n.op, ast.Mod) and isinstance(n.left, ast.JoinedStr) and \
                    any(isinstance(v, ast.FormattedValue) for v in n.left.values):
                chk.count("V1-verbose-erasure")
                chk.fail("V1-verbose-erasure", f"{q}:format-from-data", f"{g.rel}:{n.lineno}",
                         f"`{norm_stmt(n)[:70]}` uses a format string that contains interpolated data: a `%` in a token's text makes the "
                         f"trace raise TypeError/ValueError, so verbose=True changes the outcome of the parse")
    # helpers that erased log statements are allowed to call must themselves be transparent: they look, format and return;
    # they do not catch exceptions (an error swallowed in the trace surfaces later in a different form), write state or loop
    for q in ("Parser.showpeek",):
        g = ix.funcs.get(q)
        chk.count("V1-verbose-erasure")
        if g is None:
            chk.fail("V1-verbose-erasure", f"{q}:transparent", repo.SUBHEADER, f"trace helper {q} vanished")
            continue
        why = ""
        for n in own_nodes(g.node):
            if isinstance(n, (ast.Try, ast.While, ast.For, ast.With)):
                why = f"it contains a `{type(n).__name__.lower()}` statement"
            if isinstance(n, (ast.Assign, ast.AugAssign)) and any(isinstance(t, (ast.Attribute, ast.Subscript))
                                                                 for t in (n.targets if isinstance(n, ast.Assign) else [n.target])):
                why = f"it writes state (`{norm_stmt(n)[:40]}`)"
            if isinstance(n, ast.Call):
                name = norm_stmt(n.func)
                aliases = {norm_stmt(a.targets[0]) for qq, ff in ix.funcs.items() if qq == "Parser.__init__" for a in own_nodes(ff.node)
                           if isinstance(a, ast.Assign) and len(a.targets) == 1 and norm_stmt(a.value) == "self._tokenizer.peek"}
                if name not in ("self._tokenizer.peek", "repr", "str", "len", "format") and name not in aliases \
                        and not name.endswith((".format", ".join")):
                    why = f"it calls `{name}`"
        chk.require(not why, "V1-verbose-erasure", f"{q}:transparent", g.where,
                    f"the trace helper must only peek and format, but {why}: with verbose=True the parse can then take a different "
                    f"course (e.g. a TokenError swallowed here leaves the token generator finished, and the rule sees 'unexpected EOF')")
    chk.floor("V1-verbose-erasure", 5)
    # the flag is only ever read, stored by the constructors and forwarded by the entry points
    for q, f in sorted(ix.funcs.items()):
        for n in own_nodes(f.node):
            if isinstance(n, (ast.Assign, ast.AugAssign)):
                tg = n.targets if isinstance(n, ast.Assign) else [n.target]
                for t in tg:
                    if isinstance(t, ast.Attribute) and t.attr == "_verbose":
                        chk.count("V1-flag-stores")
                        chk.require(f.node.name == "__init__" and norm_stmt(n.value) == "verbose", "V1-flag-stores",
                                    f"{q}:{norm_stmt(n)}", f"{f.rel}:{n.lineno}", "the verbose flag may only be set from the option")


def rule_v3(chk: Check, ix: Index, ir):
    # reads of py_version
    reads = []
    for q, f in sorted(ix.funcs.items()):
        for n in own_nodes(f.node):
            if isinstance(n, ast.Attribute) and n.attr == "py_version" and isinstance(n.ctx, ast.Load):
                reads.append((q, f, n))
    for q, f, n in reads:
        chk.count("V3-py-version")
        chk.require(q == "Parser.check_version", "V3-py-version", f"{q}:read", f"{f.rel}:{n.lineno}",
                    "py_version may only be consulted by check_version")
    gen = parse_py(repo.PARSER_X)
    for n in ast.walk(gen):
        if isinstance(n, ast.Attribute) and n.attr == "py_version":
            chk.fail("V3-py-version", f"{repo.PARSER_X}:py_version", f"{repo.PARSER_X}:{n.lineno}",
                     "a generated rule consults py_version directly")
    init = ix.get("Parser.__init__")
    st = [norm_stmt(n) for n in own_nodes(init.node) if isinstance(n, ast.Assign) and norm_stmt(n.targets[0]) == "self.py_version"]
    chk.count("V3-py-version")
    chk.require(st == ["self.py_version = min(py_version, sys.version_info) if py_version else sys.version_info"],
                "V3-py-version", "Parser.__init__:clamp", init.where,
                f"the option must default to, and be clamped by, the running interpreter's version (found {st})")
    cv = ix.get("Parser.check_version")
    from ..pyflow import stmt_paths
    chk.count("V3-py-version")
    try:
        ps = stmt_paths(cv.node.body)
    except AnalysisError:
        ps = set()
    ACCEPT = {"self.py_version >= min_version": True, "min_version <= self.py_version": True,
              "self.py_version < min_version": False, "min_version > self.py_version": False}
    ok = len(ps) == 2
    for pth in ps:
        conds = [x for x in pth if x[0] == "cond"]
        if len(conds) != 1 or conds[0][1] not in ACCEPT or len(pth) != 2:
            ok = False
            continue
        high_enough = (conds[0][2] == ACCEPT[conds[0][1]])
        if high_enough:
            ok = ok and pth[-1][1:] == ("return", "node")
        else:
            ok = ok and pth[-1][1] == "raise" and "min_version" in pth[-1][2]
    chk.require(ok, "V3-py-version", "Parser.check_version:monotone", cv.where,
                "check_version must return the node unchanged when py_version >= min_version and otherwise raise naming min_version "
                "(monotone gate: a higher version never rejects what a lower one accepts)")
    # call sites and their floors
    want = {"TryStar": (3, 11), "TypeAlias": (3, 12)}
    sites = []
    for rule, key, a in actions.all_alts(ir.rules):
        if a.action is None:
            continue
        for n in ast.walk(a.action):
            if isinstance(n, ast.Call) and isinstance(n.func, ast.Attribute) and n.func.attr == "check_version":
                sites.append((rule, key, a, n))
    for rule, key, a, n in sites:
        chk.count("V3-py-version")
        try:
            floor = ast.literal_eval(n.args[0])
        except Exception:
            floor = None
        built = {c.func.attr for c in actions.ast_calls(n.args[2])} if len(n.args) == 3 else set()
        expected = None
        for cls, v in want.items():
            if cls in built:
                expected = v
        if expected is None and rule.name == "type_params":
            expected = (3, 12)
        chk.require(floor == expected and expected is not None, "V3-py-version", f"{key}:floor", str(a.pos),
                    f"version floor {floor} for {sorted(built) or rule.name}; the syntax was introduced in {expected}")
    chk.count("V3-py-version")
    chk.require(len(sites) == 3, "V3-py-version", "check_version:sites", repo.PARSER_X,
                f"exactly the three version-gated constructs (except*, type statement, type parameter lists) are gated; found {len(sites)}")
    # every construction of a gated node sits under a gate
    for rule, key, a in actions.all_alts(ir.rules):
        if a.action is None:
            continue
        for c in actions.ast_calls(a.action):
            if c.func.attr in want:
                chk.count("V3-py-version")
                gated = any(isinstance(n, ast.Call) and isinstance(n.func, ast.Attribute) and n.func.attr == "check_version"
                            and any(c is x for x in ast.walk(n)) for n in ast.walk(a.action))
                chk.require(gated, "V3-py-version", f"{key}:ast.{c.func.attr}:gated", str(a.pos),
                            f"ast.{c.func.attr} is built without passing through check_version: lowering py_version would not reject it")


def run(chk: Check):
    chk.explanation = (
        "V1: for every function that reads the verbose flag, two residual programs are built by substituting the flag with False "
        "and True, folding the tests and erasing print-only statements (print, the nesting counter, print-only methods, locals "
        "that only feed them); after three sound normalisations the residuals must be the same program, so tracing cannot change "
        "what the parser does. V2 discharges the one known difference by a lemma checked in the same function. V3: py_version is "
        "read only by a monotone gate, clamped by the running interpreter, applied with the right floors to exactly the "
        "version-gated constructs.")
    chk.trusted = ["the erasure rules (what counts as print-only)", "syntactic equality of residual ASTs"]
    chk.assumptions = ["showpeek() only peeks the token the wrapped rule would fetch next anyway",
                       "str()/repr() of trees and tokens in log lines have no side effects"]
    ix = Index()
    ir = repo.ir_x()
    rule_v1(chk, ix)
    rule_v3(chk, ix, ir)
    chk.floor("V3-py-version", 8)
