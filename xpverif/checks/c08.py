"""C08 — the tokenizer is lossless: per construction site, token text is the slice of its span (DESIGN §4 C08, L1–L4)."""
from __future__ import annotations

import ast
import re as _re
from typing import Optional

from .. import constfold, repo, rx
from ..common import AnalysisError, Check, norm_stmt, parse_py
from ..pyflow import Index, own_nodes


def _local_defs(fn: ast.FunctionDef) -> dict[str, list[ast.expr]]:
    """name -> expressions assigned to it (tuple assignments are split)."""
    out: dict[str, list[ast.expr]] = {}
    for n in own_nodes(fn):
        if isinstance(n, ast.Assign):
            for t in n.targets:
                if isinstance(t, ast.Name):
                    out.setdefault(t.id, []).append(n.value)
                elif isinstance(t, ast.Tuple) and isinstance(n.value, ast.Tuple) and len(t.elts) == len(n.value.elts):
                    for a, b in zip(t.elts, n.value.elts):
                        if isinstance(a, ast.Name):
                            out.setdefault(a.id, []).append(b)
                elif isinstance(t, ast.Tuple) and isinstance(n.value, ast.Call):
                    for i, a in enumerate(t.elts):
                        if isinstance(a, ast.Name):
                            out.setdefault(a.id, []).append(ast.Subscript(n.value, ast.Constant(i), ast.Load()))
        elif isinstance(n, ast.NamedExpr) and isinstance(n.target, ast.Name):
            out.setdefault(n.target.id, []).append(n.value)
    return out


def _resolve(e: ast.expr, defs) -> ast.expr:
    """Follow single-definition locals."""
    seen = set()
    while isinstance(e, ast.Name) and e.id in defs and len(defs[e.id]) == 1 and e.id not in seen:
        seen.add(e.id)
        e = defs[e.id][0]
    return e


def _pos(e: ast.expr, defs) -> Optional[tuple[str, str]]:
    e = _resolve(e, defs)
    if isinstance(e, ast.Tuple) and len(e.elts) == 2:
        return norm_stmt(e.elts[0]), norm_stmt(_resolve(e.elts[1], {}))
    return None


def classify_site(call: ast.Call, fn: ast.FunctionDef) -> tuple[bool, str]:
    """Is `string == line[start_col:end_col]` provable for this TokenInfo(...) construction?"""
    defs = _local_defs(fn)
    args = list(call.args)
    kw = {k.arg: k.value for k in call.keywords}
    names = ["type", "string", "start", "end", "line"]
    vals = {}
    for i, n in enumerate(names):
        if i < len(args):
            vals[n] = args[i]
        elif n in kw:
            vals[n] = kw[n]
    if not {"string", "start", "end"} <= set(vals):
        return False, "cannot see string/start/end arguments"
    s_expr = _resolve(vals["string"], defs)
    sp, ep = _pos(vals["start"], defs), _pos(vals["end"], defs)
    if sp is None or ep is None:
        # multi-line accumulation: text/start of an EndProg with the current position as end (L2)
        if norm_stmt(vals["string"]) == "endprog.text" and norm_stmt(vals["start"]) == "endprog.start":
            return True, "accumulated text (checked by L2)"
        return False, f"start/end are not (line, column) pairs: {norm_stmt(vals['start'])}, {norm_stmt(vals['end'])}"
    (sl, sc), (el, ec) = sp, ep
    # the `line` handed out with the token is the physical line its start row names
    if "line" in vals:
        lt = norm_stmt(_resolve(vals["line"], defs))
        import re as _re3
        m = _re3.fullmatch(r"(\w+)\.(line|last_line)", lt)
        if m:
            want_row = f"{m.group(1)}.lnum" if m.group(2) == "line" else f"{m.group(1)}.lnum - 1"
            if sl != want_row:
                return False, (f"the token is placed on row `{sl}` but carries `{lt}` as its line (the text of row `{want_row}`): error "
                               f"text and the line cache then show a line under the number of another one")
    # columns are character indices into the line; the indentation *measure* (tab-expanded, reset by form feeds) is not one
    measures = {n.targets[0].id for n in ast.walk(fn) if isinstance(n, ast.Assign) and isinstance(n.targets[0], ast.Name)
                and any(isinstance(x, ast.Name) and x.id == "tabsize" for x in ast.walk(n.value))}
    used = {x.id for e0 in (vals["start"], vals["end"]) for x in ast.walk(_resolve(e0, defs)) if isinstance(x, ast.Name)}
    if measures & used:
        return False, (f"a coordinate is the indentation measure `{sorted(measures & used)[0]}` (tabs expanded, form feed resets it), not a "
                       f"character index: on a tab-indented line the token lies outside its line")
    # `state.max` is `len(state.line)` (set together with the line in move_next_line; checked by T1): one spelling
    sc, ec = sc.replace("state.max", "len(state.line)"), ec.replace("state.max", "len(state.line)")
    s = norm_stmt(s_expr)
    same_line = sl == el
    # P4: empty text
    if isinstance(s_expr, ast.Constant) and s_expr.value == "":
        if same_line and (sc == ec or ec in (f"{sc} + 1",) and sc.startswith("len(")):
            return True, "empty text, empty (or past-the-end) span"
        return False, f"empty text but span {sc}..{ec}"
    # P1: slice
    m = _re.fullmatch(r"(.+)\[(.*):(.*)\]", s)
    if m and isinstance(s_expr, ast.Subscript) and isinstance(s_expr.slice, ast.Slice):
        base, lo, hi = norm_stmt(s_expr.value), s_expr.slice.lower, s_expr.slice.upper
        lo_s = norm_stmt(lo) if lo is not None else "0"
        hi_s = (norm_stmt(hi) if hi is not None else f"len({base})").replace("state.max", "len(state.line)")
        if same_line and sc == lo_s and ec == hi_s:
            return True, "slice of its own span"
        return False, f"text is {base}[{lo_s}:{hi_s}] but the span is {sc}..{ec}"
    # P3: single character
    if isinstance(s_expr, ast.Subscript) and not isinstance(s_expr.slice, ast.Slice):
        idx = norm_stmt(s_expr.slice)
        if same_line and sc == idx and ec == f"{idx} + 1":
            return True, "one character"
        return False, f"text is the character at {idx} but the span is {sc}..{ec}"
    # P2: prefix of the rest of the line obtained by stripping the line end
    if isinstance(s_expr, ast.Call) and isinstance(s_expr.func, ast.Attribute) and s_expr.func.attr == "rstrip" and \
            isinstance(s_expr.func.value, ast.Subscript) and isinstance(s_expr.func.value.slice, ast.Slice) and \
            s_expr.func.value.slice.upper is None:
        lo = norm_stmt(s_expr.func.value.slice.lower)
        name = norm_stmt(vals["string"])
        if same_line and sc == lo and ec == f"{lo} + len({name})":
            return True, "prefix of the rest of the line"
        return False, f"text starts at {lo} but the span is {sc}..{ec}"
    # P7: a fixed delimiter emitted at the current position, which the code before has moved to end - len(delimiter)
    def one_char(e):
        return isinstance(e, ast.Constant) and isinstance(e.value, str) and len(e.value) == 1
    if s in ("endprog.quote",) or one_char(s_expr) or (isinstance(s_expr, ast.IfExp) and one_char(s_expr.body) and one_char(s_expr.orelse)):
        width = "len(endprog.quote)" if s == "endprog.quote" else "1"
        if not (same_line and sc == "state.pos" and ec == "end"):
            return False, f"delimiter of width {width} but the span is {sc}..{ec}"
        # where did the text before the delimiter end?  On every path that emits this token: the boundary handed to
        # `state.prog_token(B, ..)` and/or tested as `B > state.pos` (locals resolved along the path) must be end - width
        from ..fprogs import delimiter_paths
        from ..pyflow import Index as _Index
        if fn.name != "handle_fstring_progs":
            return False, "a fixed delimiter outside handle_fstring_progs"
        me = _boundaries(fn, call)
        # a local that names an access path at the top of the function (`endprog = state.end_progs[-1]`) and the path itself are
        # the same thing to this comparison: copy propagation may have expanded one side and (correctly) not the other
        aliases = {norm_stmt(st.value): st.targets[0].id for st in fn.body
                   if isinstance(st, ast.Assign) and len(st.targets) == 1 and isinstance(st.targets[0], ast.Name)
                   and isinstance(st.value, (ast.Attribute, ast.Subscript))}
        for txt, nm in aliases.items():
            me = [x.replace(txt, nm) for x in me]
        if me and all(x == f"end - {width}" for x in me):
            return True, "delimiter at the position the preceding middle token ended"
        return False, f"delimiter of width {width} at state.pos..end but the middle part before it ends at {sorted(me)}"
    return False, f"text `{s}` is not visibly the slice {sc}..{ec} of its line"


def _boundaries(fn: ast.FunctionDef, call_text: str) -> set[str]:
    import re as _re2
    from ..fprogs import _inline_flags
    from ..pyflow import stmt_paths
    out: set[str] = set()
    inlined = _inline_flags(fn)
    if isinstance(call_text, ast.Call):      # the call as it reads once the branch flags are inlined
        call_text = next((norm_stmt(c) for st in inlined for c in ast.walk(st) if isinstance(c, ast.Call)
                          and (c.lineno, c.col_offset) == (call_text.lineno, call_text.col_offset)), norm_stmt(call_text))
    for p in stmt_paths(inlined, split_bool=True):
        if not any(x[0] == "do" and call_text in x[1] for x in p):
            continue
        env: dict[str, str] = {}
        found = set()
        conds = {x[1]: x[2] for x in p if x[0] == "cond"}

        def resolve(t: str) -> str:
            tree = ast.parse(t, mode="eval").body
            for _ in range(4):
                names = {n.id for n in ast.walk(tree) if isinstance(n, ast.Name)} & set(env)
                if not names:
                    break

                class R(ast.NodeTransformer):
                    def visit_Name(self, node):
                        return ast.parse(env[node.id], mode="eval").body if node.id in env else node
                tree = R().visit(tree)

            class C(ast.NodeTransformer):  # a conditional expression whose test was decided on this path
                def visit_IfExp(self, node):
                    self.generic_visit(node)
                    v = conds.get(norm_stmt(node.test))
                    return node if v is None else (node.body if v else node.orelse)
            tree = C().visit(ast.Expression(body=tree)).body
            return norm_stmt(tree)
        for x in p:
            if x[0] == "do":
                if call_text in x[1]:
                    break
                m = _re2.fullmatch(r"([A-Za-z_]\w*) = (.+)", x[1])
                if m and "yield" not in m.group(2) and not any(
                        isinstance(c, ast.Call) and not (isinstance(c.func, ast.Name) and c.func.id == "len") for c in ast.walk(ast.parse(m.group(2)))):
                    env[m.group(1)] = resolve(m.group(2))
                for c in ast.walk(ast.parse(x[1])):
                    if isinstance(c, ast.Call) and norm_stmt(c.func) == "state.prog_token" and c.args:
                        found.add(resolve(norm_stmt(c.args[0])))
            elif x[0] == "cond":
                t = ast.parse(x[1], mode="eval").body
                if isinstance(t, ast.Compare) and len(t.ops) == 1 and isinstance(t.ops[0], ast.Gt) and norm_stmt(t.comparators[0]) == "state.pos":
                    found.add(resolve(norm_stmt(t.left)))
                elif isinstance(t, ast.Compare) and len(t.ops) == 1 and isinstance(t.ops[0], ast.Lt) and norm_stmt(t.left) == "state.pos":
                    found.add(resolve(norm_stmt(t.comparators[0])))
        if not found:
            found.add("<nothing>")
        out |= found
    return out


def _classify_through_callers(ix: Index, f, call: ast.Call, why0: str) -> tuple[bool, str]:
    """A TokenInfo built by a small helper from its parameters: substitute the arguments of every call of the helper and classify
    the construction in the caller's context."""
    import copy
    params = [a.arg for a in f.node.args.args]
    used = {x.id for x in ast.walk(call) if isinstance(x, ast.Name)} & set(params) - {"state", "self"}
    if not used or f.cls is not None:
        return False, why0
    sites = []
    for q, g in ix.funcs.items():
        if g.rel != f.rel or g.node is f.node:
            continue
        for c in own_nodes(g.node):
            if isinstance(c, ast.Call) and isinstance(c.func, ast.Name) and c.func.id == f.node.name and not c.keywords and len(c.args) == len(params):
                sites.append((g, c))
    if not sites:
        return False, why0
    for g, c in sites:
        sub = dict(zip(params, c.args))

        class R(ast.NodeTransformer):
            def visit_Name(self, node):
                if node.id in sub and isinstance(node.ctx, ast.Load) and node.id != "state":
                    return copy.deepcopy(sub[node.id])
                return node
        new = R().visit(copy.deepcopy(call))
        ast.fix_missing_locations(new)
        for x in ast.walk(new):
            if not hasattr(x, "lineno"):
                continue
            x.lineno = c.lineno
        ok, why = classify_site(new, g.node)
        if not ok:
            return False, f"(through {g.qual}) {why}"
    return True, f"helper classified at {len(sites)} call site(s)"


def rule_l1(chk: Check, ix: Index):
    for q, f in sorted(ix.funcs.items()):
        if f.rel != repo.TOKENIZE:
            continue
        counts: dict[str, int] = {}
        for n in sorted([x for x in own_nodes(f.node) if isinstance(x, ast.Call) and norm_stmt(x.func) == "TokenInfo"],
                        key=lambda x: (x.lineno, x.col_offset)):
            kind = norm_stmt(n.args[0]) if n.args else "?"
            i = counts.get(kind, 0)
            counts[kind] = i + 1
            chk.count("L1-text-is-span")
            ok, why = classify_site(n, f.node)
            if not ok:
                ok, why = _classify_through_callers(ix, f, n, why)
            chk.require(ok, "L1-text-is-span", f"{q}:{kind}" + (f"@{i}" if i else ""), f"{f.rel}:{n.lineno}",
                        f"token text and coordinates disagree: {why}")
    # the invariant the spans lean on: `max` is the length of the current line, re-established whenever the line changes
    chk.count("L1-text-is-span")
    bad = []
    for q, f in sorted(ix.funcs.items()):
        if f.rel != repo.TOKENIZE or f.cls != "TokenizerState":
            continue
        sets_line = [n for n in own_nodes(f.node) if isinstance(n, ast.Assign) and any(norm_stmt(t) == "self.line" for t in n.targets)]
        sets_max = [norm_stmt(n) for n in own_nodes(f.node) if isinstance(n, ast.Assign) and any(norm_stmt(t) == "self.max" for t in n.targets)]
        if sets_line and "self.max = len(self.line)" not in sets_max and f.node.name != "__init__":
            bad.append(q)
        if any(m not in ("self.max = len(self.line)", "self.max = 0") for m in sets_max):
            bad.append(q + ":" + str(sets_max))
    for q, f in sorted(ix.funcs.items()):
        if f.rel == repo.TOKENIZE and f.cls != "TokenizerState":
            for n in own_nodes(f.node):
                if isinstance(n, (ast.Assign, ast.AugAssign)):
                    tg = n.targets if isinstance(n, ast.Assign) else [n.target]
                    if any(norm_stmt(t) in ("state.max", "state.line") for t in tg):
                        bad.append(f"{q}:{norm_stmt(n)[:40]}")
    chk.require(not bad, "L1-text-is-span", "TokenizerState:max-is-line-length", repo.TOKENIZE,
                f"`max` must equal `len(line)` whenever a line is current (it bounds every scan and closes spans); broken by {bad[:2]}")
    chk.floor("L1-text-is-span", 12)


def rule_l5(chk: Check, ix: Index, rule_id: str = "L5-line-model"):
    """Only "\\n" (after the universal-newline translation done once at the entry points) ends a line.  `str.splitlines` also
    breaks at form feed, vertical tab, FS/GS/RS, NEL and the Unicode line/paragraph separators — ordinary characters inside a
    Python line — so it must not be used on source text anywhere in the runtime (expected count: zero; the matcher is tried on a
    built-in positive example on every run)."""
    def hits(tree):
        return [n for n in ast.walk(tree) if isinstance(n, ast.Call) and isinstance(n.func, ast.Attribute) and n.func.attr == "splitlines"]
    if len(hits(ast.parse("for l in source.splitlines(keepends=True): pass"))) != 1:
        raise AnalysisError("L5: the splitlines matcher does not match its own example")
    n_funcs = 0
    for q, f in sorted(ix.funcs.items()):
        if f.rel not in (repo.TOKENIZE, repo.TOKENIZER, repo.SUBHEADER):
            continue
        n_funcs += 1
        for h in hits(f.node):
            if any(h is x for sub in ast.walk(f.node) if isinstance(sub, (ast.FunctionDef, ast.AsyncFunctionDef)) and sub is not f.node
                   for x in ast.walk(sub)):
                continue
            chk.count(rule_id)
            chk.fail(rule_id, f"{f.rel}:{q}:splitlines", f"{f.rel}:{h.lineno}",
                     f"`{norm_stmt(h)[:60]}` splits source text with str.splitlines: a form feed (page break), \\x0b, \\x1c-\\x1e, \\x85 or "
                     f"U+2028/2029 inside a line then starts a new 'line' — tokens no longer tile the source, later line numbers shift, "
                     f"text after a page break is dropped")
    chk.count(rule_id)
    chk.ok(rule_id, "runtime-modules:scanned", repo.TOKENIZE, f"{n_funcs} functions scanned")
    # the scanner's current line is the text the reader delivered, untouched: every store to `.line` of the scanner state is
    # a read (`readline()`) or the end-of-input marker ""
    n_writes = 0
    for q, f in sorted(ix.funcs.items()):
        if f.rel != repo.TOKENIZE or f.cls not in (None, "TokenizerState"):
            continue
        for n in own_nodes(f.node):
            tgts = []
            if isinstance(n, ast.Assign):
                tgts = [(t, n.value) for t in n.targets]
            elif isinstance(n, (ast.AugAssign, ast.AnnAssign)) and n.value is not None:
                tgts = [(n.target, None if isinstance(n, ast.AugAssign) else n.value)]
            for t, v in tgts:
                for tt, vv in (zip(t.elts, v.elts) if isinstance(t, ast.Tuple) and isinstance(v, ast.Tuple) and len(t.elts) == len(v.elts) else [(t, v)]):
                    if isinstance(tt, ast.Attribute) and tt.attr == "line" and norm_stmt(tt.value) in ("self", "state"):
                        n_writes += 1
                        chk.count(rule_id)
                        okv = vv is not None and ((isinstance(vv, ast.Constant) and vv.value == "") or
                                                  (isinstance(vv, ast.Call) and norm_stmt(vv.func) in ("self.readline", "state.readline", "readline")
                                                   and not vv.args))
                        chk.require(okv, rule_id, f"{q}:line-is-what-was-read", f"{f.rel}:{n.lineno}",
                                    f"`{norm_stmt(n)[:70]}` changes the scanner's current line: columns are indices into the line as it was "
                                    f"read, so a character removed or rewritten here lies in no token and every later token of the line is "
                                    f"reported at a shifted column")
    if n_writes < 2:
        raise AnalysisError("L5: the stores to the scanner's current line were not found (expected the read and the end-of-input marker)")


def rule_l2(chk: Check, ix: Index):
    ep = ix.classes.get("EndProg")
    ts = ix.classes.get("TokenizerState")
    if ep is None or ts is None:
        raise AnalysisError("EndProg/TokenizerState vanished")
    # text: exactly the unread part of the line; line record: every physical line the text lies on, first to current, once each
    # (decided on path sets with the line-covering helper inlined, so helper-vs-inline and if/else shapes do not matter)
    from ..pyflow import stmt_paths

    def paths_of(q: str, depth: int = 0):
        f = ix.get(q)
        out = set()
        for pth in stmt_paths(f.node.body):
            variants = [()]
            for x in pth:
                m = _re.fullmatch(r"self\.(\w+)\((.*)\)", x[1]) if x[0] == "do" else None
                callee = ix.funcs.get(f"EndProg.{m.group(1)}") if m else None
                if callee is not None and callee.node is not f.node and depth < 2:
                    # inline the helper: its parameters stand for the argument texts
                    params = [a.arg for a in callee.node.args.args if a.arg != "self"]
                    call = ast.parse(x[1], mode="eval").body
                    args = [norm_stmt(a) for a in call.args]
                    if len(args) != len(params) or call.keywords:
                        variants = [v + (x,) for v in variants]
                        continue
                    _f2, sub_paths = paths_of(f"EndProg.{m.group(1)}", depth + 1)
                    subs = []
                    for sp in sub_paths:
                        if sp and sp[-1][0] == "exit" and sp[-1][1] not in ("end", "return"):
                            continue
                        body = sp[:-1] if sp and sp[-1][0] == "exit" else sp
                        ren = []
                        for y in body:
                            t = y[1]
                            for pn, av in zip(params, args):
                                if pn != av:
                                    t = _re.sub(rf"\b{pn}\b", av, t)
                            ren.append((y[0], t, *y[2:]))
                        subs.append(tuple(ren))
                    variants = [v + sub for v in variants for sub in subs]
                else:
                    variants = [v + (x,) for v in variants]
            out |= set(variants)
        # one spelling for "to the end of the line"
        out = {tuple((y[0], y[1].replace("state.line[state.pos:len(state.line)]", "state.line[state.pos:]"), *y[2:]) for y in pth) for pth in out}
        return f, out

    COVER_TESTS = {"state.lnum > self.upto": True, "self.upto < state.lnum": True, "state.lnum != self.upto": True,
                   "state.lnum <= self.upto": False, "state.lnum == self.upto": False}
    # the accumulating methods: those of EndProg that (helpers inlined) add to `self.text`.  What they append is the slice of
    # the line from the scan position to their bound parameter, or to the end of the line when they have none (or it is None)
    accum: dict[str, Optional[str]] = {}
    for q in sorted(ix.funcs):
        if not q.startswith("EndProg.") or q.endswith(".__init__"):
            continue
        try:
            _f0, ps0 = paths_of(q)
        except AnalysisError:
            continue
        texts = {e for pth in ps0 for e in [x[1] for x in pth if x[0] == "do"] if e.startswith("self.text +=")}
        if texts:
            params = [a.arg for a in ix.get(q).node.args.args if a.arg not in ("self", "state")]
            accum[q] = params[0] if params else None
    if not accum:
        raise AnalysisError("no EndProg method accumulates text")
    chk.units["accumulating_methods"] = sorted(accum)
    for q, bound in sorted(accum.items()):
        want_text = f"self.text += state.line[state.pos:{bound}]" if bound else "self.text += state.line[state.pos:]"
        what = f"the unread part of the line up to `{bound}`" if bound else "the unread rest of the line"
        f, ps = paths_of(q)
        chk.count("L2-accumulation")
        bad = ""
        for pth in ps:
            eff = [x[1] for x in pth if x[0] == "do"]
            conds = {x[1]: x[2] for x in pth if x[0] == "cond"}
            if [e for e in eff if e.startswith("self.text")] != [want_text]:
                bad = f"text effects {[e for e in eff if e.startswith('self.text')]}"
            new_line = [COVER_TESTS[c] == t for c, t in conds.items() if c in COVER_TESTS]
            line_eff = [e for e in eff if e.startswith(("self.contline", "self.upto"))]
            if len(new_line) != 1:
                bad = "the line record is not guarded by a comparison of the current line number with the last one recorded"
            elif new_line[0] and sorted(line_eff) != ["self.contline += state.line", "self.upto = state.lnum"]:
                bad = f"on a new line the record must gain that line once and remember its number; effects {line_eff}"
            elif not new_line[0] and line_eff:
                bad = f"a line already recorded is recorded again; effects {line_eff}"
        chk.require(not bad and bool(ps), "L2-accumulation", q, f.where,
                    f"{q.split('.')[1]} must append exactly {what} to the text and make the token's `line` hold every physical line the text "
                    f"lies on exactly once (a multi-line string's first line twice, or its last line missing, gives wrong error text and "
                    f"with-macro bodies); {bad}")
    # every caller moves the position to where the appended text ended
    for q, f in sorted(ix.funcs.items()):
        if f.rel != repo.TOKENIZE:
            continue
        body_stmts = [s for s in ast.walk(f.node) if isinstance(s, ast.stmt)]
        for n in own_nodes(f.node):
            if isinstance(n, ast.Call) and isinstance(n.func, ast.Attribute) and f"EndProg.{n.func.attr}" in accum \
                    and norm_stmt(n.func.value) in ("endprog", "state.end_progs[-1]", "self.end_progs[-1]"):
                chk.count("L2-accumulation")
                # the bound actually passed at this site (a missing / None bound means: to the end of the line)
                bound = accum[f"EndProg.{n.func.attr}"]
                passed = None
                if bound:
                    callee = ix.get(f"EndProg.{n.func.attr}").node
                    pnames = [a.arg for a in callee.args.args if a.arg != "self"]
                    bind = dict(zip(pnames, n.args))
                    bind.update({k.arg: k.value for k in n.keywords if k.arg})
                    v = bind.get(bound)
                    if v is None:
                        dflt = dict(zip(pnames[len(pnames) - len(callee.args.defaults):], callee.args.defaults)).get(bound)
                        v = dflt
                    if v is not None and not (isinstance(v, ast.Constant) and v.value is None):
                        passed = norm_stmt(v)
                st_name = norm_stmt(n.args[0]) if n.args else "state"
                want = f"{st_name}.pos = {passed}" if passed else "state.pos = state.max"
                # the statement right after the call in the same block
                follows = False
                for blk in [x for x in ast.walk(f.node) if hasattr(x, "body") and isinstance(getattr(x, "body"), list)]:
                    for fld in ("body", "orelse"):
                        seq = getattr(blk, fld, [])
                        if not isinstance(seq, list):
                            continue
                        for i, st in enumerate(seq):
                            if any(n is x for x in ast.walk(st)) and i + 1 < len(seq) and norm_stmt(seq[i + 1]) == want:
                                follows = True
                chk.require(follows, "L2-accumulation", f"{q}:{n.func.attr}", f"{f.rel}:{n.lineno}",
                            f"after `{norm_stmt(n)}` the scan position must move to the end of the appended text (`{want}`), otherwise "
                            f"characters are emitted twice or skipped")
    ap = ix.get("TokenizerState.add_prog")
    chk.count("L2-accumulation")
    kws = {}
    for n in ast.walk(ap.node):
        if isinstance(n, ast.Call) and norm_stmt(n.func) == "EndProg":
            kws = {k.arg: norm_stmt(k.value) for k in n.keywords if k.arg}
    chk.require(kws.get("text") == "self.line[start:end]" and kws.get("start") == "(self.lnum, start)" and kws.get("contline") == "self.line"
                and kws.get("upto") == "self.lnum",
                "L2-accumulation", "TokenizerState.add_prog", ap.where,
                "a new accumulation must start with the slice [start:end], record (line, start) as its start and the current line (with its "
                "number) as the first physical line")
    # buffered text of earlier lines must be flushed before the mode changes: every guard in front of the FSTRING_MIDDLE emission
    # has to be true whenever the buffer is non-empty
    hf = ix.get("handle_fstring_progs")
    from ..fprogs import delimiter_paths
    for kind, ps in delimiter_paths(ix).items():
        chk.count("L2-accumulation")
        bad = None
        for p in ps:
            if any(x[0] == "do" and "state.prog_token(" in x[1] for x in p):
                continue
            # the middle part is not emitted on this path: some failed test must imply that nothing is buffered
            implied = False
            for x in p:
                if x[0] != "cond":
                    continue
                t = ast.parse(x[1], mode="eval").body
                if x[2] is False:
                    parts = [norm_stmt(v).strip("()") for v in (t.values if isinstance(t, ast.BoolOp) and isinstance(t.op, ast.Or) else [t])]
                    implied = implied or "endprog.text" in parts
                else:
                    parts = [norm_stmt(v).strip("()") for v in (t.values if isinstance(t, ast.BoolOp) and isinstance(t.op, ast.And) else [t])]
                    implied = implied or "not endprog.text" in parts
            if not implied:
                bad = [x[1] for x in p if x[0] == "cond"]
        chk.require(bad is None, "L2-accumulation", f"handle_fstring_progs:flush@{kind}", hf.where,
                    f"on a path ending at the delimiter {kind} the middle part is skipped under {bad}; text buffered from earlier lines of the "
                    f"f-string (`endprog.text`) is dropped when the delimiter is the first character of a line")
    # in brace mode the rest of the line belongs to the expression: the line-joining tail of handle_end_progs must not run
    he = ix.get("handle_end_progs")
    from ..pyflow import CFG
    cfg = CFG(he.node)
    starts = [c.id for c in cfg.nodes if (c.stmt is not None and c.kind == "stmt" and "handle_fstring_progs(" in norm_stmt(c.stmt))
              or (c.kind == "test" and "handle_fstring_progs(" in c.label)]
    acc_calls = tuple(f".{q.split('.')[1]}(" for q in accum)
    joins = [c.id for c in cfg.nodes if c.stmt is not None and c.kind == "stmt" and any(a in norm_stmt(c.stmt) for a in acc_calls)]
    guards = [c.id for c in cfg.nodes if c.kind == "test" and "state.in_braces()" in c.label]
    chk.count("L2-accumulation")
    ok = bool(starts) and bool(joins)
    if ok:
        reach = cfg.reach(starts, edge_ok=lambda a, b, lab: not (a in guards and lab == "T"))
        # after the f-string scanner ran, join_line may only be reached through the False edge of an in_braces() test
        passed_guard = cfg.reach(starts, avoid=guards)
        ok = not (set(joins) & passed_guard)
    chk.require(ok, "L2-accumulation", "handle_end_progs:no-join-in-braces", he.where,
                "after the f-string scanner has opened a replacement field the rest of the line is expression text; the line-joining tail "
                "must be skipped when `state.in_braces()` (otherwise a field left open at a backslash-newline swallows the line without tokens)")
    # The tail of handle_end_progs (join the rest of the line onto the open literal / refuse / leave) by path.  The "scanner step" of a
    # path is the call of the f-string scanner or, for a plain string, the match of its end pattern.
    from ..pyflow import stmt_paths as _sp3
    why_match = why_join = why_open = ""
    # the argument-less predicates of TokenizerState that are `self.in_mode(<Mode subclass>)`, one per subclass of Mode
    tkmod = ix.modules[repo.TOKENIZE]
    mode_classes = {c.name for c in tkmod.body if isinstance(c, ast.ClassDef) and any(norm_stmt(b) == "Mode" for b in c.bases)}
    for st in tkmod.body:      # ... or the members of the union alias `Mode = A | B | C`
        if isinstance(st, ast.Assign) and len(st.targets) == 1 and norm_stmt(st.targets[0]) == "Mode":
            mode_classes |= {n.id for n in ast.walk(st.value) if isinstance(n, ast.Name)}
    if not mode_classes:
        raise AnalysisError("the scanner's Mode classes are not found")
    mode_predicates = {}
    tstate = repo.find_class(tkmod, "TokenizerState")
    for m in tstate.body:
        if isinstance(m, ast.FunctionDef) and len(m.body) == 1 and isinstance(m.body[0], ast.Return) and m.body[0].value is not None:
            t = norm_stmt(m.body[0].value)
            for mc in mode_classes:
                if t == f"self.in_mode({mc})":
                    mode_predicates[m.name] = mc
    # does the f-string scanner report "nothing found" before it touches the state?
    fsp = ix.get("handle_fstring_progs").node
    quiet_nomatch = True
    for k, st in enumerate(fsp.body):
        falsy = [r for r in ast.walk(st) if isinstance(r, ast.Return) and (r.value is None or (isinstance(r.value, ast.Constant) and not r.value.value))]
        if falsy:
            before = fsp.body[:k]
            if any(isinstance(n, (ast.Yield, ast.YieldFrom)) or
                   (isinstance(n, ast.Call) and isinstance(n.func, ast.Attribute) and norm_stmt(n.func.value) == "state" and n.func.attr != "match") or
                   (isinstance(n, (ast.Assign, ast.AugAssign)) and any(norm_stmt(t).startswith("state.") for t in (n.targets if isinstance(n, ast.Assign) else [n.target])))
                   for b in before for n in ast.walk(b)):
                quiet_nomatch = False
    if set(mode_predicates.values()) != mode_classes:
        raise AnalysisError(f"mode predicates {mode_predicates} do not cover the Mode subclasses {sorted(mode_classes)}")
    try:
        for pth in _sp3(he.node.body, split_bool=True):
            step = next((k for k, x in enumerate(pth) if x[0] in ("cond", "do") and
                         ("handle_fstring_progs(" in x[1] or "state.match(state.end_progs[-1].pattern" in x[1])), None)
            if step is None:
                continue
            tail = pth[step + 1:]
            # what the path knows about the step's outcome: the test it sits in, or a later test of the local it was bound to
            step_truth = pth[step][2] if pth[step][0] == "cond" else None
            if pth[step][0] == "do":
                mm = _re.match(r"^([A-Za-z_]\w*) = (?:\(?yield from handle_fstring_progs\(|state\.match\(state\.end_progs\[-1\]\.pattern)", pth[step][1])
                if mm:
                    for x in tail:
                        if x[0] == "cond" and x[1] in (mm.group(1), f"not {mm.group(1)}"):
                            step_truth = x[2] if x[1] == mm.group(1) else (not x[2])
                            break
            if step_truth is False and (quiet_nomatch or "handle_fstring_progs(" not in pth[step][1]):
                # nothing changed between the tests before and after a scanner step that found nothing: a predicate of the state
                # with two different answers makes the path infeasible
                seen, clash = {}, False
                for x in pth:
                    if x[0] == "cond" and (x[1].startswith("state.") or x[1].startswith("not state.")):
                        if seen.setdefault(x[1], x[2]) != x[2]:
                            clash = True
                if clash:
                    continue
            tc = {}
            for x in tail:
                if x[0] == "cond":
                    tc.setdefault(x[1], set()).add(x[2])
            pre_colon = any(x[0] == "cond" and x[1] == "state.in_colon()" and x[2] for x in pth)
            joined = any(x[0] == "do" and any(a in x[1] for a in acc_calls) for x in tail)
            is_f = "handle_fstring_progs(" in pth[step][1]
            matched_known_false = step_truth is False
            if joined and is_f and not matched_known_false:
                why_match = (f"the rest of the line is joined onto the literal on a path where the f-string scanner may just have matched a "
                             f"delimiter (its result is {'discarded' if step_truth is None else 'true'}): after the `}}` of `{{a:x}}` the text "
                             f"` {{b}}\'\'\'` of a triple-quoted f-string, or the ` \\` that continues the *statement* after a one-quote "
                             f"f-string, is swallowed (TokenError: EOF in multi-line string on valid Python)")
            if joined and not (True in tc.get("state.in_multi_line_string()", ()) or True in tc.get("state.in_continued_string()", ())
                               or True in tc.get("state.in_colon()", ()) or pre_colon and True in tc.get("state.in_colon()", (True,))):
                why_join = ("a line is joined onto an open literal without the literal being triple-quoted or the line ending in a "
                            "backslash continuation (e.g. because the call comes at the start of a line): `f\"abc\\⏎def⏎ghi\"` is "
                            "accepted (CPython: unterminated f-string literal)")
            left_open = not joined and pth[-1][1] != "raise" and not (True in tc.get("state.in_braces()", ())) \
                and not (False in tc.get("state.end_progs", ()) or True in tc.get("not state.end_progs", ())) \
                and not (step_truth is True)
            # the mode on top of the stack is None (plain string) or one of the Mode subclasses: a path on which every kind test
            # came out false is infeasible (nothing on it changes the stack: the scanner step did not match)
            allc = {}
            for x in pth:
                if x[0] == "cond":
                    allc.setdefault(x[1], set()).add(x[2])
            kinds = [f"state.{m}()" for m in mode_predicates]
            plain_tests = [v for k, v in allc.items() if k.endswith(".mode is None")]     # through whatever name the top entry has
            if left_open and plain_tests and all(v == {False} for v in plain_tests) and all(allc.get(k) == {False} for k in kinds):
                left_open = False
            if left_open and not pre_colon:
                chk.units["left_open_path"] = [(x[1][:40], x[2]) for x in pth if x[0] == "cond"]
                why_open = ("when an open string (plain, or the text part of an f-string) neither ends on the current line nor continues "
                            "(triple quote / backslash), the tokenizer must raise; falling through re-scans the literal's text as code and "
                            "lets the next line close it: `f\"abc⏎def\"` gives ERRORTOKENs for a, b, c and then an FSTRING_MIDDLE that "
                            "starts in front of them")
    except AnalysisError as e:
        why_open = f"paths not analysable: {e}"
    chk.count("L2-accumulation")
    chk.require(not why_open, "L2-accumulation", "handle_end_progs:unterminated-string", he.where, why_open)
    chk.count("L2-accumulation")
    chk.require(not why_match, "L2-accumulation", "handle_end_progs:no-join-after-match", he.where, why_match)
    chk.count("L2-accumulation")
    chk.require(not why_join, "L2-accumulation", "handle_end_progs:join-only-when-continued", he.where, why_join)
    # a literal part continued with backslash-newline is joined whatever kind of literal it is (plain string or the text part of
    # an f-string): a path that neither joins nor raises has established that the line is not continued
    chk.count("L2-accumulation")
    ok = True
    try:
        for pth in _sp3(he.node.body, split_bool=True):
            c = {x[1]: x[2] for x in pth if x[0] == "cond"}
            if c.get("state.pos == 0") is False and c.get("state.in_multi_line_string()") is False and pth[-1][1] != "raise" \
                    and not any(x[0] == "do" and any(a in x[1] for a in acc_calls) for x in pth):
                if c.get("state.in_continued_string()") is not False:
                    ok = False
    except AnalysisError:
        ok = False
    chk.require(ok, "L2-accumulation", "handle_end_progs:continued-line-joined", he.where,
                "some path leaves the rest of the line unjoined without having tested `state.in_continued_string()`: the text part of a "
                "one-quote f-string continued with backslash-newline is then scanned as code")
    rs = ix.get("EndProg.reset")
    chk.count("L2-accumulation")
    chk.require(sorted(norm_stmt(s) for s in rs.node.body) == ["self.contline = ''", "self.start = start", "self.text = ''", "self.upto = 0"],
                "L2-accumulation", "EndProg.reset", rs.where,
                "reset must restart the accumulation empty at the given position, with no line recorded yet")


def rule_l3(chk: Check, ix: Index):
    F = constfold.fold_tokenize()
    pt = F.need("PseudoToken")
    for name, (lo, hi), sub in rx.top_branches(pt):
        chk.count("L3-coverage")
        chk.require(name is not None, "L3-coverage", f"PseudoToken:{name or '?'}:named", repo.TOKENIZE,
                    "every top-level alternative of the master pattern must be exactly one named group (the token span is the "
                    "span of `lastgroup`)")
        if name == "End":
            continue
        chk.count("L3-coverage")
        chk.require(lo >= 1, "L3-coverage", f"PseudoToken:{name}:min-width", repo.TOKENIZE,
                    f"alternative `{name}` can match the empty string: the scan loop would not advance")
    f = ix.get("next_psuedo_matches")
    src = [norm_stmt(s) for s in f.node.body]
    chk.count("L3-coverage")
    chk.require("start, end = match.span(match.lastgroup)" in src and
                any(s.startswith("spos, epos, state.pos = ((state.lnum, start), (state.lnum, end), end)") for s in src),
                "L3-coverage", "next_psuedo_matches:advance", f.where,
                "after a match the position must advance to the end of the matched group and the token span be that group's span")
    # paths that advance without returning a token
    nones = []
    for n in own_nodes(f.node):
        if isinstance(n, ast.If) and any(isinstance(s, ast.Return) and norm_stmt(s) == "return None" for s in n.body):
            nones.append(norm_stmt(n.test))
    after_match = [t for t in nones if "lastgroup" in t or "token" in t]
    chk.units["silent_advances"] = nones
    chk.count("L3-coverage")
    ok_tests = {"state.pos == state.max or state.in_fstring()", "not match or not match.lastgroup", "match.lastgroup == 'End'", "token_type"}
    elif_none = []
    # every quiet exit (`return None`) after the match is either the whole body's reason (its `if` test is one of the known
    # no-token cases) or follows, in its own block, the start of an accumulation at the token's own start
    def blocks(node):
        for fld in ("body", "orelse", "finalbody"):
            blk = getattr(node, fld, None)
            if isinstance(blk, list) and blk and isinstance(blk[0], ast.stmt):
                yield node, fld, blk
                for st in blk:
                    yield from blocks(st)
    for owner, fld, blk in blocks(f.node):
        for i, st in enumerate(blk):
            if not (isinstance(st, ast.Return) and norm_stmt(st) == "return None"):
                continue
            if isinstance(owner, ast.If) and fld == "body" and norm_stmt(owner.test) in ok_tests:
                continue
            if any(norm_stmt(x).startswith("state.add_prog(start, end") for x in blk[:i]):
                continue
            if isinstance(owner, ast.FunctionDef) and i and isinstance(blk[i - 1], ast.If) and norm_stmt(blk[i - 1].test) in ("token_type", "token_type is not None") \
                    and blk[i - 1].body and isinstance(blk[i - 1].body[-1], ast.Return):
                continue     # the fall-through of the final `if token_type: return <token>`
            test = norm_stmt(owner.test) if isinstance(owner, ast.If) else "?"
            elif_none.append(("not " if fld == "orelse" else "") + test + " without add_prog(start, end, …)")
    chk.require(not elif_none, "L3-coverage", "next_psuedo_matches:silent-advance", f.where,
                f"the position advances without a token being produced or an accumulation being started under {elif_none}: "
                f"those characters are lost")


def rule_l4(chk: Check, ix: Index):
    # where a line end becomes NL (no statement boundary) rather than NEWLINE: only the blank / comment-only line at the start of a
    # statement, and a line end inside brackets.  Any other site that emits NL unconditionally turns a statement boundary into
    # nothing (a blank line after a backslash continuation at depth 0 must end the logical line).
    for q, g in sorted(ix.funcs.items()):
        if g.rel != repo.TOKENIZE:
            continue
        for n in own_nodes(g.node):
            if not (isinstance(n, ast.Attribute) and norm_stmt(n) == "Token.NL"):
                continue
            chk.count("L4-block-structure")
            # the conditional form `NL if <depth test> else NEWLINE`
            cond_ok = any(isinstance(e, ast.IfExp) and any(n is x for x in ast.walk(e.body)) and "parenlev" in norm_stmt(e.test)
                          and "Token.NEWLINE" in norm_stmt(e.orelse) for e in own_nodes(g.node))
            guard_ok = any(isinstance(i, ast.If) and "parenlev" in norm_stmt(i.test) and any(n is x for b in i.body for x in ast.walk(b))
                           for i in own_nodes(g.node))
            chk.require(g.node.name == "next_statement" or cond_ok or guard_ok, "L4-block-structure", f"{q}:nl-site", f"{g.rel}:{n.lineno}",
                        f"`{q}` emits NL for a line end without consulting the bracket depth: outside brackets (after a backslash "
                        f"continuation) that line end is the NEWLINE that ends the statement")
    ns = ix.get("next_statement")
    body = ns.node.body
    # INDENT iff push
    chk.count("L4-block-structure")
    POPS = ("state.indents = state.indents[:-1]", "state.indents.pop()", "del state.indents[-1]")
    ok = False
    for n in own_nodes(ns.node):     # at whatever nesting depth the block-structure part sits
        if isinstance(n, ast.If) and norm_stmt(n.test) in ("column > state.indents[-1]", "state.indents[-1] < column"):
            txt = [norm_stmt(x) for x in n.body]
            ok = txt.count("state.indents.append(column)") == 1 and not n.orelse and \
                sum(1 for x in ast.walk(n) if isinstance(x, ast.Yield) and "Token.INDENT" in norm_stmt(x)) == 1 and \
                not any(t in txt for t in POPS)
    chk.require(ok, "L4-block-structure", "next_statement:INDENT", ns.where,
                "an INDENT token must be emitted exactly when a level is pushed (one push of the measured column, one INDENT)")
    chk.count("L4-block-structure")
    loops = [n for n in own_nodes(ns.node) if isinstance(n, ast.While) and norm_stmt(n.test) in ("column < state.indents[-1]", "state.indents[-1] > column")]
    ok = len(loops) == 1 and sum(1 for x in loops[0].body if norm_stmt(x) in POPS) == 1 and \
        sum(1 for x in ast.walk(loops[0]) if isinstance(x, ast.Yield) and "Token.DEDENT" in norm_stmt(x)) == 1
    chk.require(ok, "L4-block-structure", "next_statement:DEDENT", ns.where,
                "one DEDENT token must be emitted per popped level")
    # a dedent must land on one of the *open* levels: the consistency test consults the stack itself
    chk.count("L4-block-structure")
    guard_ok = False
    if len(loops) == 1:
        for g in loops[0].body:
            if isinstance(g, ast.If) and any(isinstance(x, ast.Raise) for x in ast.walk(g)):
                guard_ok = norm_stmt(g.test) in ("column not in state.indents", "not column in state.indents") and \
                    loops[0].body.index(g) < next(i for i, x in enumerate(loops[0].body) if norm_stmt(x) in POPS) if ok else False
    chk.require(guard_ok, "L4-block-structure", "next_statement:dedent-consistency", ns.where,
                "before a level is popped, a column that is not one of the currently open levels must raise (the test must consult "
                "the stack of open levels, not a record of columns ever used)")
    # the end-of-input tokens: the function `next_end_tokens`, or — when it was folded into its only caller — the statements of
    # `_tokenize` after the line loop
    import types as _types_ne
    ne = ix.funcs.get("next_end_tokens")
    if ne is None:
        tk0 = ix.get("_tokenize")
        loop_i = next((i for i, st in enumerate(tk0.node.body) if isinstance(st, ast.While)), None)
        tail = tk0.node.body[loop_i + 1:] if loop_i is not None else []
        if not any("Token.ENDMARKER" in norm_stmt(st) for st in tail):
            raise AnalysisError("anchor function vanished: next_end_tokens (and `_tokenize` does not emit the end tokens after its line loop)")
        ne = _types_ne.SimpleNamespace(node=_types_ne.SimpleNamespace(body=tail), where=tk0.where, inlined=True)
        ne_nodes = [n for st in tail for n in ast.walk(st)]
    else:
        ne_nodes = list(own_nodes(ne.node))
    yields = [norm_stmt(n) for n in ne_nodes if isinstance(n, ast.Yield)]
    chk.count("L4-block-structure")
    fors = [n for n in ne.node.body if isinstance(n, ast.For)]
    PER_LEVEL = ("state.indents[1:]", "range(len(state.indents) - 1)", "range(1, len(state.indents))")
    ok = len(fors) == 1 and norm_stmt(fors[0].iter) in PER_LEVEL and sum("Token.ENDMARKER" in y for y in yields) == 1 and \
        "Token.ENDMARKER" in norm_stmt(ne.node.body[-1]) and sum("Token.NEWLINE" in y for y in yields) == 1 and \
        sum(1 for x in ast.walk(fors[0]) if isinstance(x, ast.Yield) and "Token.DEDENT" in norm_stmt(x)) == 1
    chk.require(ok, "L4-block-structure", "next_end_tokens", ne.where,
                "at end of input: at most one implicit NEWLINE, one DEDENT per open level, then exactly one ENDMARKER, last")
    # a line that consists of indentation only and has no line end (the unterminated last line of the input) produces no token
    from ..pyflow import stmt_paths
    import types as _types
    chk.count("L4-block-structure")
    tail = [st for st in ns.node.body if not isinstance(st, ast.While)]
    why = ""
    try:
        seen_case = False
        all_paths = stmt_paths(tail, opaque_loops=True)
        # the value that means "end of input" to the caller is whatever the empty-line path returns (that this value leaves the
        # line loop is T2's obligation); the spelling of that value (False, an enum member, ...) is immaterial here
        eof_vals = {pth[-1][2] for pth in all_paths if pth[-1][1] == "return" and
                    ({x[1]: x[2] for x in pth if x[0] == "cond"}.get("state.line") is False or
                     {x[1]: x[2] for x in pth if x[0] == "cond"}.get("state.line == ''") is True)}
        if len(eof_vals) != 1:
            eof_vals = {"False"}
        for pth in all_paths:
            conds = {x[1]: x[2] for x in pth if x[0] == "cond"}
            if conds.get("state.pos == state.max") is True or conds.get("state.pos >= state.max") is True:
                seen_case = True
                if any(x[0] == "do" and "yield" in x[1] for x in pth) or pth[-1][1] != "return" or pth[-1][2] not in eof_vals:
                    why = "a token is emitted (or the scan goes on) for it"
        if not seen_case:
            why = "the case `state.pos == state.max` is not told apart from a blank or comment line"
    except AnalysisError as e:
        why = f"not analysable: {e}"
    chk.require(not why, "L4-block-structure", "next_statement:bare-indentation-at-eof", ns.where,
                f"an unterminated last line holding only blanks must end the scan without a token: {why} (a zero-width NL there is "
                f"followed by an implicit NEWLINE for a logical line with no token)")
    # the implicit NEWLINE at end of input: exactly when the last line has no line end and is not a comment-only line
    chk.count("L4-block-structure")
    conds = [n for n in ne.node.body if isinstance(n, ast.If) and any(isinstance(x, ast.Yield) and "Token.NEWLINE" in norm_stmt(x) for x in ast.walk(n))]
    bad = []
    guard_fields: set[str] = set()
    if len(conds) != 1:
        bad.append("no single statement guards the implicit NEWLINE")
    else:
        # the guard may be one test or nested ones: the paths through the statement, each with the tests it passed
        gpaths = stmt_paths([conds[0]], opaque_loops=True, split_bool=True)
        for pth in gpaths:
            for x in pth:
                if x[0] == "cond":
                    guard_fields |= {n.attr for n in ast.walk(ast.parse(x[1])) if isinstance(n, ast.Attribute) and norm_stmt(n.value) == "state"}
        # (text of the last line, was it a blank/comment-only line for which NL was emitted?)
        for (last_line, was_blank), want in ((("x = 1", False), True), (("x = 1\n", False), False), (("x = 1\r\n", False), False),
                                             (("# c", True), False), (("   # c", True), False), (("\t# c", True), False),
                                             (("x = 1  # c", False), True), (("", False), False), (("    y", False), True),
                                             (("# b\'\'\'", False), True)):   # a '#' line that lies inside a string is not a comment
            st = _types.SimpleNamespace(last_line=last_line, lnum=6, blank_lnum=5 if was_blank else 2)
            taken = []
            try:
                for pth in gpaths:
                    okp = True
                    for x in pth:
                        if x[0] != "cond":
                            continue
                        v = bool(constfold.eval_local_value(ne.node, ast.parse(x[1], mode="eval").body, {"state": st},
                                                            data_attrs=("last_line", "lnum", "blank_lnum")))
                        if v != x[2]:
                            okp = False
                            break
                    if okp:
                        taken.append(pth)
            except constfold.PureEvalError as e:
                bad.append(f"not evaluable: {e}")
                break
            if len(taken) != 1:
                bad.append((last_line, f"{len(taken)} paths through the guard"))
                continue
            got = any(x[0] == "do" and "yield" in x[1] and "Token.NEWLINE" in x[1] for x in taken[0])
            if got != want:
                bad.append((last_line, "blank/comment line" if was_blank else "code or string text", got))
    chk.require(not bad, "L4-block-structure", "next_end_tokens:implicit-newline", ne.where,
                f"the implicit NEWLINE must be added exactly when the input's last line lacks a line end and was not a blank/comment-only "
                f"line (decided by the scanner's state: a line starting with '#' inside a string is text); differs on {bad[:3]}")
    # the record the condition consults is kept by the scanner: set to the line number exactly where a blank/comment-only
    # line is answered with NL, and nowhere else
    if len(conds) == 1:
        fields = sorted(guard_fields - {"last_line", "lnum"})
        for fld in fields:
            chk.count("L4-block-structure")
            why = ""
            writers = set()
            for q, g in ix.funcs.items():
                for x in own_nodes(g.node):
                    if isinstance(x, ast.Attribute) and isinstance(x.ctx, (ast.Store, ast.Del)) and x.attr == fld:
                        writers.add(q)
            extra = writers - {"TokenizerState.__init__", "next_statement"}
            if extra:
                why = f"also written in {sorted(extra)}"
            elif "next_statement" not in writers:
                why = "never recorded while scanning"
            else:
                try:
                    for pth in stmt_paths(tail, opaque_loops=True):
                        does = [x[1] for x in pth if x[0] == "do"]
                        nl = any("yield" in d and "Token.NL" in d for d in does)
                        rec = [d for d in does if d.startswith(f"state.{fld} ")]
                        if nl and rec != [f"state.{fld} = state.lnum"]:
                            why = f"a blank/comment-only line is answered with NL without `state.{fld} = state.lnum` ({rec})"
                        elif not nl and rec:
                            why = f"recorded on a path that does not emit the blank-line NL: {rec}"
                except AnalysisError as e:
                    why = f"not analysable: {e}"
            chk.require(not why, "L4-block-structure", f"next_statement:records-{fld}", ns.where,
                        f"`state.{fld}` (consulted for the implicit NEWLINE) must hold the number of the last blank/comment-only line: {why}")
    tk = ix.get("_tokenize")
    chk.count("L4-block-structure")
    last = tk.node.body[-1]
    chk.require(norm_stmt(last) == "yield from next_end_tokens(state)" or (getattr(ne, "inlined", False) and "Token.ENDMARKER" in norm_stmt(last)),
                "L4-block-structure", "_tokenize:tail", tk.where,
                "the end tokens must be produced once, after the line loop")


def run(chk: Check):
    chk.explanation = (
        "Per TokenInfo construction site in tokenize.py the text argument is shown to be the slice of the line between the "
        "start and end columns (slice / single character / stripped prefix / empty text / fixed delimiter placed where the "
        "preceding middle token ended); multi-line accumulation appends exactly the unread slice and moves the position to its "
        "end; every alternative of the master pattern is one named group of width >= 1 and every advance of the position either "
        "returns a token, starts an accumulation at the token's start, or is the backslash continuation; INDENT/DEDENT pair with "
        "pushes and pops and the stream ends DEDENT* ENDMARKER. Order follows from the monotone position writes (C03 T1).")
    chk.explanation += ' Also evaluated here: the string-continuation test is exact over LF/CRLF/no line ending and the search-path lexeme has a unique end (K6).'
    chk.trusted = ["xpverif.constfold", "re._parser widths", "syntactic normalisation of expressions"]
    chk.assumptions = ["a regex match starts at the position it was asked to start at (re semantics)",
                       "synthetic MACRO_PARAM tokens of the parser-side Tokenizer are outside C08 (anchored to tokenize.py)"]
    ix = Index()
    rule_l1(chk, ix)
    rule_l2(chk, ix)
    rule_l3(chk, ix)
    rule_l4(chk, ix)
    rule_l5(chk, ix)
    from .c03 import rule_t1
    rule_t1(chk, ix)
    # which lines a string token spans is decided by the continuation tests (C09 K6)
    from .c09 import rule_k6
    from .. import constfold
    rule_k6(chk, constfold.fold_tokenize(), ix, chk.tier == "thorough")
    # the sub-languages of the master pattern (what the continuation alternative swallows without a token, which characters
    # are blanks) and the span of the synthetic raw-capture token
    from .c09 import rule_k1
    from .c07 import rule_m1
    rule_k1(chk, constfold.fold_tokenize(), chk.tier == "thorough")
    rule_m1(chk, ix)
    chk.floor("L2-accumulation", 10)
    chk.floor("L3-coverage", 15)
    chk.floor("L4-block-structure", 4)
