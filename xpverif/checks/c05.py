"""C05 — xonsh expression sugar desugars identically everywhere: translation shapes, placement, span (DESIGN §4 C05, H1–H4)."""
from __future__ import annotations

import ast

from .. import actions, probe, repo, typed
from ..absval import Const, Ctx, ListV, Node, TupleV, members
from ..common import AnalysisError, Check, norm_stmt, parse_py
from ..ir import Cut, Gather, Group, Lit, Look, Ref, Rep, Tok, walk_alt_items
from .c01 import fallthrough_edges, level_ops

X = probe.xonsh_attr
KW = "keywords=[⊥*]"


def expected_shapes():
    env = X("env")
    return {
        "$NAME": ("Parser.expand_env_name", [probe.tok("N", "NAME")], {},
                  f"Subscript(value={env}, slice=Constant(value=<N.string>), ctx=Load)"),
        "$NAME (target)": ("Parser.expand_env_name", [probe.tok("N", "NAME")], {"ctx": Ctx("Store")},
                           f"Subscript(value={env}, slice=Constant(value=<N.string>), ctx=Store)"),
        "${expr}": ("Parser.expand_env_expr", [probe.node("Name", "E")], {},
                    f"Subscript(value={env}, slice=Call(func=Name(id='str', ctx=Load), args=[<E:Name>*], {KW}), ctx=Load)"),
        "${expr} (target)": ("Parser.expand_env_expr", [probe.node("Name", "E")], {"ctx": Ctx("Store")},
                             f"Subscript(value={env}, slice=Call(func=Name(id='str', ctx=Load), args=[<E:Name>*], {KW}), ctx=Store)"),
        "${literal}": ("Parser.expand_env_expr", [probe.node("Constant", "E")], {},
                       f"Subscript(value={env}, slice=Call(func=Name(id='str', ctx=Load), args=[<E:Constant>*], {KW}), ctx=Load)"),
        "${tuple}": ("Parser.expand_env_expr", [probe.node("Tuple", "E")], {},
                     f"Subscript(value={env}, slice=Call(func=Name(id='str', ctx=Load), args=[<E:Tuple>*], {KW}), ctx=Load)"),
        "`path`": ("Parser.expand_search_path", [probe.tok("P", "SEARCH_PATH")], {},
                   f"Call(func={X('pathsearch')}, args=[Constant(value=<P.string>)*], {KW})"),
        "NAME?": ("Parser.expand_help", [ListV(TupleV((probe.node("Name", "A"), probe.tok("Q", "lit:?"))), True)], {},
                  f"Call(func={X('help')}, args=[<A:Name>*], {KW})"),
        "NAME??": ("Parser.expand_help", [ListV(TupleV((probe.node("Name", "A"), probe.tok("Q", "lit:??"))), True)], {},
                   f"Call(func={X('superhelp')}, args=[<A:Name>*], {KW})"),
    }


def rule_h1(chk: Check, I):
    for name, (qual, pargs, kw, want) in expected_shapes().items():
        chk.count("H1-translation-shape")
        v = probe.call(I, qual, pargs, kw, with_span=True)
        got = probe.shapes(v)
        # a builder that loops (help chains) also yields the chained form; the single-step form must be among them and every
        # form must start the same way
        head = want.split(", args=")[0]
        # (when the two forms share one constructor call — `target = atom` / `target = Attribute(...)` joined before the call —
        # the single-step argument is the first member of the argument's union)
        first_arg = want.split(", args=[", 1)[1].split("*]", 1)[0] if ", args=[" in want else None
        ok = (want in got or (first_arg is not None and any(g.startswith(f"{head}, args=[{first_arg} | ") for g in got))) \
            and all(g.startswith(head) for g in got)
        chk.require(ok, "H1-translation-shape", name, f"{repo.SUBHEADER} ({qual})",
                    f"`{name}` must desugar to {want}; the builder produces {sorted(got)[:2]}")
    # path literal: p"..." -> __xonsh__.path_literal(<the string>)
    seen = []

    def hook(cls, given, kwargs, fr, e):
        if cls == "Call" and fr.fn == "xonsh_call":
            f = given.get("func")
            for m in members(f):
                if isinstance(m, Node) and m.shape:
                    seen.append((m.shape, given.get("args")))

    probe.call(I, "Parser.concatenate_strings", [ListV(probe.tok("S", "STRING"), True)], {}, hook=hook)
    chk.count("H1-translation-shape")
    funcs = {s for s, a in seen}
    chk.require(funcs == {X("path_literal")}, "H1-translation-shape", 'p"…"', f"{repo.SUBHEADER} (Parser.concatenate_strings)",
                f"a path literal must become a call of {X('path_literal')}; calls built: {sorted(funcs)}")
    # help chains `a?.b??`: each link is translated by its own operator — inside a loop over the links, the function name
    # handed to xonsh_call must be computed from that iteration's token, not carried in from outside the loop
    from ..pyflow import Index, own_nodes
    import ast as _ast
    f = Index().get("Parser.expand_help")
    n_links = 0
    for loop in [n for n in own_nodes(f.node) if isinstance(n, _ast.For)]:
        bound = {x.id for x in _ast.walk(loop.target) if isinstance(x, _ast.Name)}
        for c in [n for st in loop.body for n in _ast.walk(st) if isinstance(n, _ast.Call) and norm_stmt(n.func) == "xonsh_call" and n.args]:
            n_links += 1
            chk.count("H1-translation-shape")
            names = {x.id for x in _ast.walk(c.args[0]) if isinstance(x, _ast.Name)}
            ok = True
            why = ""
            for nm in names:
                defs_in = [a for st in loop.body for a in _ast.walk(st) if isinstance(a, _ast.Assign) and any(
                    isinstance(t, _ast.Name) and t.id == nm for t in a.targets) and a.lineno < c.lineno]
                if nm in bound:
                    continue
                if not defs_in or not any(bound & {x.id for x in _ast.walk(a.value) if isinstance(x, _ast.Name)} for a in defs_in):
                    ok = False
                    why = nm
            chk.require(ok, "H1-translation-shape", f"Parser.expand_help:link-operator:{norm_stmt(c.args[0])[:40]}", f"{f.rel}:{c.lineno}",
                        f"the runtime function of a chained help link is `{norm_stmt(c.args[0])}`, where `{why}` is not computed from this "
                        f"link's own `?`/`??` token: `a?.b??` would reuse the first operator for every link")
    if not n_links:
        raise AnalysisError("H1: no per-link xonsh_call found in Parser.expand_help")
    chk.floor("H1-translation-shape", 8)


def rule_h2(chk: Check, ir):
    # the bottom of the precedence ladder hosts the xonsh alternatives
    best: list[str] = []

    def dfs(n, path):
        nonlocal best
        if n in path or n not in ir.rules:
            return
        path = path + [n]
        if len(path) > len(best):
            best = path
        for nx in fallthrough_edges(ir.rules[n]):
            dfs(nx, path)

    start = [it.name for it in walk_alt_items(ir.rules["eval"].alts[0]) if isinstance(it, Ref)]
    dfs(start[0], [])
    # the rule below the `await` level of the precedence ladder: trailers (calls, subscripts, attributes) and atoms live there
    idx = next((i for i, n in enumerate(best) if "Await" in level_ops(ir, ir.rules[n])), None)
    if idx is None or idx + 1 >= len(best):
        raise AnalysisError("could not locate the primary-expression rule below the await level")
    bottom = best[idx + 1]
    host = ir.rules[bottom]
    refs = {it.name for a in host.alts for it in walk_alt_items(a) if isinstance(it, Ref)}
    helpers = {"expand_env_name": "$NAME / ${expr}", "handle_proc": "$(..) $[..] !(..) ![..]", "expand_help": "NAME? / NAME??",
               "expand_search_path": "`path`"}
    # rules whose action calls each builder
    by_helper: dict[str, set[str]] = {h: set() for h in helpers}
    for r, k, a in actions.all_alts(ir.rules):
        if a.action is None or r.name.startswith("invalid_"):
            continue
        for n in ast.walk(a.action):
            if isinstance(n, ast.Call) and isinstance(n.func, ast.Attribute) and n.func.attr in by_helper and not (
                    n.keywords and any(k.arg == "ctx" for k in n.keywords)):
                by_helper[n.func.attr].add(r.name)
    # reachability from the host rule through plain references (no other consuming item before them)
    def direct(rule: str, depth=0) -> set[str]:
        out = {rule}
        if depth > 3:
            return out
        for a in ir.rules[rule].alts:
            items = [ni.item for ni in a.items if not isinstance(ni.item, (Group,)) or True]
            if len([i for i in a.items if isinstance(i.item, (Ref, Gather))]) >= 1:
                first = next((ni.item for ni in a.items if isinstance(ni.item, (Ref, Gather, Lit, Tok))), None)
                tgt = first.item if isinstance(first, Gather) else first
                if isinstance(tgt, Ref) and tgt.name in ir.rules and tgt.name != rule:
                    out |= direct(tgt.name, depth + 1)
            for ni in a.items:
                pass
        return out

    reach = set()
    for a in host.alts:
        for it in walk_alt_items(a):
            if isinstance(it, Ref) and it.name in ir.rules and it.name != bottom:
                reach |= direct(it.name)
    reach.add(bottom)
    for h, what in helpers.items():
        chk.count("H2-placement")
        rules_ = by_helper[h]
        ok = bool(rules_ & reach)
        chk.require(ok, "H2-placement", what, str(host.pos),
                    f"the construct {what} (built by `{h}` in {sorted(rules_) or 'no rule'}) is not offered by `{bottom}`, the rule every "
                    f"expression position bottoms out in: it would parse in some contexts only")
    chk.units["expression_bottom_rule"] = bottom
    chk.units["rules_reached_from_bottom"] = sorted(reach)
    # every rule that turns a NAME token into a Load-context Name either is the atom rule reached from the bottom rule or is one
    # of the positions the property excludes
    excluded = {"dec_primary": "decorator primaries", "name_or_attr": "match-pattern names"}
    for r, k, a in actions.all_alts(ir.rules):
        if a.action is None or r.name.startswith("invalid_"):
            continue
        c = a.action
        if isinstance(c, ast.Call) and norm_stmt(c.func) == "ast.Name" and any(
                kw.arg == "ctx" and norm_stmt(kw.value) == "Load" for kw in c.keywords):
            chk.count("H2-placement")
            ok = r.name in reach or r.name in excluded
            chk.require(ok, "H2-placement", f"load-name-leaf:{r.name}", str(a.pos),
                        f"`{r.name}` reads a plain NAME as an expression but is not reachable from `{bottom}` and not one of the excluded "
                        f"positions {sorted(excluded)}: xonsh constructs are not accepted where it is used")
    # && / || alternatives of and / or
    for lit, word in (("||", "or"), ("&&", "and")):
        chk.count("H2-placement")
        found = False
        for r, k, a in actions.all_alts(ir.rules):
            lits = {it.value for it in walk_alt_items(a) if isinstance(it, Lit)}
            if a.items and any(isinstance(ni.item, Group) and {x.value for al in ni.item.alts for x in walk_alt_items(al) if isinstance(x, Lit)} == {lit, word}
                               for ni in a.items):
                found = True
            # the same choice written one level down or flattened: a group (at any depth) whose alternatives start with the two
            # spellings and are otherwise the same
            for g in [it for it in walk_alt_items(a) if isinstance(it, Group)]:
                heads = [al.items[0].item for al in g.alts if al.items]
                if len(g.alts) == 2 and all(isinstance(h, Lit) for h in heads) and {h.value.strip("'\"") for h in heads} == {lit, word} or \
                        (len(g.alts) == 2 and all(isinstance(h, Lit) for h in heads) and {h.value for h in heads} == {lit, word}):
                    rest = [tuple(ni.item.key() for ni in al.items[1:]) for al in g.alts]
                    if rest[0] == rest[1]:
                        found = True
        chk.require(found, "H2-placement", f"{lit}=={word}", repo.PARSER_X, f"`{lit}` must be an alternative spelling of `{word}` in the same item")


def rule_h3(chk: Check, I, ir):
    """A builder called with the span of the construct must put that span on the node it returns."""
    cases = {
        "Parser.expand_env_name": [probe.tok("N", "NAME")], "Parser.expand_env_expr": [probe.node("Name", "E")],
        "Parser.expand_search_path": [probe.tok("P", "SEARCH_PATH")],
        "Parser.expand_help": [ListV(TupleV((probe.node("Name", "A"), probe.tok("Q", "lit:?"))), True)],
        "Parser.handle_proc": [Const("subproc_captured"), ListV(probe.node("Constant", "ARG"), True)],
        "Parser.proc_pyexpr": [probe.node("Name", "E")], "Parser.proc_inject": [ListV(probe.node("Constant", "ARG"), True)],
        "Parser.macro_call": [probe.node("Name", "F"), ListV(probe.tok("P", "MACRO_PARAM"))],
    }
    # a builder whose (first) argument is the single token that makes up the whole construct may equally use that token's span
    whole_token: set[str] = set()
    for r, k, a in actions.all_alts(ir.rules):
        if a.action is None:
            continue
        cons = [ni for ni in a.items if not isinstance(ni.item, (Look, Cut))]
        if len(cons) == 1 and isinstance(cons[0].item, Tok) and cons[0].name:
            for n in ast.walk(a.action):
                if isinstance(n, ast.Call) and isinstance(n.func, ast.Attribute) and n.args and isinstance(n.args[0], ast.Name) \
                        and n.args[0].id == cons[0].name:
                    whole_token.add("Parser." + n.func.attr)
    for qual, pargs in cases.items():
        chk.count("H3-span")
        v = probe.call(I, qual, pargs, {}, with_span=True)
        srcs = {m.locsrc for m in members(v) if isinstance(m, Node)}
        first_label = getattr(pargs[0], "label", None)
        okset = {(("peek()",), ("last()",))}
        if qual in whole_token and first_label:
            okset.add(((first_label,), (first_label,)))
        ok = bool(srcs) and all(s in okset for s in srcs)
        chk.require(ok, "H3-span", qual, f"{repo.SUBHEADER} ({qual})",
                    f"the node returned by `{qual}` is located from {sorted(srcs)} instead of the span it was called with: the construct's "
                    f"node does not cover the construct's source text")
    chk.floor("H3-span", 8)


def rule_h5(chk: Check, ir, rule_id: str = "H5-leftrec-order"):
    """In a left-recursive rule the alternatives that start with the rule itself (directly or through the first item of another
    rule) come before those that do not.  The seed-growing loop re-parses the rule with ordered choice: a non-recursive
    alternative that matched as the seed matches again in every round, so a recursive alternative placed after it is never tried
    (`$(ls)[0]`: the subscript trailer after a subprocess form)."""
    from ..ir import Ref as _Ref, Look as _Look, Cut as _Cut

    def leftmost(alt):
        for ni in alt.items:
            it = ni.item
            if isinstance(it, (_Look, _Cut)):
                continue
            return it
        return None
    starts: dict[str, set[str]] = {}
    for name, r in ir.rules.items():
        s = set()
        for a in r.alts:
            it = leftmost(a)
            if isinstance(it, _Ref):
                s.add(it.name)
        starts[name] = s

    def reaches(src: str, dst: str) -> bool:
        seen, todo = set(), [src]
        while todo:
            x = todo.pop()
            if x == dst:
                return True
            if x in seen:
                continue
            seen.add(x)
            todo += list(starts.get(x, ()))
        return False
    n = 0
    for name, r in ir.rules.items():
        kinds = []
        for a in r.alts:
            it = leftmost(a)
            kinds.append(isinstance(it, _Ref) and (it.name == name or reaches(it.name, name)))
        if not any(kinds):
            continue
        n += 1
        chk.count(rule_id)
        last_rec = max(i for i, k in enumerate(kinds) if k)
        first_non = min([i for i, k in enumerate(kinds) if not k], default=len(kinds))
        chk.require(last_rec < first_non, rule_id, name, str(r.pos),
                    f"`{name}` is left-recursive and its alternative `{r.alts[first_non] if first_non < len(r.alts) else ''}` (which does not "
                    f"start with `{name}`) stands before the recursive alternative `{r.alts[last_rec]}`: whenever the former matched as the seed "
                    f"it matches again in each growth round and the latter is never tried")
    if n < 5:
        raise AnalysisError(f"H5: only {n} left-recursive rules found")


def rule_h4(chk: Check, ir):
    stores = []
    for r, k, a in actions.all_alts(ir.rules):
        if a.action is None:
            continue
        for n in ast.walk(a.action):
            if isinstance(n, ast.Call) and isinstance(n.func, ast.Attribute) and n.func.attr in ("expand_env_name", "expand_env_expr") \
                    and any(kw.arg == "ctx" and norm_stmt(kw.value) == "Store" for kw in n.keywords):
                stores.append((r.name, n.func.attr, k))
    chk.count("H4-binding-targets")
    helpers = {h for _, h, _ in stores}
    chk.require(helpers == {"expand_env_name", "expand_env_expr"}, "H4-binding-targets", "store-alternatives", repo.PARSER_X,
                f"$NAME and ${{expr}} must both be offered as binding targets with ctx=Store (found {sorted(stores)})")
    chk.units["store_target_alternatives"] = [k for _, _, k in stores]
    # placement: the env targets stand beside the plain-name target.  Every rule that offers "just a name" as a binding target by a
    # pass-through alternative (`| star_atom`) offers `$NAME` and `${expr}` too — itself, or through pass-through alternatives —
    # so that every position that reaches the name atom (bare, starred, parenthesised, in a tuple or list) reaches the env forms
    from ..ir import Ref as _Ref, Tok as _Tok
    name_rules = set()
    for r, k, a in actions.all_alts(ir.rules):
        if a.action is not None and len(a.items) == 1 and isinstance(a.items[0].item, _Tok) and a.items[0].item.name == "NAME" and any(
                isinstance(n, ast.Call) and norm_stmt(n.func) == "ast.Name" and any(kw.arg == "ctx" and norm_stmt(kw.value) == "Store" for kw in n.keywords)
                for n in ast.walk(a.action)):
            name_rules.add(r.name)

    def unit_closure(rule: str, seen: set) -> set:
        out = set()
        if rule in seen or rule not in ir.rules:
            return out
        seen.add(rule)
        for a in ir.rules[rule].alts:
            if a.action is not None:
                for n in ast.walk(a.action):
                    if isinstance(n, ast.Call) and isinstance(n.func, ast.Attribute) and n.func.attr in ("expand_env_name", "expand_env_expr") \
                            and any(kw.arg == "ctx" and norm_stmt(kw.value) == "Store" for kw in n.keywords):
                        out.add(n.func.attr)
            if len(a.items) == 1 and isinstance(a.items[0].item, _Ref) and a.items[0].item.name not in name_rules:
                out |= unit_closure(a.items[0].item.name, seen)
        return out
    hosts = [(name, a.items[0].item.name) for name, r in ir.rules.items() for a in r.alts
             if len(a.items) == 1 and isinstance(a.items[0].item, _Ref) and a.items[0].item.name in name_rules]
    chk.count("H4-binding-targets")
    if not hosts:
        chk.fail("H4-binding-targets", "placement", repo.PARSER_X, "no rule passes the plain-name binding target through: the anchor of the env targets is gone")
    for host, nr in hosts:
        chk.count("H4-binding-targets")
        have = unit_closure(host, set()) | unit_closure(nr, set())
        chk.require(have == {"expand_env_name", "expand_env_expr"}, "H4-binding-targets", f"placement:{host}", str(ir.rules[host].pos),
                    f"`{host}` passes the plain-name target `{nr}` through but offers {sorted(have) or 'no'} env target beside it: positions "
                    f"that reach the name atom through `{host}` (e.g. a parenthesised target `($X) = 1`, `for ($X) in y`) lose `$NAME`/`${{...}}`")
    # sibling agreement: the Load form and the Store form of one construct consume the same items (`${` KEY `}` must parse KEY
    # with the same rule in both, else `${a, b}` or `${k := 'X'}` is a target but not a value)
    forms: dict[str, dict[str, set]] = {}
    for r, k, a in actions.all_alts(ir.rules):
        if a.action is None:
            continue
        for n in ast.walk(a.action):
            if isinstance(n, ast.Call) and isinstance(n.func, ast.Attribute) and n.func.attr in ("expand_env_name", "expand_env_expr"):
                ctx = "Store" if any(kw.arg == "ctx" and norm_stmt(kw.value) == "Store" for kw in n.keywords) else "Load"
                forms.setdefault(n.func.attr, {}).setdefault(ctx, set()).add(tuple(str(ni.item) for ni in a.items))
    for h, by in sorted(forms.items()):
        chk.count("H4-binding-targets")
        chk.require(by.get("Load") == by.get("Store"), "H4-binding-targets", f"{h}:load-store-siblings", repo.PARSER_X,
                    f"the value form and the target form of this construct consume different items: Load {sorted(by.get('Load', []))}, "
                    f"Store {sorted(by.get('Store', []))}")


def run(chk: Check):
    chk.explanation = (
        "H1: each builder of xonsh sugar is evaluated symbolically (abstract interpreter, labelled arguments) and the shape of the "
        "tree it returns is compared with the documented translation ($N -> __xonsh__.env['N'], ${e} -> __xonsh__.env[str(e)], "
        "`p` -> __xonsh__.pathsearch('p'), x?/x?? -> __xonsh__.help/superhelp(x), p\"..\" -> __xonsh__.path_literal(..)). H2: the "
        "xonsh alternatives sit in the rule every expression position bottoms out in, and every rule that reads a plain NAME as an "
        "expression is that rule's atom or an excluded position. H3: the node returned by a builder carries the span it was called "
        "with. H4: $NAME and ${expr} are offered as Store targets. Tree equality with the written-out translation in every context is "
        "not decided.")
    chk.explanation += ' Also evaluated here: the subprocess-form rules of C06, the path-token flag pairing (N2) and the backtick-lexeme / string-continuation rules (K6), which the listed constructs rest on.'
    chk.trusted = ["xpverif.absint shapes", "the translation table in the property statement"]
    chk.assumptions = ["C04's context/typestate rules cover the Store variants"]
    ir = repo.ir_x()
    tr = typed.run()
    rule_h1(chk, tr.interp)
    rule_h2(chk, ir)
    rule_h3(chk, tr.interp, ir)
    rule_h4(chk, ir)
    from .c01 import rule_result_span
    rule_result_span(chk, ir)
    # the subprocess forms, the p-string flag and the backtick lexeme are C05 constructs: their own rule sets (C06 P1-P4,
    # C14 N2, C09 K6) are necessary conditions of C05 and are evaluated here under their own rule ids
    from . import c06, c09
    from .. import constfold, macros
    from ..pyflow import Index
    ix = Index()
    c06.rule_p1(chk, ir, tr.interp)
    c06.rule_p2(chk, ix, ir)
    c06.rule_p3(chk, ix, ir)
    c06.rule_p4(chk, ix, tr.interp)
    c06.rule_p5(chk, ix)
    rule_h5(chk, ir)
    from .c10 import rule_f3
    rule_f3(chk, ix)  # the subprocess openers `!(` `![` `$(` … stay single operator tokens in every scanner mode
    macros.rule_n2(chk, ix, ir)
    c09.rule_k6(chk, constfold.fold_tokenize(), ix, False)
    from .c01 import rule_lookahead_cover
    from .c02 import rule_path_literal_gate, rule_path_literal_wrap
    rule_lookahead_cover(chk, ir)
    rule_path_literal_gate(chk)
    rule_path_literal_wrap(chk)
    from .c08 import rule_l1
    rule_l1(chk, ix)   # $NAME keys and words are token texts: a token's text is the source slice
    chk.floor("H2-placement", 7)
    # necessary conditions that live under other properties' rule ids
    from .firstpass import rule_first_pass_raisers
    rule_first_pass_raisers(chk, ir)          # a first-pass raise in a Python rule pre-empts the xonsh alternatives after it
    from .c04 import rule_s3_recursion
    from ..pyflow import Index as _Ix5
    rule_s3_recursion(chk, _Ix5())             # binding-target forms of $X / ${..} rest on set_expr_context touching containers only
