"""C14 — statements parse independently: state neutrality at statement end (DESIGN §4 C14)."""
from __future__ import annotations

import ast

from .. import macros, repo
from ..common import AnalysisError, Check, norm_stmt, parse_py
from ..ir import Opt, Ref, Rep, Tok
from ..pyflow import CFG, Index, own_nodes

# (class, attribute) -> kind.  position = keyed by token index / line number, never by statement;
# counter = incremented and decremented on every path of one function; flag = paired set/reset (M3, N2);
# line = tokenizer line state that is back to neutral before a NEWLINE can be emitted; verbose = erased by V1
CLASSIFIED = {
    ("Parser", "_cache"): "position", ("Parser", "_level"): "verbose", ("Parser", "in_recursive_rule"): "counter",
    ("Parser", "call_invalid_rules"): "pass", ("Parser", "_path_token"): "flag",
    ("Tokenizer", "_index"): "position", ("Tokenizer", "_tokens"): "position", ("Tokenizer", "_lines"): "position",
    ("Tokenizer", "_stack"): "pushback", ("Tokenizer", "_call_macro"): "flag", ("Tokenizer", "_with_macro"): "flag",
    ("Tokenizer", "_proc_macro"): "flag",
    ("TokenizerState", "lnum"): "position", ("TokenizerState", "blank_lnum"): "position", ("TokenizerState", "line"): "line", ("TokenizerState", "last_line"): "line",
    ("TokenizerState", "pos"): "line", ("TokenizerState", "max"): "line", ("TokenizerState", "parenlev"): "bracket",
    ("TokenizerState", "continued"): "line", ("TokenizerState", "indents"): "block", ("TokenizerState", "end_progs"): "mode",
    ("EndProg", "text"): "mode", ("EndProg", "contline"): "mode", ("EndProg", "upto"): "mode", ("EndProg", "start"): "mode",
}
OWNER_OF_VAR = {"self": None, "state": "TokenizerState", "endprog": "EndProg", "prog": "EndProg"}


def rule_n0(chk: Check, ix: Index):
    """Every instance attribute written outside a constructor is classified."""
    for q, f in sorted(ix.funcs.items()):
        if f.node.name == "__init__":
            continue
        # local aliases of state containers: `lines = self._x` followed by `lines[k] = v` / `lines.append(v)`
        aliases: dict[str, ast.Attribute] = {}
        for n in own_nodes(f.node):
            if isinstance(n, ast.Assign) and len(n.targets) == 1 and isinstance(n.targets[0], ast.Name) \
                    and isinstance(n.value, ast.Attribute) and norm_stmt(n.value.value) in ("self", "self._tokenizer", "state"):
                aliases[n.targets[0].id] = n.value
        alias_writes = []
        for n in own_nodes(f.node):
            if isinstance(n, (ast.Assign, ast.AugAssign)):
                for t in (n.targets if isinstance(n, ast.Assign) else [n.target]):
                    if isinstance(t, ast.Subscript) and isinstance(t.value, ast.Name) and t.value.id in aliases:
                        alias_writes.append((n, aliases[t.value.id]))
            if isinstance(n, ast.Call) and isinstance(n.func, ast.Attribute) and isinstance(n.func.value, ast.Name) \
                    and n.func.value.id in aliases and n.func.attr in ("append", "add", "update", "pop", "clear", "setdefault", "extend", "insert", "remove"):
                alias_writes.append((n, aliases[n.func.value.id]))
        for n, attr in alias_writes:
            holder = norm_stmt(attr.value)
            owner = f.cls if holder == "self" else ("Tokenizer" if holder == "self._tokenizer" else "TokenizerState")
            chk.count("N0-state-inventory")
            kind = CLASSIFIED.get((owner, attr.attr))
            chk.require(kind is not None, "N0-state-inventory", f"{q}:{owner}.{attr.attr}(alias)", f"{f.rel}:{n.lineno}",
                        f"`{norm_stmt(n)[:60]}` mutates `{owner}.{attr.attr}` through a local alias; that state is not position-keyed and has "
                        f"no set/reset pairing, so it carries over from one statement (or macro) into the next")
        # containers held by the state objects and mutated in place: state.<attr>.append(..) and the like
        for n in own_nodes(f.node):
            if not (isinstance(n, ast.Call) and isinstance(n.func, ast.Attribute) and isinstance(n.func.value, ast.Attribute)
                    and n.func.attr in ("append", "add", "update", "pop", "clear", "setdefault", "extend", "insert", "remove", "popitem", "discard")):
                continue
            attr = n.func.value
            holder = norm_stmt(attr.value)
            owner = f.cls if holder == "self" else "Tokenizer" if holder == "self._tokenizer" else OWNER_OF_VAR.get(holder) if holder in (
                "state", "endprog", "prog") else "EndProg" if holder in ("self.end_progs[-1]", "state.end_progs[-1]") else None
            if owner in (None, "TokenInfo"):
                continue
            chk.count("N0-state-inventory")
            kind = CLASSIFIED.get((owner, attr.attr))
            chk.require(kind is not None, "N0-state-inventory", f"{q}:{owner}.{attr.attr}.{n.func.attr}", f"{f.rel}:{n.lineno}",
                        f"`{norm_stmt(n)[:60]}` changes `{owner}.{attr.attr}` in place; that state is not position-keyed, not a balanced "
                        f"counter and has no push/pop pairing that a rule discharges: what one statement leaves in it is seen by the next")
        for n in own_nodes(f.node):
            tgts = n.targets if isinstance(n, ast.Assign) else ([n.target] if isinstance(n, (ast.AugAssign, ast.AnnAssign)) else [])
            flat = []
            for t in tgts:
                flat += list(t.elts) if isinstance(t, ast.Tuple) else [t]
            for t in flat:
                base = t
                while isinstance(base, ast.Subscript):
                    base = base.value
                if not isinstance(base, ast.Attribute):
                    continue
                holder = norm_stmt(base.value)
                owner = None
                if holder == "self":
                    owner = f.cls
                elif holder == "self._tokenizer":
                    owner = "Tokenizer"
                elif holder in ("state", "endprog", "prog"):
                    owner = OWNER_OF_VAR[holder]
                elif holder in ("self.end_progs[-1]", "state.end_progs[-1]"):
                    owner = "EndProg"
                else:
                    # attribute store on an AST node under construction or another local object: not parser state
                    continue
                if owner in (None, "TokenInfo"):
                    continue
                chk.count("N0-state-inventory")
                key = f"{q}:{owner}.{base.attr}"
                kind = CLASSIFIED.get((owner, base.attr))
                chk.require(kind is not None, "N0-state-inventory", key, f"{f.rel}:{n.lineno}",
                            f"`{norm_stmt(n)[:60]}` writes `{owner}.{base.attr}`, which is not position-keyed, not a balanced counter and "
                            f"has no set/reset pairing: it can carry over from one statement into the next")
    chk.floor("N0-state-inventory", 30)


def rule_counter(chk: Check, ix: Index):
    """in_recursive_rule: +1 and -1 pair up under try/finally."""
    f = ix.get("memoize_left_rec.memoize_left_rec_wrapper")
    incs = [n for n in own_nodes(f.node) if isinstance(n, ast.AugAssign) and norm_stmt(n.target) == "self.in_recursive_rule"]
    chk.count("N3-balanced-counter")
    ok = False
    for t in [n for n in own_nodes(f.node) if isinstance(n, ast.Try)]:
        fin = [norm_stmt(s) for s in t.finalbody]
        if "self.in_recursive_rule -= 1" in fin:
            # the increment is the statement right before the try
            ok = any(norm_stmt(i) == "self.in_recursive_rule += 1" for i in incs) and len(incs) == 2
    chk.require(ok, "N3-balanced-counter", "in_recursive_rule", f.where,
                "the recursion depth counter must be incremented once and decremented in a `finally` (an exception in a rule would "
                "otherwise leave it raised)")


def rule_newline_neutral(chk: Check, ix: Index):
    f = ix.get("next_psuedo_matches")
    chk.count("N4-newline-neutral")
    ok = any(isinstance(n, ast.IfExp) and norm_stmt(n) == "Token.NL if state.parenlev > 0 else Token.NEWLINE" for n in own_nodes(f.node))
    chk.require(ok, "N4-newline-neutral", "next_psuedo_matches:NL-vs-NEWLINE", f.where,
                "a line end inside brackets must be NL, and NEWLINE only at bracket depth 0, so a statement ends with depth 0")
    # in f-string middle mode nothing but the f-string scanner runs
    body0 = [st for st in f.node.body if not (isinstance(st, ast.Expr) and isinstance(st.value, ast.Constant))]
    first = body0[0] if body0 else f.node.body[0]
    chk.count("N4-newline-neutral")
    chk.require(isinstance(first, ast.If) and "state.in_fstring()" in norm_stmt(first.test), "N4-newline-neutral",
                "next_psuedo_matches:fstring-guard", f.where,
                "no ordinary token (hence no NEWLINE) may be produced while inside the literal part of an f-string")
    # continuation flag is cleared when the continued line starts
    tk = ix.get("_tokenize")
    sets = [n for n in ast.walk(ix.modules[repo.TOKENIZE]) if isinstance(n, ast.Assign) and norm_stmt(n.targets[0]) == "state.continued"]
    vals = sorted(norm_stmt(n.value) for n in sets)
    chk.count("N4-newline-neutral")
    chk.require(vals.count("True") == 1 and vals.count("False") >= 1 and set(vals) <= {"True", "False"}, "N4-newline-neutral",
                "state.continued:set-reset", tk.where,
                f"the continuation flag is set in one place (the backslash-newline lexeme) and reset to False wherever a continued line is "
                f"taken up — that every such branch resets it is K6's `continued-flag-consumed` (found {vals})")
    # bracket depth: +1 / -1 only, paired with opener / closer tests
    writes = [norm_stmt(n) for n in ast.walk(ix.modules[repo.TOKENIZE]) if isinstance(n, ast.AugAssign) and norm_stmt(n.target) == "state.parenlev"]
    chk.count("N4-newline-neutral")
    chk.require(sorted(writes) == ["state.parenlev += 1", "state.parenlev += 1", "state.parenlev -= 1", "state.parenlev -= 1"],
                "N4-newline-neutral", "state.parenlev:writes", tk.where,
                f"bracket depth must change by one per bracket token (writes: {writes})")


def rule_statement_depth(chk: Check, ix: Index):
    """A line is taken as the start of a statement only at bracket depth exactly 0.  The depth is a counter nothing resets: were a
    statement started at another depth (a stray closer takes it below zero), that depth would be carried into every later
    statement, whose multi-line brackets then read differently than in a parse of their own."""
    chk.count("N4-newline-neutral")
    sites = []
    for q, f in sorted(ix.funcs.items()):
        if f.rel != repo.TOKENIZE:
            continue
        parents = {c: p for p in ast.walk(f.node) for c in ast.iter_child_nodes(p)}
        for n in own_nodes(f.node):
            if isinstance(n, ast.Call) and norm_stmt(n.func) == "next_statement":
                guards, cur = [], n
                while cur in parents:
                    par = parents[cur]
                    if isinstance(par, ast.If) and cur is not par.test:
                        guards.append((par.test, cur in par.body))
                    cur = par
                sites.append((f, n, guards))
    if not sites:
        chk.undecided("N4-newline-neutral", "next_statement:depth-zero", repo.TOKENIZE, "no call of next_statement found")
        return
    for f, n, guards in sites:
        atoms = []
        for test, pos in guards:
            parts = test.values if isinstance(test, ast.BoolOp) and isinstance(test.op, ast.And if pos else ast.Or) else [test]
            for a in parts:
                if "parenlev" in norm_stmt(a):
                    atoms.append((norm_stmt(a), pos))
        exact = any((t in ("state.parenlev == 0", "0 == state.parenlev", "not state.parenlev") and pos) or
                    (t in ("state.parenlev != 0", "0 != state.parenlev", "state.parenlev") and not pos) for t, pos in atoms)
        if not atoms:
            chk.undecided("N4-newline-neutral", "next_statement:depth-zero", f"{f.rel}:{n.lineno}",
                          "the call is not under an `if` that mentions the bracket depth")
        else:
            chk.require(exact, "N4-newline-neutral", "next_statement:depth-zero", f"{f.rel}:{n.lineno}",
                        f"a statement may start only at bracket depth exactly 0 (guards on the depth here: {atoms}): the depth is never "
                        f"reset, so a statement started below zero leaves every later statement at the wrong depth — parts of an input no "
                        f"longer parse as they do alone")


def rule_capture_stays_in_block(chk: Check, ix: Index):
    """The indented with-macro body ends where its block ends.  The scanner reports the blank and comment-only lines that follow a
    block (NL / COMMENT tokens) *before* the DEDENT of the next real line, so a capture loop that records every token up to the
    closing DEDENT also records the layout lines that stand between the block and the next statement — lines of the text after the
    construct.  Such lines may be recorded only provisionally (the loop has to tell NL / COMMENT tokens from the others)."""
    f = ix.funcs.get("Tokenizer.consume_with_macro_params")
    chk.count("N7-capture-stays-in-block")
    if f is None:
        chk.undecided("N7-capture-stays-in-block", "consume_with_macro_params:trailing-layout-lines", repo.TOKENIZER,
                      "the with-macro capture is not found under its name")
        return
    loops = [n for n in own_nodes(f.node) if isinstance(n, ast.For) and "_tokengen" in norm_stmt(n.iter)]
    if not loops:
        chk.undecided("N7-capture-stays-in-block", "consume_with_macro_params:trailing-layout-lines", f.where, "no loop over the raw stream")
        return
    told_apart = any(isinstance(n, ast.Attribute) and norm_stmt(n) in ("Token.NL", "Token.COMMENT") for lp in loops for n in ast.walk(lp))
    ends_at_dedent = any(isinstance(n, ast.Attribute) and norm_stmt(n) == "Token.DEDENT" for lp in loops for n in ast.walk(lp))
    chk.require(told_apart or not ends_at_dedent, "N7-capture-stays-in-block", "consume_with_macro_params:trailing-layout-lines", f.where,
                "the capture of an indented body runs to the closing DEDENT and records every token on the way, the blank and comment-only "
                "lines after the block included (the scanner emits them before the DEDENT): `with! c:⏎    a b⏎` followed by `# hi⏎x = 1⏎` "
                "has the body '    a b\\n# hi\\n', alone 'a b\\n'")


def rule_n1(chk: Check, ir):
    f = ir.rules.get("file")
    s = ir.rules.get("statements")
    if f is None or s is None:
        raise AnalysisError("rules file/statements vanished")
    chk.count("N1-top-level-repetition")
    a = f.alts[0]
    ok = len(f.alts) == 1 and len(a.items) == 2 and isinstance(a.items[0].item, Opt) and isinstance(a.items[0].item.item, Ref) \
        and a.items[0].item.item.name == "statements" and isinstance(a.items[1].item, Tok) and a.items[1].item.name == "ENDMARKER"
    chk.require(ok, "N1-top-level-repetition", "file", str(f.pos), "`file` must be `[statements] ENDMARKER`")
    chk.count("N1-top-level-repetition")
    a = s.alts[0]
    ok = len(s.alts) == 1 and len(a.items) == 1 and isinstance(a.items[0].item, Rep) and a.items[0].item.min == 1 and \
        isinstance(a.items[0].item.item, Ref) and a.action is not None and \
        norm_stmt(a.action) == f"list(itertools.chain.from_iterable({a.items[0].name}))"
    chk.require(ok, "N1-top-level-repetition", "statements", str(s.pos),
                "`statements` must be `statement+` flattened in order: the module body is the concatenation of the statements' results")
    # each statement alternative returns its own node(s) only
    st = ir.rules.get(a.items[0].item.item.name) if ok else None
    if st is not None:
        for i, alt in enumerate(st.alts):
            chk.count("N1-top-level-repetition")
            good = alt.action is not None and norm_stmt(alt.action) in (f"[{alt.items[0].name}]", f"{alt.items[0].name}")
            chk.require(good, "N1-top-level-repetition", f"{st.name}#alt{i}", str(alt.pos),
                        "a statement alternative must return exactly what it parsed")


def rule_n5(chk: Check, ix: Index, rule_id: str = "N5-previous-token"):
    """What a statement parses to must not depend on what was handed out before it.  The token buffer's *last* entry is exactly
    such history: after a raw capture it is a MACRO_PARAM, after a block a DEDENT, at the start of the input nothing.  Reads of it
    that feed a decision are therefore an inventory reviewed by hand; a new one is reported."""
    REVIEWED = {
        ("Tokenizer._next_raw", "position for the end-of-input error only"),
        ("Tokenizer.is_blank", "drops a NEWLINE that directly follows a NEWLINE: decided under K7-token-filter"),
        ("Tokenizer.consume_with_macro_params", "start position of the captured block: the colon just consumed"),
        ("Tokenizer.get_last_non_whitespace_token", "fallback when nothing precedes the position"),
        ("Tokenizer.diagnose", "the furthest token, for the error message"),
        ("Tokenizer.report", "trace output only"),
    }
    names = {a for a, _ in REVIEWED}
    n = 0
    for q, f in sorted(ix.funcs.items()):
        if f.rel not in (repo.TOKENIZER,):
            continue
        for node in own_nodes(f.node):
            if isinstance(node, ast.Subscript) and norm_stmt(node.value) == "self._tokens" and isinstance(node.ctx, ast.Load) and \
                    norm_stmt(node.slice) in ("-1", "len(self._tokens) - 1"):
                n += 1
                chk.count(rule_id)
                chk.require(q in names, rule_id, f"{q}:{norm_stmt(node)}", f"{f.rel}:{node.lineno}",
                            f"`{q}` reads the last token handed out (`{norm_stmt(node)}`) and is not one of the reviewed uses: a decision "
                            f"taken from it depends on what preceded the statement (after a with-macro block the last token is the "
                            f"MACRO_PARAM, not a NEWLINE/DEDENT), so the same statement parses differently on its own and after another")
    chk.units["previous_token_reads"] = n
    chk.floor(rule_id, 2)


def run(chk: Check):
    chk.explanation = (
        "Decides state neutrality at statement end, a necessary condition for parse(A+B) = parse(A) ++ shift(parse(B)): every "
        "instance attribute written outside a constructor is position-keyed, a balanced counter, a flag with a set->reset "
        "pairing that is committed by a cut and consumed in the same alternative (macro flags, pending path token), or tokenizer "
        "line state that is neutral whenever a NEWLINE can be emitted; the with-macro capture swallows a balanced INDENT/DEDENT "
        "pair; the module body is the in-order concatenation of `statement+`. The whole-vs-parts equality itself is not decided.")
    chk.trusted = ["xpverif.pyflow", "xpverif.pyir", "the CLASSIFIED table of state attributes (each entry discharged by the named rule)"]
    chk.assumptions = ["memo cache entries are keyed by token index, so entries of statement A cannot be hit while parsing B"]
    ix = Index()
    ir = repo.ir_x()
    rule_n0(chk, ix)
    rule_n1(chk, ir)
    macros.rule_m3(chk, ix, ir)
    macros.rule_n2(chk, ix, ir)
    macros.rule_m5(chk, ix)
    rule_counter(chk, ix)
    rule_newline_neutral(chk, ix)
    rule_statement_depth(chk, ix)
    rule_capture_stays_in_block(chk, ix)
    # the text handed to the scanner is the caller's text: a normalisation of the end of the input (stripping blanks or empty lines)
    # applies to a part parsed alone and not to the same part in front of another one — raw-text captures then differ
    from .c12 import rule_source_verbatim
    rule_source_verbatim(chk, ix, "N6-source-verbatim")
    rule_n5(chk, ix)
    from .c01 import rule_is_blank
    rule_is_blank(chk, "K7-token-filter")   # the one reviewed use of the previous token (a NEWLINE after a NEWLINE) is decided here
    from .c13 import rule_u1
    rule_u1(chk)   # a process-wide cache (of nodes, generators, tokens) is history: what one statement built is handed to the next
    # the line-continuation flag must not leak into the next logical line (C09 K6); flag-setting actions must not be re-run by
    # re-parsing the same position (C18 W1: a fork through unmemoised rules re-executes the actions on cached tokens)
    from .c09 import rule_k4, rule_k6
    from .c18 import rule_w1
    from .. import constfold
    rule_k4(chk, constfold.fold_tokenize(), ix)   # a page-break line between statements must measure as CPython does
    rule_k6(chk, constfold.fold_tokenize(), ix, False)
    rule_w1(chk, ir, False, "W1-memo-barrier")
    from .c07 import rule_m1, rule_m2
    rule_m1(chk, ix)   # where a raw capture ends decides where the next statement starts
    rule_m2(chk, ix)
    from .c08 import rule_l5
    rule_l5(chk, ix)
    chk.floor("M3-flag-typestate", 12)
    chk.floor("N2-path-token", 1)
    chk.floor("M5-indent-balance", 4)
