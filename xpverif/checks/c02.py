"""C02 — no over-acceptance: the structural mechanisms (DESIGN §4 C02, X1–X6)."""
from __future__ import annotations

import ast
import keyword

from .. import actions, asdl, constfold, irtools, repo
from ..common import AnalysisError, Check, norm_stmt, parse_py
from ..ir import Alt, Cut, Group, Lit, Look, Opt, Ref, Rep, Rule, Tok, walk_alt_items
from ..pyflow import Index, own_nodes

XONSH_TOKEN_TYPES = {"SEARCH_PATH", "MACRO_PARAM", "WS"}
DATA_GATED_HELPERS = {"concatenate_strings", "handle_fstring"}  # path literals are gated by the token's own prefix


def xonsh_only_terminals() -> set[str]:
    ops = constfold.fold_tokenize().need("OPS")
    only = {o for o in ops if o not in asdl.EXACT_TOKEN_TYPES}
    return {"'" + o + "'" for o in only} | XONSH_TOKEN_TYPES


def xonsh_helpers(ix: Index) -> set[str]:
    """Parser helpers that (transitively) build a __xonsh__/globals/locals call or touch a macro flag."""
    direct = set()
    for q, f in ix.funcs.items():
        if f.rel != repo.SUBHEADER:
            continue
        for n in own_nodes(f.node):
            if isinstance(n, ast.Constant) and isinstance(n.value, str) and (n.value.startswith("__xonsh__") or n.value in ("globals", "locals")):
                direct.add(q)
            if isinstance(n, ast.JoinedStr) and any(isinstance(v, ast.Constant) and str(v.value).startswith("__xonsh__") for v in n.values):
                direct.add(q)
            if isinstance(n, ast.Attribute) and n.attr in ("_call_macro", "_with_macro", "_proc_macro") and isinstance(n.ctx, ast.Store):
                direct.add(q)
    # closure over callers within subheader
    changed = True
    while changed:
        changed = False
        for q, f in ix.funcs.items():
            if q in direct or f.rel != repo.SUBHEADER:
                continue
            if ix.callees(f) & direct:
                direct.add(q)
                changed = True
    return {q.split(".")[-1] for q in direct if q.startswith("Parser.")}


def rule_x1(chk: Check, ir, ix: Index):
    xonly = xonsh_only_terminals()
    helpers = xonsh_helpers(ix) - DATA_GATED_HELPERS
    chk.units["xonsh_only_terminals"] = sorted(xonly)
    chk.units["xonsh_helpers"] = sorted(helpers)
    rules = ir.rules

    def producing(a: Alt) -> bool:
        return a.action is not None and any(
            isinstance(n, ast.Call) and isinstance(n.func, ast.Attribute) and norm_stmt(n.func.value) == "self" and n.func.attr in helpers
            for n in ast.walk(a.action))

    def has_xonly(a: Alt) -> bool:
        return any(isinstance(it, (Lit, Tok)) and irtools.term_key(it) in xonly for it in walk_alt_items(a))

    prod_alts = [(r, k, a) for r, k, a in actions.all_alts(rules) if producing(a)]
    # the Python fragment: alternatives that neither produce xonsh nodes nor mention xonsh-only terminals
    py_ok = lambda a: not producing(a) and not has_xonly(a)  # noqa: E731
    adj = irtools.adjacency(rules, py_ok)
    chk.units["python_fragment_adjacent_pairs"] = len(adj)
    # gated(rule): every successful match consumes (or positively looks ahead at) a xonsh-only terminal — greatest fixpoint
    gated: dict[str, bool] = {n: True for n in rules}

    def item_gated(it) -> bool:
        if isinstance(it, (Lit, Tok)):
            return irtools.term_key(it) in xonly
        if isinstance(it, Ref):
            return gated.get(it.name, False)
        if isinstance(it, Group):
            return all(any(item_gated(ni.item) for ni in a.items) for a in it.alts)
        if isinstance(it, (Opt, Cut)):
            return False
        if isinstance(it, Rep):
            return bool(it.min) and item_gated(it.item)
        if isinstance(it, Look):
            return it.positive and item_gated(it.item)
        return any(item_gated(c) for c in it.children())

    changed = True
    while changed:
        changed = False
        for r in rules.values():
            v = all(any(item_gated(ni.item) for ni in a.items) for a in r.alts)
            if v != gated[r.name]:
                gated[r.name] = v
                changed = True
    chk.units["rules_that_always_consume_a_xonsh_lexeme"] = sorted(n for n, v in gated.items() if v)
    first, last, item_n, fl_item, consuming = irtools.first_last(rules)

    def gate_index(a: Alt):
        """Index of the first item at which the alternative is known to have consumed something no Python program
        contains at that place; None if there is no such item."""
        prev_last: set = set()
        for j, ni in enumerate(a.items):
            it = ni.item
            if isinstance(it, Cut) or (isinstance(it, Look) and not it.positive):
                continue
            if item_gated(it):
                return j
            # adjacent pair impossible in Python: every (last of previous, first of this) pair is outside the relation
            if isinstance(it, Look):
                continue
            fy = fl_item(it, first)
            if prev_last and fy and not item_n(it) and all((x, y) not in adj for x in prev_last for y in fy):
                return j
            if not item_n(it):
                prev_last = fl_item(it, last)
            else:
                prev_last = prev_last | fl_item(it, last)
        return None

    gates = {}
    for r, k, a in actions.all_alts(rules):
        gates[k] = gate_index(a)
    # confinement: least fixpoint
    live = irtools.reachable(irtools.ref_graph(rules), [x for x in ("file", "eval") if x in rules])
    confined: set[str] = set()
    refs: dict[str, list] = {n: [] for n in rules}
    for r, k, a in actions.all_alts(rules):
        if r.name not in live:
            continue
        for j, ni in enumerate(a.items):
            for it in _walk(ni.item):
                if isinstance(it, Ref) and it.name in rules:
                    refs[it.name].append((r, k, a, j))
    changed = True
    while changed:
        changed = False
        for n in rules:
            if n in confined or n in ("file", "eval") or not refs[n]:
                continue
            ok = True
            for r, k, a, j in refs[n]:
                g = gates.get(k)
                topkey = k
                # a nested group alternative inherits the gate of its enclosing alternative(s)
                enclosing_gate = _enclosing_gated(k, gates)
                if r.name in confined or (g is not None and g <= j) or enclosing_gate:
                    continue
                ok = False
                break
            if ok:
                confined.add(n)
                changed = True
    chk.units["confined_rules"] = sorted(confined)
    for r, k, a in prod_alts:
        if r.name not in live:
            continue
        chk.count("X1-xonsh-confinement")
        g = gates.get(k)
        ok = g is not None or r.name in confined or _enclosing_gated(k, gates)
        chk.require(ok, "X1-xonsh-confinement", k, str(a.pos),
                    f"`{a}` builds a xonsh runtime call but nothing it must consume is xonsh-only and the rule `{r.name}` is reachable "
                    f"from Python-only contexts: text made only of Python lexemes can now produce a xonsh construct (over-acceptance)")
    chk.floor("X1-xonsh-confinement", 15)
    rule_path_literal_gate(chk)
    rule_path_literal_wrap(chk)


def rule_path_literal_gate(chk: Check):
    """A string token is a path literal exactly when its *prefix* (what precedes the first quote character) contains a p/P;
    the token handed on is the same literal without that one letter.  Decided by evaluating `_strip_path_prefix` over all
    string prefixes x quote styles x bodies containing the other quote kind and the letter p (finite domain)."""
    sub = parse_py(repo.SUBHEADER)
    parser = repo.find_class(sub, "Parser")
    sp = repo.find_func(parser, "_strip_path_prefix")
    F = constfold.fold_tokenize()
    prefixes = sorted(constfold.string_prefix_set())

    class FakeTok:
        def __init__(self, string):
            self.string = string

        def _replace(self, **kw):
            t = FakeTok(self.string)
            for k, v in kw.items():
                setattr(t, k, v)
            return t

    param = [a.arg for a in sp.args.args][0]
    SQ, DQ = "'", '"'
    bodies = ["x", "zip" + SQ + "s", "say " + DQ + "hi" + DQ, "p", "a" + SQ + "p" + DQ + "b", "a\nb", "a\\\nb", ""]
    bad = []
    n = 0
    for pre in prefixes:
        for q in (SQ, DQ, SQ * 3, DQ * 3):
            for body in bodies:
                if q[0] in body:
                    continue
                text = f"{pre}{q}{body}{q}"
                n += 1
                if "\n" in body and len(q) == 1 and "\\" not in body:
                    continue    # a bare newline cannot occur inside a one-quote literal
                try:
                    got = constfold.eval_pure_function(sp, {param: FakeTok(text)}, data_attrs=("string", "_replace"),
                                                       extra={"TokenInfo": FakeTok})
                except constfold.PureEvalError as e:
                    # second evaluator: statement subset with module-level literal / re.compile constants and pure str / re methods
                    from .c17 import EvalError as _EvErr, _mini_eval as _mini, module_pure_constants as _mpc
                    try:
                        env = dict(_mpc(repo.SUBHEADER))
                        env.update({param: FakeTok(text), "TokenInfo": FakeTok})
                        got = _mini(sp, env, {"_replace"})
                    except _EvErr as e2:
                        chk.count("X1-path-literal-gate")
                        chk.undecided("X1-path-literal-gate", "Parser._strip_path_prefix", f"{repo.SUBHEADER}:{sp.lineno}",
                                      f"the helper is outside the evaluable subset: {e}; {e2}")
                        return
                is_path = "p" in pre.lower()
                if (got is not None) != is_path:
                    bad.append((text, "path literal" if got is not None else "plain string"))
                elif got is not None:
                    want_pre = pre.lower().replace("p", "", 1)
                    rest = text[len(pre):]
                    cut = len(got.string) - len(rest)
                    if not (cut >= 0 and got.string[cut:] == rest and got.string[:cut].lower() == want_pre):
                        bad.append((text, f"handed on as {got.string!r}"))
    chk.count("X1-path-literal-gate")
    chk.units["path_prefix_cases_evaluated"] = n
    chk.require(not bad, "X1-path-literal-gate", "Parser._strip_path_prefix", f"{repo.SUBHEADER}:{sp.lineno}",
                f"a string token must be a path literal exactly when its prefix has a p, and lose exactly that letter; differs on "
                f"{bad[:3]} (a plain string such as \"zip's\" must never become a path_literal call, `P'/x'` must)")
    # non-tokens are never path literals
    chk.count("X1-path-literal-gate")
    try:
        r = constfold.eval_pure_function(sp, {param: object()}, data_attrs=("string", "_replace"), extra={"TokenInfo": FakeTok})
    except constfold.PureEvalError:
        r = "?"
    chk.require(r is None, "X1-path-literal-gate", "Parser._strip_path_prefix:non-token", f"{repo.SUBHEADER}:{sp.lineno}",
                "an already-built node (not a token) must not be taken for a path literal")


def rule_path_literal_wrap(chk: Check):
    sub = parse_py(repo.SUBHEADER)
    parser = repo.find_class(sub, "Parser")
    cs = repo.find_func(parser, "concatenate_strings")
    calls = [n for n in ast.walk(cs) if isinstance(n, ast.Call) and any(
        isinstance(x, ast.Constant) and x.value == "__xonsh__.path_literal" for x in n.args)]
    chk.count("X1-path-literal-gate")
    ok = len(calls) == 1 and any(isinstance(i, ast.If) and "path_tok" in norm_stmt(i.test) and any(calls[0] is x for x in ast.walk(i))
                                 for i in ast.walk(cs))
    chk.require(ok, "X1-path-literal-gate", "Parser.concatenate_strings", f"{repo.SUBHEADER}:{cs.lineno}",
                "the path_literal call must be control-dependent on a recognised path token")


def _enclosing_gated(key: str, gates: dict) -> bool:
    """rule#alt0.i3#alt1 is nested in rule#alt0 at item 3: gated if an enclosing alternative has its gate at or before
    the item that contains it."""
    parts = key.split(".")
    for d in range(len(parts) - 1, 0, -1):
        outer = ".".join(parts[:d])
        item = parts[d].split("#")[0]
        try:
            j = int(item[1:])
        except ValueError:
            continue
        g = gates.get(outer)
        if g is not None and g <= j:
            return True
    return False


def _walk(it):
    yield it
    if isinstance(it, Group):
        return
    for c in it.children():
        yield from _walk(c)


def rule_x2(chk: Check, ir):
    # the start rules: `file` and `eval`, and every other grammar rule the entry points name (a string constant of parse_string /
    # parse_file that is a rule name — e.g. a new mode mapped to `interactive`)
    starts = ["file", "eval"]
    try:
        sub = parse_py(repo.SUBHEADER)
        parser = repo.find_class(sub, "Parser")
        for fn_name in ("parse_string", "parse_file"):
            fn = repo.maybe_func(parser, fn_name)
            if fn is None:
                continue
            for n in ast.walk(fn):
                if isinstance(n, ast.Constant) and isinstance(n.value, str) and n.value in ir.rules and n.value not in starts:
                    starts.append(n.value)
    except AnalysisError:
        pass
    for name in starts:
        r = ir.rules.get(name)
        if r is None:
            raise AnalysisError(f"start rule {name} vanished")
        for i, a in enumerate(r.alts):
            chk.count("X2-endmarker")
            last = a.items[-1].item if a.items else None
            chk.require(isinstance(last, Tok) and last.name == "ENDMARKER", "X2-endmarker", f"{name}#alt{i}", str(a.pos),
                        f"start rule alternative `{a}` does not end in ENDMARKER: trailing garbage after a valid prefix would be accepted")


def rule_x4(chk: Check, ir, ix: Index):
    for r, k, a in actions.all_alts(dict(ir.rules)):
        for it in walk_alt_items(a):
            if isinstance(it, Tok) and it.name == "ERRORTOKEN":
                chk.fail("X4-errortoken", f"{k}:ERRORTOKEN", str(a.pos), "a grammar item accepts ERRORTOKEN: unknown characters would be accepted")
    chk.count("X4-errortoken")
    chk.ok("X4-errortoken", "no-grammar-item", repo.PARSER_X)
    f = ix.get("Tokenizer.is_blank")
    chk.count("X4-errortoken")
    # decided on the filter's truth table (whatever its shape): a non-blank ERRORTOKEN is never dropped
    from .c01 import _BlankEnv, _eval_paths
    from ..pyflow import stmt_paths as _sp
    try:
        ps = _sp(f.node.body)
        tokparam = [a.arg for a in f.node.args.args][1]
        ok = all(not _eval_paths(ps, _BlankEnv(tokparam, "ERRORTOKEN", False, raw, prev))
                 for raw in (False, True) for prev in (None, "NEWLINE", "NAME"))
    except AnalysisError:
        ok = False
    chk.require(ok, "X4-errortoken", "Tokenizer.is_blank:ERRORTOKEN", f.where,
                "an ERRORTOKEN may be dropped only when it is whitespace; dropping others hides unknown characters from the grammar")
    # wildcard token items (OP / ANY_TOKEN / KEYWORD as a value) only in rules that are not reachable from Python-only contexts
    # (decided together with X1: reported there through confinement); here: enumerate them for the evidence
    wild = sorted({f"{k}:{it.name}" for r, k, a in actions.all_alts(ir.rules) for it in walk_alt_items(a)
                   if isinstance(it, Tok) and it.name in ("ANY_TOKEN", "OP", "KEYWORD", "WS")})
    chk.units["wildcard_items"] = wild


def rule_x4b(chk: Check, ir, confined: list[str], live: set[str]):
    for r, k, a in actions.all_alts(ir.rules):
        if r.name.startswith("invalid_") or r.name not in live:
            continue
        for it in walk_alt_items(a):
            if isinstance(it, Tok) and it.name in ("ANY_TOKEN", "OP", "KEYWORD", "WS"):
                chk.count("X4-wildcards-confined")
                chk.require(r.name in confined, "X4-wildcards-confined", f"{k}:{it.name}", str(a.pos),
                            f"the wildcard token item {it.name} occurs in `{r.name}`, which Python-only text can reach: arbitrary "
                            f"operators/keywords would be accepted as values")


def rule_x5(chk: Check, ir):
    chk.count("X5-keyword-tables")
    chk.require(tuple(ir.keywords) == tuple(sorted(keyword.kwlist)), "X5-keyword-tables", "KEYWORDS", repo.PARSER_X,
                f"hard keywords differ from CPython's: +{sorted(set(ir.keywords) - set(keyword.kwlist))} "
                f"-{sorted(set(keyword.kwlist) - set(ir.keywords))} (NAME would accept/refuse the wrong words everywhere)")
    chk.count("X5-keyword-tables")
    chk.require(set(ir.soft_keywords) == set(keyword.softkwlist), "X5-keyword-tables", "SOFT_KEYWORDS", repo.PARSER_X,
                f"soft keywords differ from CPython's: {sorted(ir.soft_keywords)} vs {sorted(keyword.softkwlist)}")
    # Parser.name()/keyword() partition NAME tokens by the table
    sub = parse_py(repo.SUBHEADER)
    parser = repo.find_class(sub, "Parser")
    nm = repo.find_func(parser, "name")
    kw = repo.find_func(parser, "keyword")
    chk.count("X5-keyword-tables")
    from .c01 import eval_leaf_matcher
    u1, b1 = eval_leaf_matcher(nm, "Parser.name")
    u2, b2 = eval_leaf_matcher(kw, "Parser.keyword")
    t1, t2 = (u1 or b1), (u2 or b2)
    if u1 or u2:
        chk.undecided("X5-keyword-tables", "Parser.name/keyword", f"{repo.SUBHEADER}:{nm.lineno}", f"matchers not evaluable: {u1 or u2}")
    else:
        chk.require(not t1 and not t2, "X5-keyword-tables", "Parser.name/keyword",
                    f"{repo.SUBHEADER}:{nm.lineno}", f"NAME must refuse exactly the hard keywords (tests: {t1} / {t2})")


def rule_x6(chk: Check, ir):
    allr = dict(ir.rules)
    allr.update(ir.helpers)
    for r in allr.values():
        for i, a in enumerate(r.alts):
            inv = [it.name for it in walk_alt_items(a) if isinstance(it, Ref) and it.name.startswith("invalid_")]
            if not inv:
                continue
            chk.count("X6-invalid-gating")
            key = f"{r.name}#alt{i}"
            if a.invalid_guard:
                chk.ok("X6-invalid-gating", key, str(a.pos))
            elif r.name.startswith("invalid_") or _inside_rep(a, inv[0]):
                chk.ok("X6-invalid-gating", key, str(a.pos), "inside an invalid_ rule / repetition")
            else:
                chk.fail("X6-invalid-gating", key, str(a.pos),
                         f"`{a}` calls `{inv[0]}` without the call_invalid_rules gate: diagnostics run (and may raise) in the first pass")
    chk.floor("X6-invalid-gating", 40)


def _inside_rep(a: Alt, name: str) -> bool:
    for ni in a.items:
        if isinstance(ni.item, Rep) and any(isinstance(x, Ref) and x.name == name for x in _walk_all(ni.item)):
            return True
    return False


def _walk_all(it):
    yield it
    for c in it.children():
        yield from _walk_all(c)


_FIRST_CACHE: dict = {}


def _order_irrelevant(xg, name: str, a: list, b: list, only=None) -> bool:
    """The alternatives of `name` are CPython's in another order.  That is behaviour-preserving when every pair that changed
    relative order is disjoint on its first token (and neither can match empty): at most one of the two can succeed."""
    from .c01 import _first_of_items
    from .. import cpygram
    if "fl" not in _FIRST_CACHE:
        _FIRST_CACHE["fl"] = irtools.first_last(xg.rules, alt_ok=lambda al: not cpygram.has_invalid(al))
    first, last, item_n, fl_item, consuming = _FIRST_CACHE["fl"]
    alts = [al for al in xg.rules[name].alts if not cpygram.has_invalid(al)]
    firsts = []
    for al in alts:
        if all(item_n(ni.item) for ni in al.items):
            return False  # a nullable alternative always succeeds: order matters
        firsts.append(_first_of_items(al.items, fl_item, first, item_n))
    hard = set(keyword.kwlist)

    def overlap(x: set, y: set) -> bool:
        if x & y:
            return True
        for p, q in ((x, y), (y, x)):
            if "NAME" in p and any(t.startswith(("'", '"')) and t.strip("'\"").isidentifier() and t.strip("'\"") not in hard for t in q):
                return True
            if "ANY_TOKEN" in p or "OP" in p and any(t.startswith("'") for t in q):
                return True
        return False

    pos_b = {repr(sig): i for i, sig in enumerate(b)}
    if len(pos_b) != len(b):
        return False
    if len(firsts) != len(a):
        return False
    idx = [i for i, sig in enumerate(a) if repr(sig) in pos_b and (only is None or repr(sig) in only)]
    for x in range(len(idx)):
        for y in range(x + 1, len(idx)):
            i, j = idx[x], idx[y]
            if pos_b[repr(a[i])] > pos_b[repr(a[j])] and overlap(firsts[i], firsts[j]):
                return False
    return True


def rule_x7(chk: Check):
    """Sibling cross-check through time: Python rules that were CPython's own rule on the pinned tree still are."""
    from .. import cpygram
    cp = cpygram.cpython_grammar()
    xg = repo.gram_x()

    def rename_refs(sig, ren):
        if isinstance(sig, tuple):
            if len(sig) == 2 and sig[0] == "ref" and isinstance(sig[1], str):
                return ("ref", ren.get(sig[1], sig[1]))
            return tuple(rename_refs(x, ren) for x in sig)
        if isinstance(sig, list):
            return [rename_refs(x, ren) for x in sig]
        return sig
    # a rule given a new name everywhere is the same rule: a reference rule that is missing is looked for among the rules CPython
    # does not have, by structure (with the new name read as the old one)
    ren: dict[str, str] = {}
    fresh = [r for r in xg.rules if r not in cp.rules]
    for name in list(cpygram.equal_rules()) + sorted({n for n, _, _ in cpygram.equal_alts()}):
        if name in xg.rules or name not in cp.rules or name in ren.values():
            continue
        want = cpygram.rule_sig(cp.rules[name])
        cands = [r for r in fresh if r not in ren and rename_refs(cpygram.rule_sig(xg.rules[r]), {r: name}) == want]
        if len(cands) == 1:
            ren[cands[0]] = name
    if ren:
        back = {v: k for k, v in ren.items()}
        chk.units["x7_renamed_rules"] = dict(ren)
    else:
        back = {}
    _rule_sig = cpygram.rule_sig

    import json as _json
    import os as _os
    try:
        _known = set(_json.load(open(_os.path.join(_os.path.dirname(_os.path.dirname(_os.path.dirname(_os.path.abspath(__file__)))),
                                                   "oracle", "xonsh_rule_sigs.json"))))
    except Exception:
        _known = set(xg.rules)

    def xsig(name):
        sig = rename_refs(_rule_sig(xg.rules[back.get(name, name)]), ren)
        # an alternative that is just a reference to a rule neither CPython nor the pinned grammar has is that rule's alternatives
        # written in place ("extract the shared alternative into a rule of its own")
        out = []
        for alt in sig:
            if isinstance(alt, tuple) and len(alt) == 1 and isinstance(alt[0], tuple) and len(alt[0]) == 2 and alt[0][0] == "ref" \
                    and alt[0][1] in xg.rules and alt[0][1] not in cp.rules and alt[0][1] not in _known and alt[0][1] not in ren:
                out.extend(rename_refs(_rule_sig(xg.rules[alt[0][1]]), ren))
            else:
                out.append(alt)
        return type(sig)(out) if isinstance(sig, tuple) else out

    def has(name):
        return back.get(name, name) in xg.rules
    for name in cpygram.equal_rules():
        if name.startswith("invalid_"):
            continue     # diagnostic rules decide the error message, not what is accepted (C11's business)
        chk.count("X7-cpython-sibling")
        if not has(name):
            chk.fail("X7-cpython-sibling", name, repo.GRAM_X, f"Python rule `{name}` has disappeared from the grammar")
            continue
        if name not in cp.rules:
            raise AnalysisError(f"reference rule {name} missing from the vendored CPython grammar")
        a, b = xsig(name), cpygram.rule_sig(cp.rules[name])
        if a != b and sorted(map(repr, a)) == sorted(map(repr, b)) and _order_irrelevant(xg, back.get(name, name), _rule_sig(xg.rules[back.get(name, name)]), rename_refs(b, back)):
            continue  # same alternatives; the ones that changed places start with different tokens, so ordered choice cannot tell
        chk.require(a == b, "X7-cpython-sibling", name, str(xg.rules[back.get(name, name)].pos),
                    f"`{name}` was structurally CPython's own rule and no longer is — {cpygram.describe_diff(a, b)}: text in the Python "
                    f"lexicon is now accepted or parsed differently from CPython")
    # rules that already differ from CPython's as a whole: the alternatives they still shared with it on the pinned tree
    by_rule: dict[str, list[int]] = {}
    rank: dict[tuple[str, int], int] = {}
    for name, j, i in cpygram.equal_alts():
        by_rule.setdefault(name, []).append(j)
        rank[(name, j)] = i
    for name, idxs in sorted(by_rule.items()):
        if name.startswith("invalid_"):
            continue
        if name not in cp.rules:
            raise AnalysisError(f"reference rule {name} missing from the vendored CPython grammar")
        b = cpygram.rule_sig(cp.rules[name])
        a = xsig(name) if has(name) else None
        xname = back.get(name, name)
        for j in idxs:
            chk.count("X7-cpython-sibling")
            key = f"{name}#cpython-alt{j}"
            if a is None:
                chk.fail("X7-cpython-sibling", key, repo.GRAM_X, f"Python rule `{name}` has disappeared from the grammar")
                continue
            if j >= len(b):
                raise AnalysisError(f"reference alternative {name}#{j} missing from the vendored CPython grammar")
            chk.require(b[j] in a, "X7-cpython-sibling", key, str(xg.rules[xname].pos),
                        f"`{name}` no longer has CPython's alternative {b[j]}: an item, look-ahead or cut of it was changed, so text in the "
                        f"Python lexicon is accepted or parsed differently from CPython")
        # relative order of the shared alternatives (ordered choice) as on the pinned tree, unless they start with different tokens
        if a is not None:
            shared = sorted((j for j in idxs if b[j] in a), key=lambda j: rank[(name, j)])
            pos = [a.index(b[j]) for j in shared]
            chk.count("X7-cpython-sibling")
            ok = pos == sorted(pos)
            if not ok:
                ref = [b[j] for j in shared]
                ok = _order_irrelevant(xg, xname, rename_refs(a, back), rename_refs(ref, back), only=set(map(repr, rename_refs(ref, back))))
            chk.require(ok, "X7-cpython-sibling", f"{name}#order", str(xg.rules[xname].pos),
                        f"the alternatives `{name}` shares with CPython's rule are tried in a different order than before (ordered choice: "
                        f"a different one wins)")
    chk.floor("X7-cpython-sibling", 150)


def rule_x8(chk: Check, ir, ix: Index):
    """X8: text that only the *scanner* can reject.  A lone `}` in the literal part of an f-string is a CPython error
    ("single '}' is not allowed"); here the literal part is whatever the middle-mode scan pattern runs over, and the
    FSTRING_MIDDLE text goes into the tree unexamined, so the pattern (or the action) has to notice the brace."""
    from .. import rx
    from .c10 import add_prog_sites, fold_pattern
    F = constfold.fold_tokenize()
    endpats = F.need("endpats")
    lone = r"(?:[^}]|\}\})*\}[^}](?:.|\n)*"
    sites = [(f, n, mode, pat, defs) for f, n, mode, pat, defs in add_prog_sites(ix) if mode == "ModeMiddle"]
    if not sites:
        raise AnalysisError("X8: no add_prog site enters ModeMiddle")
    # do the FSTRING_MIDDLE actions look at the text at all?
    examined = True
    n_actions = 0
    for r in ir.rules.values():
        for a in r.alts:
            for it in a.items:
                if isinstance(it.item, Tok) and it.item.name == "FSTRING_MIDDLE" and it.name and a.action is not None:
                    n_actions += 1
                    for c in ast.walk(a.action):
                        if isinstance(c, ast.Call) and norm_stmt(c.func) == "ast.Constant":
                            for kw in c.keywords:
                                if kw.arg == "value" and norm_stmt(kw.value) == f"{it.name}.string":
                                    examined = False
    if not n_actions:
        raise AnalysisError("X8: no action receives a FSTRING_MIDDLE token")
    for f, n, mode, pat, defs in sites:
        if pat is None:
            continue
        for p in fold_pattern(pat, defs, endpats):
            chk.count("X8-fstring-lone-rbrace")
            try:
                an = rx.Analysis({"scan": p, "lone": lone}, exhaustive=False)
                w = an.witness_intersection(["scan", "lone"])
            except rx.Unsupported as e:
                chk.undecided("X8-fstring-lone-rbrace", f"{f.qual}:ModeMiddle", f"{f.rel}:{n.lineno}", f"scan pattern not analysable: {e}")
                continue
            chk.require(w is None or examined, "X8-fstring-lone-rbrace", f"{f.qual}:ModeMiddle", f"{f.rel}:{n.lineno}",
                        f"the literal-part scan runs over {w!r}: a closing brace that is not doubled becomes part of the FSTRING_MIDDLE "
                        f"text, and the grammar copies that text into a Constant unexamined — `f'}}'` and `f'a}}b'` return a tree "
                        f"(CPython: f-string: single '}}' is not allowed)")


def rule_x10(chk: Check, ix: Index):
    """X10: complex-literal patterns (`case 1 + 2j:`) — CPython requires a real number on the left and an imaginary one on the
    right.  The two guards are evaluated over a finite domain of literal values (ints, floats, zero and non-zero imaginaries)."""
    domain = [0, 7, -3, 0.0, 1.5, 0j, 1j, 0.0j, 2.5j]
    for name, reject_when in (("Parser.ensure_real", lambda v: isinstance(v, complex)),
                              ("Parser.ensure_imaginary", lambda v: not isinstance(v, complex))):
        f = ix.get(name)
        guards = [n for n in f.node.body if isinstance(n, ast.If) and any(
            isinstance(c, ast.Call) and norm_stmt(c.func).startswith("self.raise_") for c in ast.walk(n))]
        chk.count("X10-complex-literal-guards")
        if len(guards) != 1:
            chk.fail("X10-complex-literal-guards", name, f.where, "no single raising guard on the evaluated number")
            continue
        names = {n.id for n in ast.walk(guards[0].test) if isinstance(n, ast.Name)} - {"isinstance", "float", "int", "complex", "type", "abs"}
        if len(names) != 1:
            chk.undecided("X10-complex-literal-guards", name, f.where, f"guard `{norm_stmt(guards[0].test)}` is not a test of one value")
            continue
        var = next(iter(names))
        bad = []
        for v in domain:
            try:
                got = bool(constfold.fold_expr(guards[0].test, {var: v}, data_attrs=("imag", "real")))
            except Exception as e:
                bad.append((v, f"not evaluable: {e}"))
                break
            if got != reject_when(v):
                bad.append((v, "rejected" if got else "accepted"))
        chk.require(not bad, "X10-complex-literal-guards", name, f.where,
                    f"the guard `{norm_stmt(guards[0].test)}` decides differently from CPython on {bad[:3]} "
                    f"(e.g. `case 0j + 1j:` must be rejected: the left part has to be real whatever its value)")


def run(chk: Check):
    chk.explanation = (
        "Decides the mechanisms that keep the xonsh extensions behind xonsh-only lexemes and make rejection total: (X1) every "
        "alternative that builds a xonsh runtime call must consume a xonsh-only terminal (operator outside CPython's exact-token "
        "table, SEARCH_PATH/MACRO_PARAM/WS, or a token pair Python's own fragment of the grammar can never place side by side), or "
        "lie in a rule reachable only through such gates (least fixpoint); path literals are gated by the token's own prefix; (X2) "
        "start rules end in ENDMARKER; (X3) a None result of the start rule always becomes a raised SyntaxError; (X4) nothing "
        "accepts ERRORTOKEN and wildcard token items live only in confined rules; (X5) keyword tables equal CPython's; (X6) "
        "diagnostic rules are gated; (X7) the 190 grammar rules that are structurally CPython 3.11's own rules on the pinned tree "
        "(vendored Grammar/python.gram as sibling implementation) still are — a dropped look-ahead, a reordered or added alternative "
        "or an extra optional in one of them is reported. For the rules that already differ from CPython's, whether they became too "
        "permissive is language inclusion against CPython and is not decided.")
    chk.trusted = ["token.EXACT_TOKEN_TYPES / keyword tables of the running interpreter", "xpverif.pyir", "xpverif.irtools (must-consume, adjacency)"]
    chk.assumptions = ["the CFG reading over-approximates what the PEG accepts, so an adjacent pair absent from it is absent from Python"]
    ir = repo.ir_x()
    ix = Index()
    rule_x1(chk, ir, ix)
    rule_x2(chk, ir)
    from .c03 import rule_e6, rule_t2
    rule_e6(chk, ix)
    rule_t2(chk, ix)      # input that ends inside a string / brackets / after a backslash must be refused, not quietly end the scan
    rule_x4(chk, ir, ix)
    live = irtools.reachable(irtools.ref_graph(ir.rules), ["file", "eval"])
    rule_x4b(chk, ir, chk.units.get("confined_rules", []), live)
    rule_x5(chk, ir)
    from .x11 import rule_x11, rule_x12
    rule_x11(chk)
    rule_x12(chk)
    rule_x6(chk, ir)
    rule_x7(chk)
    rule_x8(chk, ir, ix)
    rule_x10(chk, ix)
    # rejection mechanisms that live in the scanner and in the string actions are necessary for C02 as much as for the
    # property they were written under: inconsistent dedent, unterminated one-line strings, bytes next to str/f-strings
    from .c08 import rule_l1, rule_l2, rule_l4
    rule_l4(chk, ix)
    rule_l2(chk, ix)
    rule_l1(chk, ix)   # a token whose text is not the source slice can be a keyword where the source has none (NFKC-folded names)
    from .c09 import rule_k1, rule_k4, rule_k6
    rule_k4(chk, constfold.fold_tokenize(), ix)   # the indentation measure decides which dedents are inconsistent
    rule_k6(chk, constfold.fold_tokenize(), ix, False)
    rule_k1(chk, constfold.fold_tokenize(), False)   # what the scanner accepts as a lexeme / line joiner
    from .. import typed
    typed.run().feed(chk, {"S1-joinedstr-bytes": "X9-bytes-mixing", "E4-mixed-literal-add": "X9-bytes-mixing"})
    chk.floor("X8-fstring-lone-rbrace", 1)
    chk.floor("L4-block-structure", 4)
    chk.floor("X2-endmarker", 2)
    chk.floor("X4-wildcards-confined", 3)
