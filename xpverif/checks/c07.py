"""C07 — macros receive verbatim text: must-append, delimiter tables, flag typestate, builders (DESIGN §4 C07, M1–M5)."""
from __future__ import annotations

import ast

from .. import actions, constfold, macros, probe, repo, typed
from ..absval import ListV, Node, members
from ..common import AnalysisError, Check, norm_stmt, parse_py
from ..pyflow import CFG, Index, own_nodes


def rule_m1(chk: Check, ix: Index):
    f = ix.get("Tokenizer.consume_macro_params")
    cfg = CFG(f.node)
    heads = [n for n in cfg.nodes if n.kind == "loop"]
    if len(heads) != 1:
        raise AnalysisError("token loop of consume_macro_params not found")
    head = heads[0]
    # the variable handed out as the raw text, and the variable holding the token just fetched
    rets = [n for n in own_nodes(f.node) if isinstance(n, ast.Return) and isinstance(n.value, ast.Call) and norm_stmt(n.value.func) == "TokenInfo"
            and n.value.args and "MACRO_PARAM" in norm_stmt(n.value.args[0])]
    textvar = norm_stmt(rets[0].value.args[1]) if rets and len(rets[0].value.args) > 1 else None
    fetch = [n for n in cfg.nodes if n.kind == "stmt" and isinstance(n.stmt, ast.Assign) and isinstance(n.stmt.targets[0], ast.Name)
             and isinstance(n.stmt.value, ast.Call) and ("next" in norm_stmt(n.stmt.value.func))]
    tokvar = fetch[0].stmt.targets[0].id if fetch else None
    appends = []
    # second idiom: the tokens are collected in a list and the text is joined from their strings afterwards
    collect = None
    if textvar:
        tdefs = [s.value for s in own_nodes(f.node) if isinstance(s, ast.Assign) and len(s.targets) == 1 and norm_stmt(s.targets[0]) == textvar]
        if len(tdefs) == 1 and isinstance(tdefs[0], ast.Call) and isinstance(tdefs[0].func, ast.Attribute) and tdefs[0].func.attr == "join" \
                and isinstance(tdefs[0].func.value, ast.Constant) and tdefs[0].func.value.value == "" and len(tdefs[0].args) == 1 \
                and isinstance(tdefs[0].args[0], (ast.GeneratorExp, ast.ListComp)) and len(tdefs[0].args[0].generators) == 1:
            comp = tdefs[0].args[0]
            gen = comp.generators[0]
            if isinstance(gen.iter, ast.Name) and not gen.ifs and isinstance(gen.target, ast.Name) and \
                    norm_stmt(comp.elt) == f"{gen.target.id}.string":
                collect = gen.iter.id
    if collect and tokvar:
        for n in cfg.nodes:
            if n.kind == "stmt" and isinstance(n.stmt, ast.Expr) and norm_stmt(n.stmt) == f"{collect}.append({tokvar})":
                appends.append(n.id)
        # nothing else may touch the collection
        others = [norm_stmt(s) for s in own_nodes(f.node) if isinstance(s, ast.stmt) and not isinstance(s, (ast.If, ast.While, ast.For))
                  and any(isinstance(x, ast.Name) and x.id == collect and isinstance(x.ctx, (ast.Store, ast.Del)) for x in ast.walk(s))]
        if len(others) != 1 or not any(others[0].endswith(e) for e in ("= []", "= list()")):
            appends = []
    for n in cfg.nodes:
        if collect:
            break
        if n.kind != "stmt" or not isinstance(n.stmt, (ast.Assign, ast.AugAssign)):
            continue
        tgt = n.stmt.targets[0] if isinstance(n.stmt, ast.Assign) else n.stmt.target
        if textvar and tokvar and norm_stmt(tgt) == textvar and any(
                isinstance(x, ast.Attribute) and x.attr == "string" and norm_stmt(x.value) == tokvar for x in ast.walk(n.stmt.value)):
            appends.append(n.id)
    chk.count("M1-must-append")
    ok = len(fetch) == 1 and len(appends) >= 1 and cfg.must_pass(fetch[0].id, [head.id], appends)
    chk.require(ok, "M1-must-append", "consume_macro_params:every-token-appended", f.where,
                "every token that does not end the argument must be appended to the captured text before the next token is fetched "
                "(some path back to the loop head skips every statement that adds the token's text)")
    # the only ways out of the loop are the two delimiters at bracket depth 0
    breaks = [n for n in cfg.nodes if n.kind == "stmt" and isinstance(n.stmt, ast.Break)]
    chk.count("M1-must-append")
    conds = []
    for b in breaks:
        for i in own_nodes(f.node):
            if isinstance(i, ast.If) and any(b.stmt is x for x in i.body):
                conds.append(norm_stmt(i.test))
    from .bufeval import arbitrate
    arbitrate(chk, sorted(conds) == ["tok.is_exact_type(')')", "tok.is_exact_type(',')"], "M1-must-append",
              "consume_macro_params:delimiters", f.where,
              f"an argument ends only at a top-level `,` or `)`; the loop is left under {sorted(conds)}")
    # start/end of the captured token are the first token's start and the last token's end
    src = [norm_stmt(s) for s in ast.walk(f.node) if isinstance(s, ast.stmt)]
    chk.count("M1-must-append")
    span_ok = ("end = tok.end" in src and "start = tok.start" in src) or \
        (collect is not None and f"start = {collect}[0].start" in src and f"end = {collect}[-1].end" in src)
    arbitrate(chk, span_ok and
              any(s.startswith("return TokenInfo(Token.MACRO_PARAM, string, start, end, line)") for s in src),
              "M1-must-append", "consume_macro_params:span", f.where,
              "the raw argument token must span from the first captured token's start to the last one's end")
    # blank argument or real one: decided on the captured *text* (a line break inside the brackets is blank text made of NL
    # tokens, not of WS tokens)
    import types as _types0
    from .. import constfold as _cf0
    chk.count("M1-must-append")
    ws_rets = [n for n in own_nodes(f.node) if isinstance(n, ast.Return) and isinstance(n.value, ast.Call) and norm_stmt(n.value.func) == "TokenInfo"
               and n.value.args and "Token.WS" in norm_stmt(n.value.args[0])]
    guard = None
    for i in own_nodes(f.node):
        if isinstance(i, ast.If) and ws_rets and any(ws_rets[0] is x for x in i.body):
            guard = (i.test, True)
        elif isinstance(i, ast.If) and ws_rets and any(ws_rets[0] is x for x in i.orelse):
            guard = (i.test, False)
    verdict, why_b = None, ""
    if len(ws_rets) == 1 and guard is not None and textvar:
        test, pol = guard
        names = {n.id for n in ast.walk(test) if isinstance(n, ast.Name)}
        SAMPLES = ["", " ", "\n", "\n    ", " a ", "\t", "x", "\n  y", "  \n"]
        if names <= {textvar}:
            try:
                wrong = [s for s in SAMPLES if bool(_cf0.fold_expr(test, {textvar: s})) != ((not s.strip()) == pol)]
                verdict, why_b = not wrong, f"differs on the texts {wrong[:3]!r}"
            except AnalysisError as e:
                why_b = str(e)
        else:
            # a flag carried through the loop: flag = flag and P(tok)  (flag starts True)  <=>  all(P(tok))
            flag = test.operand if isinstance(test, ast.UnaryOp) and isinstance(test.op, ast.Not) else test
            flag_pol = pol != (flag is not test)
            if isinstance(flag, ast.Name):
                fdefs = [s for s in own_nodes(f.node) if isinstance(s, ast.Assign) and len(s.targets) == 1 and norm_stmt(s.targets[0]) == flag.id]
                init = [s for s in fdefs if isinstance(s.value, ast.Constant)]
                upd = [s for s in fdefs if isinstance(s.value, ast.BoolOp) and any(norm_stmt(v) == flag.id for v in s.value.values)]
                if len(init) == 1 and len(upd) == 1 and len(fdefs) == 2 and tokvar:
                    conj = isinstance(upd[0].value.op, ast.And)
                    pred = [v for v in upd[0].value.values if norm_stmt(v) != flag.id]
                    if len(pred) == 1 and init[0].value.value is conj:
                        wrong = []
                        try:
                            Token = _types0.SimpleNamespace(**{k: ("Token", k) for k in repo.token_enum_names()})
                            FEASIBLE = {"WS": [" ", "\t", "  "], "NL": ["\n", "\r\n"], "NEWLINE": ["\n"], "NAME": ["x"], "OP": [",", "("],
                                        "STRING": ["'a'", "' '"], "COMMENT": ["# c"], "NUMBER": ["1"]}
                            for kind, texts in FEASIBLE.items():
                                for s in texts:
                                    tok = _types0.SimpleNamespace(type=getattr(Token, kind), string=s)
                                    got = bool(_cf0.builder_expr_eval(("strip", "isspace", "lstrip", "rstrip"))(pred[0], {tokvar: tok, "Token": Token}))
                                    # all-blank flag (and-form, tested positively) must be "this token's text is blank"
                                    blank_tok = not s.strip()
                                    want = blank_tok if conj else not blank_tok
                                    if got != want:
                                        wrong.append((kind, s))
                            means_blank = flag_pol if conj else not flag_pol
                            verdict = not wrong and means_blank
                            why_b = f"the per-token test differs from 'its text is blank' on {wrong[:3]!r}"
                        except (AnalysisError, KeyError, AttributeError, _cf0.PureEvalError) as e:
                            why_b = str(e)
    if verdict is None:
        chk.undecided("M1-must-append", "consume_macro_params:blank-argument", f.where, f"the blank/real decision is not evaluable: {why_b}")
    else:
        chk.require(verdict, "M1-must-append", "consume_macro_params:blank-argument", f.where,
                    f"an argument is blank (a WS token, dropped) exactly when its captured text is empty or white space; {why_b} "
                    f"(`f!(a,\\n)` must not pass a second argument made of the line break)")
    # the raw fetch is transparent: it returns the next token of the stream, whatever it is (a filter here removes tokens —
    # comments, blanks — from every raw capture)
    from ..pyflow import stmt_paths
    nr = ix.get("Tokenizer._next_raw")
    chk.count("M1-must-append")
    rets = [n for n in own_nodes(nr.node) if isinstance(n, ast.Return)]
    loops = [n for n in own_nodes(nr.node) if isinstance(n, (ast.While, ast.For))]
    conds = [n for n in own_nodes(nr.node) if isinstance(n, ast.If)]
    chk.require(len(rets) == 1 and norm_stmt(rets[0].value) == "next(self._tokengen)" and not loops and not conds, "M1-must-append",
                "Tokenizer._next_raw:transparent", nr.where,
                "the raw fetch must return `next(self._tokengen)` unconditionally; skipping tokens here drops their text from macro arguments")
    # with-macro: only structural tokens are skipped
    g = ix.get("Tokenizer.consume_with_macro_params")
    for n in own_nodes(g.node):
        if isinstance(n, ast.Continue):
            chk.count("M1-must-append")
            # innermost enclosing `if` chain conditions
            tests = [norm_stmt(i.test) for i in own_nodes(g.node) if isinstance(i, ast.If) and any(n is x for x in ast.walk(i))]
            structural = any(("Token.NEWLINE" in t or "Token.INDENT" in t or "Token.DEDENT" in t) for t in tests)
            chk.require(structural, "M1-must-append", f"consume_with_macro_params:continue@{tests[-1] if tests else '?'}", f"{g.rel}:{n.lineno}",
                        "a token is skipped by the block capture although it is not a NEWLINE/INDENT/DEDENT: its line may be lost")
    # every physical line of every captured token is kept once: whole lines, except that the one-line form starts at the
    # first token (finite-domain evaluation of the stored expression)
    import types
    from .. import constfold, physlines
    helper = physlines.rule_helper(chk, ix, "M1-must-append")
    chk.count("M1-must-append")
    stores = [n for n in own_nodes(g.node) if isinstance(n, ast.Assign) and isinstance(n.targets[0], ast.Subscript)
              and norm_stmt(n.targets[0].value) == "lines"]
    why = ""
    if helper is None:
        why = "no physical-lines helper"
    elif len(stores) == 2 and all(isinstance(x.value, ast.Name) or isinstance(x.value, ast.Subscript) for x in stores):
        # if/else form of the conditional expression: rebuild it
        parent = [i for i in own_nodes(g.node) if isinstance(i, ast.If) and len(i.body) == 1 and len(i.orelse) == 1
                  and {id(i.body[0]), id(i.orelse[0])} == {id(stores[0]), id(stores[1])}]
        if parent and norm_stmt(stores[0].targets[0]) == norm_stmt(stores[1].targets[0]):
            i = parent[0]
            merged = ast.Assign(targets=[i.body[0].targets[0]], value=ast.IfExp(test=i.test, body=i.body[0].value, orelse=i.orelse[0].value))
            ast.copy_location(merged, i)
            ast.fix_missing_locations(merged)
            merged._parent_if = i
            stores = [merged]
        else:
            why = "2 stores into the captured lines that are not the two arms of one if/else"
    elif len(stores) != 1:
        why = f"{len(stores)} stores into the captured lines"
    if not why and helper is not None and len(stores) == 1:
        st = stores[0]
        anchor = getattr(st, "_parent_if", st)
        loops = [(l, num, text) for l, num, text in physlines.consumer_loops(g.node, helper) if any(anchor is x for b in l.body for x in ast.walk(b))]
        if not loops:
            why = "the store is not inside a loop over the physical lines of the token"
        else:
            loop, num, text = loops[0]
            if norm_stmt(st.targets[0].slice) != num:
                why = f"stored under `{norm_stmt(st.targets[0].slice)}`, not under the line's own number"
            guard = [i for i in ast.walk(loop) if isinstance(i, ast.If) and i is not anchor and any(anchor is x for x in ast.walk(i))]
            if not why and not any(norm_stmt(i.test) == f"{num} not in lines" for i in guard):
                why = "a line already captured is overwritten (first token on a line wins)"
            if not why:
                calls = [c for c in ast.walk(g.node) if isinstance(c, ast.Call) and norm_stmt(c.func).endswith(helper.split(".")[-1]) and c.args]
                tokname = norm_stmt(calls[0].args[0]) if calls else "tok"
                for indented in (True, False):
                    for ln in (5, 6):
                        env = {text: "    abc def\n", num: ln, "is_indented": indented, tokname: types.SimpleNamespace(start=(5, 4), line="")}
                        try:
                            got = constfold.fold_expr(st.value, env, data_attrs=("start", "line"))
                        except Exception as e:
                            why = f"stored text not evaluable: {e}"
                            break
                        want = "    abc def\n" if (indented or ln > 5) else "abc def\n"
                        if got != want:
                            why = f"for is_indented={indented}, line {'after the first' if ln > 5 else 'of the token start'} it keeps {got!r}, expected {want!r}"
    chk.require(not why, "M1-must-append", "consume_with_macro_params:line-capture", g.where,
                f"each physical line of the block is captured once, whole (block form) or from the first token on (one-line form, first "
                f"line only): {why}")
    chk.count("M1-must-append")
    chk.require(any(norm_stmt(n) == "string = ''.join(lines.values())" for n in own_nodes(g.node) if isinstance(n, ast.Assign)),
                "M1-must-append", "consume_with_macro_params:join", g.where, "captured lines must be joined in order, unchanged")


def rule_m6(chk: Check, ir, rule_id: str = "M6-macro-callee"):
    """Sibling agreement: whatever can be called with `(` can be macro-called with `!(` — the callee of the call-macro start is the
    same grammar rule as the callee of an ordinary call in `primary`."""
    from ..ir import Lit, Ref
    call_callee = None
    prim = ir.rules.get("primary")
    if prim is None:
        raise AnalysisError("rule primary vanished")
    for a in prim.alts:
        its = [ni.item for ni in a.items]
        if len(its) >= 2 and isinstance(its[0], Ref) and isinstance(its[1], Lit) and its[1].value.strip("'\"") == "(":
            call_callee = its[0].name
    macro = None
    for name, r in ir.rules.items():
        for a in r.alts:
            its = [ni.item for ni in a.items]
            if len(its) >= 2 and isinstance(its[0], Ref) and isinstance(its[1], Lit) and its[1].value.strip("'\"") == "!(":
                macro = (name, its[0].name, a)
    chk.count(rule_id)
    if call_callee is None or macro is None:
        raise AnalysisError("M6: the call alternative of `primary` or the call-macro start was not found")
    chk.require(macro[1] == call_callee, rule_id, macro[0], str(macro[2].pos),
                f"an ordinary call applies to any `{call_callee}` but a macro call only to a `{macro[1]}`: `registry['k']!(...)`, "
                f"`get()!(...)` or `(f)!(...)` are refused although the same callee can be called")


def rule_m7(chk: Check, ir, rule_id: str = "M7-with-macro-head"):
    """Sibling agreement: whatever can head a `with` statement can head a `with!` — the item of the with-macro start is the same
    grammar rule as the item of the plain (unparenthesised) `with` alternative."""
    from ..ir import Cut, Gather, Lit, Ref
    plain = None
    macro = None
    for name, r in ir.rules.items():
        for a in r.alts:
            its = [ni.item for ni in a.items if not isinstance(ni.item, Cut)]
            if len(its) >= 3 and isinstance(its[0], Lit) and its[0].value.strip("'\"") == "with":
                if isinstance(its[1], Lit) and its[1].value.strip("'\"") == "!":
                    nxt = its[2]
                    macro = (name, nxt.name if isinstance(nxt, Ref) else str(nxt), a)
                elif isinstance(its[1], Gather) and isinstance(its[1].item, Ref):
                    plain = its[1].item.name
    chk.count(rule_id)
    if plain is None or macro is None:
        raise AnalysisError("M7: the plain `with` alternative or the with-macro start was not found")
    chk.require(macro[1] == plain, rule_id, macro[0], str(macro[2].pos),
                f"a plain `with` takes a `{plain}` but `with!` takes a `{macro[1]}`: headers such as `with! (ctx) as c:` or "
                f"`with! (a or b).lock:` that are fine without the `!` are refused with it")


def rule_m2(chk: Check, ix: Index):
    f = ix.get("Tokenizer.__init__")
    table = None
    for n in own_nodes(f.node):
        if isinstance(n, (ast.Assign, ast.AnnAssign)):
            tgt = n.targets[0] if isinstance(n, ast.Assign) else n.target
            if norm_stmt(tgt) == "self._end_parens" and isinstance(n.value, ast.Dict):
                table = {ast.literal_eval(k): ast.literal_eval(v) for k, v in zip(n.value.keys, n.value.values)}
    chk.count("M2-delimiter-tables")
    from .bufeval import arbitrate as _arb
    _arb(chk, table == {")": "(", "]": "[", "}": "{"}, "M2-delimiter-tables", "Tokenizer._end_parens", f.where,
         f"closing brackets must map to their own openers; found {table}")
    g = ix.get("Tokenizer.consume_macro_params")
    import types
    from .. import constfold
    pushes = [n for n in own_nodes(g.node) if isinstance(n, ast.If) and any(
        isinstance(c, ast.Call) and norm_stmt(c.func) == "paren_level.append" for s0 in n.body for c in ast.walk(s0))]
    chk.count("M2-delimiter-tables")
    ok = len(pushes) == 1
    if ok:
        kinds = sorted(repo.token_enum_names())
        Token = types.SimpleNamespace(**{k: ("Token", k) for k in kinds})
        for kind in ("OP", "STRING", "COMMENT", "FSTRING_MIDDLE", "NAME"):
            for s0 in ("(", "[", "{", "$(", "@(", "![", "${", "@$(", ")", "]", "}", "+", "a(", "x["):
                tok = types.SimpleNamespace(type=("Token", kind), string=s0)
                try:
                    got = bool(constfold.fold_expr(pushes[0].test, {"tok": tok, "Token": Token}, data_attrs=("type", "string") + tuple(kinds)))
                except Exception:
                    ok = False
                    break
                if got != (kind == "OP" and s0[-1] in "([{"):
                    ok = False
    from .bufeval import arbitrate as _arb2
    _arb2(chk, ok, "M2-delimiter-tables", "consume_macro_params:openers", g.where,
          "the opener test must recognise exactly ( [ { as the last character of an operator (the tokenizer's own bracket rule)")
    # raw tokenizer uses the same opener characters
    h = ix.get("next_psuedo_matches")
    raw = [n for n in own_nodes(h.node) if isinstance(n, ast.Compare) and norm_stmt(n.left) == "token[-1]"]
    chk.count("M2-delimiter-tables")
    chk.require(len(raw) == 1 and isinstance(raw[0].comparators[0], ast.Constant) and set(raw[0].comparators[0].value) == set("([{"),
                "M2-delimiter-tables", "next_psuedo_matches:openers", h.where, "tokenizer and macro scanner must agree on what opens a bracket")
    # mismatch is detected against the innermost opener
    chk.count("M2-delimiter-tables")
    ok = False
    from ..pyflow import stmt_paths as _sp
    for n in own_nodes(g.node):
        if isinstance(n, ast.If) and norm_stmt(n.test) in ("paren_level[-1] == opener", "paren_level[-1] != opener", "opener == paren_level[-1]",
                                                             "opener != paren_level[-1]"):
            # the `if` together with what follows it in its own block (the non-matching arm may be a guard clause)
            block = [n]
            for holder in ast.walk(g.node):
                for fld in ("body", "orelse"):
                    seq = getattr(holder, fld, None)
                    if isinstance(seq, list) and any(x is n for x in seq):
                        block = seq[[i for i, x in enumerate(seq) if x is n][0]:]
            try:
                ps = _sp(block)
            except AnalysisError:
                continue
            good = True
            for pth in ps:
                c = [x for x in pth if x[0] == "cond"][0]
                match = (c[2] is True) == ("==" in c[1])
                eff = [x[1] for x in pth if x[0] == "do"]
                if match:
                    good = good and eff == ["paren_level.pop()"] and pth[-1][1] == "end"
                else:
                    good = good and pth[-1][1] == "raise"
            ok = good
    from .bufeval import arbitrate
    arbitrate(chk, ok, "M2-delimiter-tables", "consume_macro_params:nesting", g.where,
              "a closing bracket must pop the innermost open bracket when (and only when) it matches it")


def rule_m4(chk: Check, ix: Index, I):
    # macro_call: arguments in order, each Constant(param.string) over the parameter's own span
    seen = {}

    def hook(cls, given, kwargs, fr, e):
        if cls == "Tuple" and fr.fn == "Parser.macro_call":
            seen["elts"] = given.get("elts")

    probe.call(I, "Parser.macro_call", [probe.node("Name", "F"), ListV(probe.tok("P", "MACRO_PARAM"), True)], {}, with_span=True, hook=hook)
    chk.count("M4-builders")
    elts = seen.get("elts")
    nodes = [m for lv in members(elts) if isinstance(lv, ListV) for m in members(lv.elem) if isinstance(m, Node)] if elts is not None else []
    ok = bool(nodes) and all(n.shape == "Constant(value=<P[*].string>)" or n.shape == "Constant(value=<P.string>)" for n in nodes)
    chk.require(ok, "M4-builders", "macro_call:positionals", repo.SUBHEADER,
                f"each call-macro argument must be passed as Constant(param.string); got {[n.shape for n in nodes]}")
    f = ix.get("Parser.macro_call")
    comps = [n for n in ast.walk(f.node) if isinstance(n, ast.ListComp)]
    chk.count("M4-builders")
    ok = len(comps) == 1 and norm_stmt(comps[0].generators[0].iter) == "b" and not comps[0].generators[0].ifs
    chk.require(ok, "M4-builders", "macro_call:order", f.where, "arguments must be taken from `b` in order, none filtered out")
    # shape of the whole call
    v = probe.call(I, "Parser.macro_call", [probe.node("Name", "F"), ListV(probe.tok("P", "MACRO_PARAM"), True)], {}, with_span=True)
    chk.count("M4-builders")
    sh = probe.shapes(v)
    ok = len(sh) == 1 and next(iter(sh)).startswith(f"Call(func={probe.xonsh_attr('call_macro')}, args=[")
    chk.require(ok, "M4-builders", "macro_call:shape", repo.SUBHEADER, f"f!(..) must become __xonsh__.call_macro(f, (args..), globals(), locals()); got {sorted(sh)}")
    call = [n for n in ast.walk(f.node) if isinstance(n, ast.Call) and norm_stmt(n.func) == "xonsh_call" and n.args and
            isinstance(n.args[0], ast.Constant) and n.args[0].value == "__xonsh__.call_macro"]
    chk.count("M4-builders")
    chk.require(len(call) == 1 and [norm_stmt(a) for a in call[0].args[1:]] == ["a", "positionals", "gbl_call", "loc_call"],
                "M4-builders", "macro_call:argument-order", f.where, "call_macro takes (function, raw arguments, globals(), locals()) in that order")
    # proc_macro_arg: join in order, strip
    g = ix.get("Parser.proc_macro_arg")
    from .. import constfold

    class FakeTok:
        def __init__(self, string):
            self.string = string

    chk.count("M4-builders")
    consts = [n for n in ast.walk(g.node) if isinstance(n, ast.Call) and norm_stmt(n.func) == "ast.Constant"]
    vals = [k.value for c in consts for k in c.keywords if k.arg == "value"]
    param = [a.arg for a in g.node.args.args if a.arg != "self"][0]
    why = ""
    if len(vals) != 1:
        why = f"{len(vals)} Constant values built"
    else:
        cases = [([FakeTok("echo"), FakeTok(" "), "(a  b)", FakeTok("\t"), FakeTok("x")], "echo (a  b)\tx"),
                 ([FakeTok("  "), FakeTok("a"), FakeTok("   "), FakeTok("b"), FakeTok(" \t")], "a   b"),
                 ([FakeTok("\t"), "q", FakeTok("\f")], "q")]
        for pieces, want in cases:
            try:
                got = constfold.eval_local_value(g.node, vals[0], {param: pieces}, data_attrs=("string",), extra={"TokenInfo": FakeTok})
            except constfold.PureEvalError as e:
                why = f"text not evaluable: {e}"
                break
            if got != want:
                why = f"pieces {[getattr(x, 'string', x) for x in pieces]} give {got!r}, expected {want!r}"
                break
    chk.require(not why, "M4-builders", "proc_macro_arg:join", g.where,
                f"the raw subprocess-macro text is the pieces joined in order, unchanged inside, stripped of surrounding white space: {why}")
    # with macro: body text is the captured token's string
    h = ix.get("Parser.handle_with_macro_stmt")
    chk.count("M4-builders")
    call = [n for n in ast.walk(h.node) if isinstance(n, ast.Call) and norm_stmt(n.func) == "xonsh_call" and n.args and
            isinstance(n.args[0], ast.Constant) and n.args[0].value == "__xonsh__.enter_macro"]
    defs1 = {}
    for n in own_nodes(h.node):
        if isinstance(n, ast.Assign) and len(n.targets) == 1 and isinstance(n.targets[0], ast.Name):
            defs1.setdefault(n.targets[0].id, []).append(n.value)

    def expand(e):
        seen = set()
        while isinstance(e, ast.Name) and len(defs1.get(e.id, [])) == 1 and e.id not in seen:
            seen.add(e.id)
            e = defs1[e.id][0]
        return norm_stmt(e)

    args = [expand(a) for a in call[0].args[1:]] if len(call) == 1 else []
    tokparam = [a.arg for a in h.node.args.args if a.arg != "self"][1] if len(h.node.args.args) > 2 else "b"
    ok = len(args) == 4 and args[1] == f"ast.Constant(value={tokparam}.string, **{tokparam}.loc())"
    chk.require(ok, "M4-builders", "handle_with_macro_stmt:body", h.where,
                f"the block text passed to enter_macro must be the captured token's string (second argument is `{args[1] if len(args) > 1 else None}`)")
    chk.count("M4-builders")
    ok = len(args) == 4 and args[0].endswith(".context_expr") and "globals" in args[2] and "locals" in args[3]
    chk.require(ok, "M4-builders", "handle_with_macro_stmt:argument-order", h.where,
                f"enter_macro takes (context, raw block, globals(), locals()); found {args}")
    # dedent only in the block form
    k = ix.get("Tokenizer.consume_with_macro_params")
    chk.count("M4-builders")
    ok = any(isinstance(n, ast.If) and norm_stmt(n.test) == "is_indented" and any("textwrap.dedent(string)" in norm_stmt(s) for s in n.body)
             for n in own_nodes(k.node))
    chk.require(ok, "M4-builders", "consume_with_macro_params:dedent", k.where, "the block form (only) must be dedented")


def run(chk: Check):
    chk.explanation = (
        "M1: in the call-macro scanner every path from fetching a token back to the loop head appends the token's text, the loop "
        "is left only at a top-level `,` or `)`, and the captured token spans first start .. last end; the block capture skips only "
        "NEWLINE/INDENT/DEDENT tokens and records whole lines. M2: closing brackets map to their own openers and the scanner and "
        "the tokenizer agree on what opens a bracket. M3: each macro flag has one setter, is committed by a cut and is switched off "
        "by the consumer on all paths. M4: the builders pass the raw text, in order, to call_macro / enter_macro / the subprocess "
        "call. M5: the block capture swallows a balanced INDENT/DEDENT pair. Fidelity over all argument texts is not decided.")
    chk.explanation += ' Also evaluated here: string tokens carry their full text and physical lines (C08 L1/L2), since macro text is assembled from token texts and lines.'
    chk.trusted = ["xpverif.pyflow CFG", "xpverif.absint shapes"]
    chk.assumptions = ["token text equals source text (C08)"]
    ix = Index()
    ir = repo.ir_x()
    tr = typed.run()
    rule_m1(chk, ix)
    rule_m2(chk, ix)
    rule_m6(chk, ir)
    rule_m7(chk, ir)
    from .bufeval import rule_buffer_evaluation
    rule_buffer_evaluation(chk, "capture", "M1-must-append")
    macros.rule_m3(chk, ix, ir)
    rule_m4(chk, ix, tr.interp)
    macros.rule_m5(chk, ix)
    # macro text is the concatenation of token texts: string tokens must carry their full source text (C08 L2)
    from .c08 import rule_l1, rule_l2
    rule_l1(chk, ix)
    rule_l2(chk, ix)
    # which characters are in-line blanks and what the continuation alternative consumes decide what text reaches a macro
    # (C09 K1); WS tokens may be consumed by the raw-capture rule only (C06 P3)
    from . import c06, c09
    from .. import constfold
    c09.rule_k1(chk, constfold.fold_tokenize(), False)
    c09.rule_k6(chk, constfold.fold_tokenize(), ix, False)
    c06.rule_p3(chk, ix, ir)
    from .c08 import rule_l3
    from .c03 import rule_t1
    rule_l3(chk, ix)   # every character the scanner passes over is in a token (raw captures are rebuilt from tokens)
    rule_t1(chk, ix)
    chk.floor("M1-must-append", 6)
    chk.floor("M2-delimiter-tables", 4)
    chk.floor("M3-flag-typestate", 12)
    chk.floor("M4-builders", 8)
    chk.floor("M5-indent-balance", 4)
