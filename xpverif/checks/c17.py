"""C17 — the parser generator implements PEG semantics (structural clauses only).

NOT decided: equivalence of generated parsers with a PEG interpreter over all grammars and token strings (that relates two
executions).  Decided: the clauses of that claim that are visible in the shape of the generator and of the runtime it emits
calls to — each is a necessary condition: breaking it changes what some grammar's parser accepts or returns.

  T1  handler exhaustiveness      every grammar node class the grammar-of-grammars parser can construct has a `visit_<Class>`
                                  in both call makers (a missing one falls into generic_visit, which returns None); no handler of
                                  a call maker is named after a class that does not exist.
  T4  call text per operator      the text a call maker returns for each operator names the runtime combinator of *that* operator
                                  (`&`→positive_lookahead, `!`→negative_lookahead, `s.e+`→gathered(element, separator), `e*`/`e+`→
                                  repeated, `&&`→expect_forced, literal→expect, `~`→("cut","True")), one-tuple wrapping exactly for
                                  the operators that may succeed with a falsy value (`[e]`, `e*`), and the helper rules made for
                                  gathers / repeats by the stock generator have the element and the separator in the right places.
  T3  emission order              path rules over visit_Alt / visit_Rule / print_action: condition, action, `self._reset(mark)`
                                  after every alternative, `cut = False` … `if cut: return None` exactly when the alternative has a
                                  cut, the diagnostic gate in front of alternatives with invalid_ rules, `and` between items,
                                  `mark = self._mark()` before the first alternative, loop rules collect into `children` and re-mark.
  T5  nullable table              NullableVisitor evaluated over its finite abstract domain (vectors of child results).
  T6  first graph                 Alt/Rhs.initial_names evaluated over (names, nullable) vectors; leader = member of every cycle.
  +   the runtime combinators' backtracking discipline (R-combinators), the memo wrappers (W2) and the generator facts GF1–GF14
      are evaluated here under their own rule ids: they are the other half of "what the emitted calls do".
"""
from __future__ import annotations

import ast
import itertools
from typing import Optional

from ..common import AnalysisError, Check, norm_stmt, read_src

GEN_FILES = ("tasks/generator.py", "pegen/python_generator.py", "pegen/parser_generator.py", "pegen/grammar.py")


def _parse(rel: str) -> ast.Module:
    try:
        return ast.parse(read_src(rel), filename=rel)
    except SyntaxError as e:
        raise AnalysisError(f"{rel} does not parse: {e}")


class Classes:
    """Classes of the generator modules with a by-name linearisation (depth-first, left to right, first occurrence wins — the
    hierarchies here are single chains plus one mixin, for which this equals the C3 order)."""

    def __init__(self):
        self.cls: dict[str, tuple[str, ast.ClassDef]] = {}
        for rel in GEN_FILES:
            for n in _parse(rel).body:
                if isinstance(n, ast.ClassDef):
                    self.cls[n.name] = (rel, n)   # later files do not redefine earlier names today; last wins like Python

    def mro(self, name: str) -> list[str]:
        out: list[str] = []

        def go(n):
            if n in out or n not in self.cls:
                return
            out.append(n)
            for b in self.cls[n][1].bases:
                if isinstance(b, ast.Name):
                    go(b.id)
                elif isinstance(b, ast.Attribute):
                    go(b.attr)
        go(name)
        return out

    @staticmethod
    def _members(node: ast.ClassDef) -> dict:
        """name -> FunctionDef for the methods of a class body, class-level aliases included (`visit_A = visit_B = _helper`)."""
        out = {n.name: n for n in node.body if isinstance(n, ast.FunctionDef)}
        for n in node.body:
            if isinstance(n, ast.Assign) and isinstance(n.value, ast.Name) and n.value.id in out:
                for t in n.targets:
                    if isinstance(t, ast.Name):
                        out[t.id] = out[n.value.id]
        return out

    def resolve(self, cls: str, meth: str) -> Optional[tuple[str, str, ast.FunctionDef]]:
        for c in self.mro(cls):
            rel, node = self.cls[c]
            m = self._members(node)
            if meth in m:
                return rel, c, m[meth]
        return None

    def methods(self, cls: str) -> dict[str, tuple[str, str, ast.FunctionDef]]:
        out: dict = {}
        for c in reversed(self.mro(cls)):
            rel, node = self.cls[c]
            for name, n in self._members(node).items():
                out[name] = (rel, c, n)
        return out


def node_classes() -> tuple[set[str], set[str]]:
    """(classes defined in pegen/grammar.py, those of them constructed by the shipped grammar-of-grammars parser)."""
    defined = {n.name for n in _parse("pegen/grammar.py").body if isinstance(n, ast.ClassDef)}
    built = set()
    for n in ast.walk(_parse("pegen/grammar_parser.py")):
        if isinstance(n, ast.Call) and isinstance(n.func, ast.Name) and n.func.id in defined:
            built.add(n.func.id)
    return defined, built


CALLMAKERS = ("XonshCallMakerVisitor", "PythonCallMakerVisitor")
GENERATORS = ("XonshParserGenerator", "PythonParserGenerator")
NOT_ITEMS = {"Grammar", "Rule", "Alt"}      # handled by the generator classes, never handed to a call maker


# ------------------------------------------------------------------------------------------------ T1
def rule_t1(chk: Check, C: Classes):
    R = "T1-handlers"
    defined, built = node_classes()
    if len(built) < 10:
        raise AnalysisError(f"only {len(built)} grammar node classes are constructed by pegen/grammar_parser.py")
    for cm in CALLMAKERS:
        if cm not in C.cls:
            raise AnalysisError(f"class {cm} vanished")
        for k in sorted(built - NOT_ITEMS):
            chk.count(R)
            r = C.resolve(cm, f"visit_{k}")
            chk.require(r is not None, R, f"{cm}.visit_{k}", f"{C.cls[cm][0]}:{C.cls[cm][1].lineno}",
                        f"`{k}` nodes are built by the grammar reader but {cm} has no visit_{k}: the node falls into generic_visit, "
                        f"which visits the children and returns None instead of a (name, call) pair")
        for m, (rel, owner, fn) in C.methods(cm).items():
            if m.startswith("visit_") and owner in CALLMAKERS:
                chk.count(R)
                chk.require(m[6:] in defined, R, f"{owner}.{m}:dead", f"{rel}:{fn.lineno}",
                            f"{owner}.{m} is named after no grammar node class, so the visitor never dispatches to it and the node kind it "
                            f"was written for is handled by some other method")
    for g in GENERATORS:
        for k in ("Rule", "Rhs", "Alt", "NamedItem"):
            chk.count(R)
            r = C.resolve(g, f"visit_{k}")
            chk.require(r is not None, R, f"{g}.visit_{k}", f"{C.cls[g][0]}:{C.cls[g][1].lineno}" if g in C.cls else "?",
                        f"{g} has no visit_{k}")
    chk.floor(R, 30)


# ------------------------------------------------------------------------------------------------ T4: call text
class Frag:
    """Text template: list of ("lit", text) | ("hole", provenance-set, source-text)."""

    def __init__(self, parts=None):
        self.parts: list[tuple] = parts or []

    def lits(self) -> str:
        return "".join(p[1] if p[0] == "lit" else "\x00" for p in self.parts)

    def holes(self) -> list[tuple]:
        return [p for p in self.parts if p[0] == "hole"]

    def __add__(self, o):
        return Frag(self.parts + o.parts)


class Templates:
    def __init__(self, C: Classes, cls: str):
        self.C, self.cls = C, cls

    def assigns(self, fn: ast.FunctionDef, name: str) -> list[ast.expr]:
        """Right-hand sides bound to the plain local `name` in `fn` (tuple targets give the matching element or the call)."""
        out = []
        for n in ast.walk(fn):
            if isinstance(n, ast.Assign):
                for t in n.targets:
                    if isinstance(t, ast.Name) and t.id == name:
                        out.append(n.value)
                    elif isinstance(t, ast.Tuple):
                        for i, e in enumerate(t.elts):
                            if isinstance(e, ast.Name) and e.id == name:
                                if isinstance(n.value, ast.Tuple) and len(n.value.elts) == len(t.elts):
                                    out.append(n.value.elts[i])
                                else:
                                    out.append(ast.Subscript(value=n.value, slice=ast.Constant(i), ctx=ast.Load()))
            elif isinstance(n, ast.AugAssign) and isinstance(n.target, ast.Name) and n.target.id == name:
                out.append(ast.BinOp(left=ast.Name(id=name + "\x01", ctx=ast.Load()), op=n.op, right=n.value))
            elif isinstance(n, ast.NamedExpr) and n.target.id == name:
                out.append(n.value)
            elif isinstance(n, (ast.For, ast.comprehension)) and isinstance(n.target, ast.Name) and n.target.id == name:
                out.append(ast.Subscript(value=n.iter, slice=ast.Constant("each"), ctx=ast.Load()))
        return out

    def prov(self, e: ast.AST, fn: ast.FunctionDef, depth: int = 0, seen=None) -> set[str]:
        """Which parts of the visited node flow into `e`: texts of the maximal attribute chains rooted at `node`."""
        seen = seen if seen is not None else set()
        out: set[str] = set()

        def chain(x):
            t = x
            while isinstance(t, ast.Attribute):
                t = t.value
            return isinstance(t, ast.Name) and t.id == "node"

        def go(x):
            if isinstance(x, (ast.Attribute, ast.Name)) and chain(x):
                out.add(norm_stmt(x))
                return
            if isinstance(x, ast.Name) and x.id in {a.arg for a in fn.args.args} - {"self", "node"}:
                out.add(f"<param {x.id}>")
                return
            if isinstance(x, ast.Name) and (fn.name, x.id) not in seen and depth < 6:
                seen.add((fn.name, x.id))
                for v in self.assigns(fn, x.id):
                    out.update(self.prov(v, fn, depth + 1, seen))
                return
            if isinstance(x, ast.Call) and isinstance(x.func, ast.Attribute) and isinstance(x.func.value, ast.Name) and \
                    x.func.value.id == "self" and depth < 6:
                r = self.C.resolve(self.cls, x.func.attr)
                # what the callee reads of its parameters, mapped back to the arguments
                if r is not None and x.func.attr not in ("visit",):
                    _, _, callee = r
                    params = [a.arg for a in callee.args.args][1:]
                    amap = dict(zip(params, x.args))
                    for k in x.keywords:
                        if k.arg:
                            amap[k.arg] = k.value
                    for a in amap.values():
                        go(a)
                    return
            for c in ast.iter_child_nodes(x):
                go(c)
        go(e)
        return out

    def frag(self, e: ast.expr, fn: ast.FunctionDef, depth: int = 0) -> Frag:
        if isinstance(e, ast.Constant) and isinstance(e.value, str):
            return Frag([("lit", e.value)])
        if isinstance(e, ast.JoinedStr):
            f = Frag()
            for v in e.values:
                if isinstance(v, ast.Constant):
                    f = f + Frag([("lit", str(v.value))])
                else:
                    f = f + self.frag(v.value, fn, depth + 1)
            return f
        if isinstance(e, ast.BinOp) and isinstance(e.op, ast.Add):
            return self.frag(e.left, fn, depth + 1) + self.frag(e.right, fn, depth + 1)
        if isinstance(e, ast.Name) and depth < 8:
            vs = self.assigns(fn, e.id)
            if len(vs) == 1 and isinstance(vs[0], (ast.Constant, ast.JoinedStr, ast.BinOp)):
                return self.frag(vs[0], fn, depth + 1)
            if len(vs) == 1 and isinstance(vs[0], ast.Call):
                return self.frag(vs[0], fn, depth + 1)
        if isinstance(e, ast.Call) and isinstance(e.func, ast.Attribute) and isinstance(e.func.value, ast.Name) and \
                e.func.value.id == "self" and depth < 8 and e.func.attr not in ("visit", "lookahead_call_helper", "_call_helper"):
            r = self.C.resolve(self.cls, e.func.attr)
            if r is not None:
                _, _, callee = r
                rets = [n.value for n in ast.walk(callee) if isinstance(n, ast.Return) and n.value is not None]
                if len(rets) == 1 and isinstance(rets[0], (ast.JoinedStr, ast.BinOp, ast.Constant)):
                    sub = Templates(self.C, self.cls).frag(rets[0], callee, depth + 1)
                    # holes of the callee are about *its* `node`: the caller passes its own node on (checked: first argument)
                    if e.args and norm_stmt(e.args[0]) == "node":
                        return sub
                    return Frag([(p[0], p[1]) if p[0] == "lit" else ("hole", {f"<via {e.func.attr}>"}, p[2]) for p in sub.parts])
        return Frag([("hole", self.prov(e, fn), norm_stmt(e))])

    def results(self, fn: ast.FunctionDef) -> list[tuple[Optional[ast.expr], ast.expr]]:
        """(name expr, call expr) pairs the method can return (through `self.cache[node] = …; return self.cache[node]`)."""
        out = []
        cached = [n.value for n in ast.walk(fn) if isinstance(n, ast.Assign) and len(n.targets) == 1
                  and norm_stmt(n.targets[0]) == "self.cache[node]"]
        for n in ast.walk(fn):
            if isinstance(n, ast.Return) and n.value is not None:
                v = n.value
                if norm_stmt(v) == "self.cache[node]":
                    continue
                out.append(v)
        out += cached
        pairs = []
        for v in out:
            if isinstance(v, ast.Tuple) and len(v.elts) == 2:
                pairs.append((v.elts[0], v.elts[1]))
            else:
                pairs.append((None, v))
        return pairs


def _artificial_rule_facts(chk: Check, C: Classes):
    """Stock generator: the helper rules standing for `s.e+`, `e*`, `e+`."""
    R = "T4-call-text"
    r = C.resolve("ParserGenerator", "artifical_rule_from_gather")
    chk.count(R)
    if r is None:
        raise AnalysisError("ParserGenerator.artifical_rule_from_gather vanished")
    rel, _, fn = r
    alts = [n for n in ast.walk(fn) if isinstance(n, ast.Call) and isinstance(n.func, ast.Name) and n.func.id == "Alt"]
    shapes = []
    for a in alts:
        items = a.args[0] if a.args else None
        if not isinstance(items, ast.List):
            continue
        its = []
        for it in items.elts:
            if isinstance(it, ast.Call) and norm_stmt(it.func) == "NamedItem" and len(it.args) >= 2:
                its.append((norm_stmt(it.args[0]), norm_stmt(it.args[1]).split("(")[0]))
        act = next((norm_stmt(k.value) for k in a.keywords if k.arg == "action"), None)
        shapes.append((tuple(its), act))
    loop = ((("None", "node.separator"), ("'elem'", "node.node")), "'elem'")
    first = [s for s in shapes if len(s[0]) == 2 and s[0][0] == ("'elem'", "node.node") and s[0][1][1] == "NameLeaf" and s[1] is None]
    chk.require(loop in shapes and len(first) == 1 and len(shapes) == 2, R, "ParserGenerator.artifical_rule_from_gather", f"{rel}:{fn.lineno}",
                f"a gather `s.e+` must become `elem=e seq=<loop>` with the loop rule `s elem=e {{ elem }}` (separator first, the element "
                f"is the value); found {shapes}")
    r = C.resolve("ParserGenerator", "artificial_rule_from_repeat")
    chk.count(R)
    if r is None:
        raise AnalysisError("ParserGenerator.artificial_rule_from_repeat vanished")
    rel, _, fn = r
    pre = {}
    for n in ast.walk(fn):
        if isinstance(n, ast.If) and norm_stmt(n.test) in ("is_repeat1", "not is_repeat1"):
            pos = norm_stmt(n.test) == "is_repeat1"
            for br, truth in ((n.body, pos), (n.orelse, not pos)):
                for s in br:
                    if isinstance(s, ast.Assign) and isinstance(s.value, ast.Constant):
                        pre[truth] = s.value.value
        if isinstance(n, ast.IfExp) and norm_stmt(n.test) in ("is_repeat1", "not is_repeat1"):
            pos = norm_stmt(n.test) == "is_repeat1"
            if isinstance(n.body, ast.Constant) and isinstance(n.orelse, ast.Constant):
                pre[pos], pre[not pos] = n.body.value, n.orelse.value
    ok = bool(pre) and str(pre.get(True, "")).startswith("_loop") and str(pre.get(False, "")).startswith("_loop") and pre[True] != pre[False]
    if not pre:
        chk.undecided(R, "ParserGenerator.artificial_rule_from_repeat", f"{rel}:{fn.lineno}", "prefix selection not of a known form")
    else:
        chk.require(ok, R, "ParserGenerator.artificial_rule_from_repeat", f"{rel}:{fn.lineno}",
                    f"loop helper rules must be named `_loop…` (Rule.is_loop keys the `while`/`children` form on that prefix) and the two "
                    f"repetition kinds must get different prefixes; found {pre}")
    # group helpers get a fixed prefix of their own: Rule.is_loop / is_gather go by the *name*, so a helper whose name is made of
    # data (the enclosing rule's name, say) and happens to start with `_loop` / `_gather` is emitted as a loop / gather body
    for gcls in ("XonshParserGenerator", "ParserGenerator"):
        rr = C.resolve(gcls, "artifical_rule_from_rhs")
        if rr is None:
            continue
        rel_, _, fn_ = rr
        chk.count(R)
        T_ = Templates(C, gcls)
        names = T_.assigns(fn_, "name")
        heads = []
        for v in names:
            if isinstance(v, ast.Call) and isinstance(v.func, ast.Attribute) and isinstance(v.func.value, ast.Name) and v.func.value.id == "self":
                # a naming helper: its argument is the prefix (`self.new_rule_name("_tmp_")`)
                heads.append(norm_stmt(v.args[0]).strip("'\"") if v.args and isinstance(v.args[0], ast.Constant) else "\x00")
            else:
                fr = T_.frag(v, fn_)
                heads.append(fr.parts[0][1] if fr.parts and fr.parts[0][0] == "lit" else "\x00")
        ok_ = bool(heads) and all(h.startswith("_tmp_") for h in heads)
        chk.require(ok_, R, f"{gcls}.artifical_rule_from_rhs:name-prefix", f"{rel_}:{fn_.lineno}",
                    f"helper rules for groups must be named with the fixed prefix `_tmp_` (found name templates starting with {heads}): "
                    f"a name built from data can start with `_loop` / `_gather`, which Rule.is_loop / is_gather take for a repetition helper")
    r = C.resolve("Rule", "is_loop")
    g = C.resolve("Rule", "is_gather")
    chk.count(R)
    ok = r is not None and g is not None and "startswith('_loop')" in norm_stmt(r[2]) and "startswith('_gather')" in norm_stmt(g[2])
    chk.require(ok, R, "Rule.is_loop/is_gather", "pegen/grammar.py", "helper rules are recognised by their name prefix `_loop` / `_gather`")


def rule_t4(chk: Check, C: Classes):
    R = "T4-call-text"
    COMB = {"PositiveLookahead": "self.positive_lookahead(", "NegativeLookahead": "self.negative_lookahead("}
    for cm in CALLMAKERS:
        T = Templates(C, cm)

        def get(k):
            r = C.resolve(cm, f"visit_{k}")
            if r is None:
                return None
            return r

        # look-aheads
        for k, prefix in COMB.items():
            r = get(k)
            if r is None:
                continue
            rel, owner, fn = r
            chk.count(R)
            key = f"{cm}.visit_{k}"
            bad, und = [], False
            for _, call in T.results(fn):
                f = T.frag(call, fn)
                txt = f.lits()
                if not txt.startswith("\x00") and not txt.startswith("self."):
                    und = True
                    continue
                if txt.startswith("\x00"):
                    und = True
                    continue
                if not (txt.startswith(prefix) and txt.rstrip().endswith(")")):
                    bad.append(txt.replace("\x00", "{…}"))
            if bad:
                chk.fail(R, key, f"{rel}:{fn.lineno}", f"the call text for `{'&' if k[0] == 'P' else '!'}e` must be `{prefix}…)`: found {bad} — the "
                         f"generated parser would apply the other look-ahead (or none) at every such item")
            elif und:
                chk.undecided(R, key, f"{rel}:{fn.lineno}", "call text not resolvable to a template")
            else:
                chk.ok(R, key, f"{rel}:{fn.lineno}")
        # cut
        r = get("Cut")
        if r is not None:
            rel, owner, fn = r
            chk.count(R)
            res = [(norm_stmt(a) if a is not None else None, norm_stmt(b)) for a, b in T.results(fn)]
            chk.require(res == [("'cut'", "'True'")], R, f"{cm}.visit_Cut", f"{rel}:{fn.lineno}",
                        f"`~` must become the pair ('cut', 'True') — the variable named `cut` is what `if cut: return None` reads; found {res}")
        # literal
        r = get("StringLeaf")
        if r is not None:
            rel, owner, fn = r
            chk.count(R)
            res = T.results(fn)
            ok = len(res) == 1
            if ok:
                f = T.frag(res[0][1], fn)
                ok = f.lits() == "self.expect(\x00)" and all("node.value" in h[1] for h in f.holes())
            chk.require(ok, R, f"{cm}.visit_StringLeaf", f"{rel}:{fn.lineno}",
                        "a quoted literal must become `self.expect(<the literal as written>)`")
        # forced
        r = get("Forced")
        if r is not None:
            rel, owner, fn = r
            chk.count(R)
            bad = []
            for _, call in T.results(fn):
                txt = T.frag(call, fn).lits()
                if not txt.startswith("self.expect_forced("):
                    bad.append(txt.replace("\x00", "{…}"))
            chk.require(not bad, R, f"{cm}.visit_Forced", f"{rel}:{fn.lineno}",
                        f"`&&e` must become `self.expect_forced(<call of e>, <description>)` (fail hard, not backtrack); found {bad}")
        # group
        r = get("Group")
        if r is not None:
            rel, owner, fn = r
            chk.count(R)
            rets = [norm_stmt(n.value) for n in ast.walk(fn) if isinstance(n, ast.Return) and n.value is not None]
            chk.require(rets == ["self.visit(node.rhs)"], R, f"{cm}.visit_Group", f"{rel}:{fn.lineno}",
                        f"a parenthesised group is its right-hand side; found {rets}")
        # optional: always a one-tuple
        r = get("Opt")
        if r is not None:
            rel, owner, fn = r
            chk.count(R)
            bad = []
            for nm, call in T.results(fn):
                # under which condition is this result returned
                f = T.frag(call, fn)
                txt = f.lits()
                guarded = _returned_under(fn, call)
                if not (txt.endswith(",") or ("call.endswith(',')", True) in guarded or ("not call.endswith(',')", False) in guarded):
                    bad.append(norm_stmt(call))
            chk.require(not bad, R, f"{cm}.visit_Opt", f"{rel}:{fn.lineno}",
                        f"`[e]` must be wrapped as a one-tuple (`<call>,`), which is truthy when `e` fails; {bad} is returned bare")
        # repetitions
        for k, comma in (("Repeat0", True), ("Repeat1", False)):
            r = get(k)
            if r is None:
                continue
            rel, owner, fn = r
            chk.count(R)
            bad = []
            for _, call in T.results(fn):
                f = T.frag(call, fn)
                txt = f.lits()
                if txt.rstrip().endswith(",") != comma:
                    bad.append(("comma", txt.replace("\x00", "{…}")))
                if cm == "XonshCallMakerVisitor" and not txt.startswith("self.repeated("):
                    bad.append(("combinator", txt.replace("\x00", "{…}")))
                if cm == "PythonCallMakerVisitor":
                    # the helper rule must be requested with the matching repetition kind
                    kinds = [norm_stmt(c.args[1]) for c in ast.walk(fn) if isinstance(c, ast.Call) and isinstance(c.func, ast.Attribute)
                             and c.func.attr == "artificial_rule_from_repeat" and len(c.args) == 2]
                    if kinds != [str(not comma)]:
                        bad.append(("kind", kinds))
            chk.require(not bad, R, f"{cm}.visit_{k}", f"{rel}:{fn.lineno}",
                        f"`e{'*' if comma else '+'}` must become a repetition call {'with' if comma else 'without'} the one-tuple comma "
                        f"(zero matches {'succeed' if comma else 'fail'}): {bad}")
        # gather
        r = get("Gather")
        if r is not None:
            rel, owner, fn = r
            chk.count(R)
            if cm == "XonshCallMakerVisitor":
                bad = []
                for _, call in T.results(fn):
                    f = T.frag(call, fn)
                    txt = f.lits()
                    hs = f.holes()
                    if not (txt.startswith("self.gathered(") and txt.endswith(")")):
                        bad.append(("text", txt.replace("\x00", "{…}")))
                        continue
                    kinds = []
                    for h in hs:
                        p = h[1]
                        if any("separator" in x for x in p):
                            kinds.append("sep")
                        elif p:
                            kinds.append("elem")
                        else:
                            kinds.append("?")
                    if kinds != sorted(kinds, key=lambda x: {"elem": 0, "?": 1, "sep": 2}[x]) or "sep" not in kinds or "elem" not in kinds:
                        bad.append(("order", kinds, [h[2] for h in hs]))
                chk.require(not bad, R, f"{cm}.visit_Gather", f"{rel}:{fn.lineno}",
                            f"`s.e+` must become `self.gathered(<element>, <separator>)` — element first, as Parser.gathered(func, sep, …) "
                            f"reads them: {bad}")
            else:
                calls = [c for c in ast.walk(fn) if isinstance(c, ast.Call) and isinstance(c.func, ast.Attribute)
                         and c.func.attr == "artifical_rule_from_gather"]
                chk.require(len(calls) == 1 and [norm_stmt(a) for a in calls[0].args] == ["node"], R, f"{cm}.visit_Gather",
                            f"{rel}:{fn.lineno}", "the stock call maker must delegate a gather to artifical_rule_from_gather(node)")
    # who may emit a literal match: `self.expect(...)` text is produced by the leaf handlers only — anything else that assembles it
    # bypasses the bookkeeping done there (a word used only as look-ahead operand / separator would never reach the KEYWORDS table,
    # and NAME would then accept it)
    OWNERS = {"visit_StringLeaf", "visit_Forced", "visit_NameLeaf"}
    for cm in CALLMAKERS:
        for m, (rel, owner, fn) in sorted(C.methods(cm).items()):
            if owner not in CALLMAKERS:
                continue
            chk.count(R)
            hits = [n for n in ast.walk(fn) if isinstance(n, ast.Constant) and isinstance(n.value, str) and "self.expect" in n.value
                    and "self.expect_forced" not in n.value.replace("self.expect_forced(self.expect(", "")]
            if m in OWNERS:
                chk.ok(R, f"{owner}.{m}:literal-owner", f"{rel}:{fn.lineno}")
            else:
                chk.require(not hits, R, f"{owner}.{m}:literal-owner", f"{rel}:{fn.lineno}",
                            f"`{owner}.{m}` assembles a `self.expect` call itself instead of going through the leaf handler: the literal is "
                            f"then never registered as a keyword / soft keyword, so the generated NAME matcher accepts the word")
    _artificial_rule_facts(chk, C)
    # the runtime side of the gather call: Parser.gathered(func, sep, *sep_args) — element is the first parameter
    sub = _parse("peg_parser/subheader.py")
    g = next((n for n in ast.walk(sub) if isinstance(n, ast.FunctionDef) and n.name == "gathered"), None)
    chk.count(R)
    if g is None:
        chk.undecided(R, "Parser.gathered:signature", "peg_parser/subheader.py", "`gathered` not found by name")
    else:
        params = [a.arg for a in g.args.args]
        body = norm_stmt(g)
        ok = len(params) >= 3 and g.args.vararg is not None and f"self.seq_alts({params[1]})" in body
        chk.require(ok, R, "Parser.gathered:signature", f"peg_parser/subheader.py:{g.lineno}",
                    "the first parameter of `gathered` is the element (matched first, through seq_alts), the rest is the separator call")
    chk.floor(R, 14)


def _returned_under(fn: ast.FunctionDef, expr: ast.expr) -> set[tuple[str, bool]]:
    """Conditions (text, truth) of the `if`s enclosing the return/assignment that holds `expr`."""
    out: set = set()

    def go(stmts, conds):
        for s in stmts:
            if any(x is expr for x in ast.walk(s)) and not isinstance(s, (ast.If,)):
                out.update(conds)
            if isinstance(s, ast.If):
                go(s.body, conds | {(norm_stmt(s.test), True)})
                go(s.orelse, conds | {(norm_stmt(s.test), False)})
            elif isinstance(s, (ast.For, ast.While, ast.With, ast.Try)):
                go(getattr(s, "body", []), conds)
    go(fn.body, frozenset())
    return out


# ------------------------------------------------------------------------------------------------ T3: emission order
class Emit:
    """Paths of an emitting method as sequences of events:
        ("print", template-text) | ("call", method, args-text) | ("cond", text, truth)
    `with` blocks are transparent, `for` loops are taken 0, 1 and 2 times (the bodies here emit the same thing per item)."""

    def __init__(self, C: Classes, cls: str, limit: int = 60000, unroll: tuple = (0, 1, 2)):
        self.C, self.cls, self.limit, self.unroll = C, cls, limit, unroll

    @staticmethod
    def tmpl(e: ast.expr) -> str:
        if isinstance(e, ast.Constant):
            return str(e.value)
        if isinstance(e, ast.JoinedStr):
            return "".join(str(v.value) if isinstance(v, ast.Constant) else "{" + norm_stmt(v.value) + "}" for v in e.values)
        return "{" + norm_stmt(e) + "}"

    def paths(self, fn: ast.FunctionDef, inline: tuple = ()) -> list[list[tuple]]:
        out: list[list[tuple]] = []

        def consistent(acc, c):
            for x in acc:
                if x[0] == "cond" and x[1] == c[1] and x[2] != c[2]:
                    return False
            return True

        def cases(test, truth):
            """The ways `test` can come out as `truth`: lists of atomic ("cond", text, truth) facts in short-circuit order."""
            while isinstance(test, ast.UnaryOp) and isinstance(test.op, ast.Not):
                test, truth = test.operand, not truth
            if isinstance(test, ast.BoolOp):
                if isinstance(test.op, ast.And) == truth:
                    res = [[]]
                    for v in test.values:
                        res = [a + b for a in res for b in cases(v, truth)]
                    return res
                res, prefix = [], [[]]
                for v in test.values:
                    res += [a + b for a in prefix for b in cases(v, truth)]
                    prefix = [a + b for a in prefix for b in cases(v, not truth)]
                return res
            txt = norm_stmt(test.value) if isinstance(test, ast.NamedExpr) else norm_stmt(test)
            return [[("cond", txt, truth)]]

        def events_of_expr(e):
            ev = []
            for c in ast.walk(e):
                if isinstance(c, ast.Call) and isinstance(c.func, ast.Attribute) and isinstance(c.func.value, ast.Name) and c.func.value.id == "self":
                    m = c.func.attr
                    if m == "print":
                        ev.append((c.lineno, c.col_offset, ("print", self.tmpl(c.args[0]) if c.args else "")))
                    elif m in ("visit", "add_return", "print_action") or m in inline:
                        ev.append((c.lineno, c.col_offset, ("call", m, ", ".join(self.tmpl(a) if m == "add_return" else norm_stmt(a) for a in c.args))))
                    else:
                        r = self.C.resolve(self.cls, m)
                        if r is not None:
                            src_m = norm_stmt(r[2])
                            # a helper that collects the names used by the action keeps `cut` when it contains the statement itself
                            if "used.add('cut')" in src_m or "used |= {'cut'}" in src_m:
                                ev.append((c.lineno, c.col_offset, ("keep", "cut")))
                            if "self.cleanup_statements.append(" in src_m:
                                ev.append((c.lineno, c.col_offset, ("stack", "push-in-helper", m)))
            return [x[2] for x in sorted(ev)]

        def run(seq, acc):
            if len(out) > self.limit:
                raise AnalysisError("too many paths in an emitting method")
            for i, st in enumerate(seq):
                rest = seq[i + 1:]
                if isinstance(st, (ast.Expr, ast.Assign)):
                    # `E[a if flag else b]` with a plain local as the test is `if flag: E[a]` / `else: E[b]`
                    ife = next((n for n in ast.walk(st) if isinstance(n, ast.IfExp) and isinstance(
                        n.test.operand if isinstance(n.test, ast.UnaryOp) and isinstance(n.test.op, ast.Not) else n.test, ast.Name)), None)
                    if ife is not None:
                        import copy as _copy

                        class Pick(ast.NodeTransformer):
                            def __init__(self, arm):
                                self.arm = arm

                            def visit_IfExp(self, node):
                                if ast.dump(node) == ast.dump(ife):
                                    return _copy.deepcopy(node.body if self.arm else node.orelse)
                                return self.generic_visit(node)
                        a = Pick(True).visit(_copy.deepcopy(st))
                        b = Pick(False).visit(_copy.deepcopy(st))
                        new_if = ast.If(test=_copy.deepcopy(ife.test), body=[a], orelse=[b])
                        ast.copy_location(new_if, st)
                        ast.fix_missing_locations(new_if)
                        run([new_if] + rest, acc)
                        return
                if isinstance(st, ast.If):
                    pre = events_of_expr(st.test)
                    for br, tr in ((st.body, True), (st.orelse, False)):
                        for facts in cases(st.test, tr):
                            a2, ok = acc + pre, True
                            for c in facts:
                                if not consistent(a2, c):
                                    ok = False
                                    break
                                a2 = a2 + [c]
                            if ok:
                                run(br + rest, a2)
                    return
                if isinstance(st, ast.With):
                    run(st.body + rest, acc)
                    return
                if isinstance(st, ast.For):
                    for k in self.unroll:
                        body = []
                        for _ in range(k):
                            body += st.body
                        run(body + rest, acc + [("loop", norm_stmt(st.iter), k)])
                    return
                if isinstance(st, ast.While):
                    raise AnalysisError("while loop in an emitting method")
                if isinstance(st, ast.Return):
                    out.append(acc + (events_of_expr(st.value) if st.value is not None else []) + [("exit", "return")])
                    return
                if isinstance(st, ast.Assign) and len(st.targets) == 1 and isinstance(st.targets[0], ast.Name) and \
                        isinstance(st.value, ast.Constant) and isinstance(st.value.value, bool):
                    # a boolean flag local (`first = True` … `first = False`): remembered as a fact for the tests that read it
                    acc = [x for x in acc if not (x[0] == "cond" and x[1] == st.targets[0].id)] + [("cond", st.targets[0].id, st.value.value)]
                    continue
                txt = norm_stmt(st)
                if txt.startswith("self.cleanup_statements.append("):
                    acc = [x for x in acc if not (x[0] == "cond" and x[1] == "self.cleanup_statements")] + \
                        [("stack", "push"), ("cond", "self.cleanup_statements", True)]
                    continue
                if txt in ("used.add('cut')", "used |= {'cut'}", "used.update({'cut'})", "used.update(['cut'])") or \
                        (txt.startswith("used = ") and "'cut'" in txt):
                    acc = acc + [("keep", "cut")]
                    continue
                if txt == "self.cleanup_statements.pop()":
                    acc = [x for x in acc if not (x[0] == "cond" and x[1] == "self.cleanup_statements")] + [("stack", "pop")]
                    continue
                evs = events_of_expr(st)
                if any(e[0] == "stack" and e[1] == "push-in-helper" for e in evs) and isinstance(st, ast.Assign) and len(st.targets) == 1 \
                        and isinstance(st.targets[0], ast.Name):
                    evs = [("stack", "push-if", st.targets[0].id) if (e[0] == "stack" and e[1] == "push-in-helper") else e for e in evs]
                acc = acc + evs
            out.append(acc + [("exit", "end")])

        run(list(fn.body), [])
        return out


def _seq(path, kinds=("print", "call")):
    return [x for x in path if x[0] in kinds]


def rule_t3(chk: Check, C: Classes):
    R = "T3-emission-order"
    for g in GENERATORS:
        if g not in C.cls:
            raise AnalysisError(f"class {g} vanished")
        E = Emit(C, g, unroll=(0, 1, 2, 3) if getattr(chk, "tier", "quick") == "thorough" else (0, 1, 2))
        # ---------------------------------------------------------------- visit_Alt
        r = C.resolve(g, "visit_Alt")
        if r is None:
            continue
        rel, owner, fn = r
        key = f"{g}.visit_Alt"
        where = f"{rel}:{fn.lineno}"
        ps = E.paths(fn)
        chk.count(R, len(ps))
        if len(ps) < 8:
            raise AnalysisError(f"{key}: only {len(ps)} paths")
        problems: dict[str, str] = {}

        def flag(p, name):
            for x in p:
                if x[0] == "cond" and x[1] == name:
                    return x[2]
            return None

        for p in ps:
            s = _seq(p)
            texts = [x[1] if x[0] == "print" else f"<{x[1]}>" for x in s]
            has_cut, is_loop, has_inv, is_gather = flag(p, "has_cut"), flag(p, "is_loop"), flag(p, "has_invalid"), flag(p, "is_gather")
            nitems = next((x[2] for x in p if x[0] == "loop" and "items" in x[1]), None)
            openers = [t for t in texts if t in ("if (", "while (")]
            if len(openers) != 1:
                problems["opener"] = f"an alternative must open exactly one condition (`if (` / `while (`): {texts}"
                continue
            if is_loop is not None and (openers[0] == "while (") != is_loop:
                problems["opener-kind"] = "loop helper rules must test their alternative with `while (`, all others with `if (`"
            o = texts.index(openers[0])
            if "):" not in texts[o:]:
                problems["closer"] = "the condition is never closed with `):`"
                continue
            c = o + texts[o:].index("):")
            cond = texts[o + 1:c]
            after = texts[c + 1:]
            visits = [i for i, t in enumerate(cond) if t == "<visit>"]
            if nitems is not None and len(visits) != nitems:
                problems["items"] = "every item of the alternative must be visited inside the condition, once"
            # conjunction
            units = [t for t in cond if t in ("<visit>", "self.call_invalid_rules", "and")]
            want_units = []
            first = True
            for u in [t for t in units if t != "and"]:
                if not first:
                    want_units.append("and")
                want_units.append(u)
                first = False
            if units != want_units:
                problems["and"] = f"the conjuncts of an alternative must be joined by exactly one `and`: {cond}"
            # the cut item must get its variable: the names kept for the action include `cut` whenever the alternative has one
            # (an item whose name is not kept is emitted as `(True)`, and `if cut:` then never fires)
            filters = any(x[0] == "cond" and x[1] == "action" and x[2] is True for x in p) and not any(
                x[0] == "cond" and ((x[1] == "used is not None" and x[2] is False) or (x[1] == "used is None" and x[2] is True)) for x in p)
            if has_cut is True and filters and nitems:
                first_visit = next(i for i, x in enumerate(p) if x[0] == "call" and x[1] == "visit")
                if not any(x == ("keep", "cut") for x in p[:first_visit]):
                    problems["cut-bound"] = ("when the names used by the action are collected, `cut` must be added to them for an alternative "
                                             "with `~`: otherwise the item is emitted as `(True)` instead of `(cut := True)` and the early exit "
                                             "`if cut: return None` is dead")
            if has_inv is True and (not cond or cond[0] != "self.call_invalid_rules"):
                problems["invalid-gate"] = "an alternative that mentions an invalid_ rule must test `self.call_invalid_rules` first"
            if has_inv is False and "self.call_invalid_rules" in cond:
                problems["invalid-gate-extra"] = "only alternatives that mention an invalid_ rule are gated by `self.call_invalid_rules`"
            if is_gather is True and nitems and cond.count("is not None") != nitems:
                problems["gather-none"] = "in a gather helper every item is tested with `is not None` (an element may be falsy)"
            if is_gather is False and "is not None" in cond:
                problems["gather-none-extra"] = "`is not None` belongs to gather helpers only"
            # after the condition: action, reset, cut exit
            if not after or after[0] != "<print_action>":
                problems["action"] = f"the body of the condition must be the action: {after[:2]}"
                continue
            tail = after[1:]
            if not tail or tail[0] != "self._reset(mark)":
                problems["reset"] = ("after a failed alternative the position must be restored with `self._reset(mark)` before anything "
                                     f"else is tried: {tail[:2]}")
                continue
            tail = tail[1:]
            pre = texts[:o]
            if has_cut is True:
                if "cut = False" not in pre:
                    problems["cut-init"] = "an alternative with `~` must start with `cut = False`"
                if tail[:2] != ["if cut:", "<add_return>"] or not any(x == ("call", "add_return", "None") for x in s[-2:]):
                    problems["cut-exit"] = ("an alternative with `~` must end with `if cut:` `return None` after the reset, so that no later "
                                            f"alternative is tried once the cut was passed: {tail}")
            elif has_cut is False:
                if "cut = False" in pre or "if cut:" in tail:
                    problems["cut-extra"] = "only alternatives with `~` carry the cut flag and its exit"
            else:
                problems["cut-flag"] = "the cut handling is not keyed on a `has_cut` test"
        for k, msg in sorted(problems.items()):
            chk.fail(R, f"{key}:{k}", where, msg)
        if not problems:
            chk.ok(R, key, where, f"{len(ps)} paths")
        # has_cut must mean "some item is a Cut"
        chk.count(R)
        hc = [norm_stmt(v) for v in Templates(C, g).assigns(fn, "has_cut")]
        chk.require(hc == ["any((isinstance(item.item, Cut) for item in node.items))"], R, f"{key}:has_cut", where,
                    f"`has_cut` must be true exactly when some item of the alternative is a Cut: {hc}")
        # ---------------------------------------------------------------- print_action
        r = C.resolve(g, "print_action")
        if r is not None:
            rel, owner, fn = r
            key = f"{g}.print_action"
            where = f"{rel}:{fn.lineno}"
            ps = E.paths(fn)
            chk.count(R, len(ps))
            bad = {}
            for p in ps:
                s = _seq(p)
                texts = [x[1] if x[0] == "print" else f"<{x[1]}:{x[2]}>" for x in s]
                texts = [t for t in texts if not t.startswith(("tok = ", "end_lineno"))]
                is_loop = flag(p, "is_loop")
                if is_loop is True and texts != ["children.append({action})", "mark = self._mark()"]:
                    bad["loop"] = f"a loop helper must append the item's value to `children` and then move the mark: {texts}"
                if is_loop is False and texts != ["<add_return:{action}>"]:
                    bad["return"] = f"a matched alternative must return its action through add_return: {texts}"
                if is_loop is None:
                    bad["flag"] = "not keyed on is_loop"
            # default actions
            dflt = {}
            # the synthesised action is assigned in print_action itself or returned by a method it calls for it
            holders = [fn]
            for c in ast.walk(fn):
                if isinstance(c, ast.Call) and isinstance(c.func, ast.Attribute) and isinstance(c.func.value, ast.Name) and c.func.value.id == "self":
                    rr = C.resolve(g, c.func.attr)
                    if rr is not None and c.func.attr not in ("print", "add_return", "visit") and rr[2] not in holders:
                        holders.append(rr[2])
            for h in holders:
                for n in ast.walk(h):
                    v = None
                    if isinstance(n, ast.Assign) and norm_stmt(n.targets[0]) == "action" and isinstance(n.value, ast.JoinedStr):
                        v = n.value
                    elif isinstance(n, ast.Return) and isinstance(n.value, ast.JoinedStr) and h is not fn:
                        v = n.value
                    if v is not None:
                        conds = set(_returned_under(h, v))
                        # guard clauses before it: `if c: return ...` earlier in the same block means `not c` here
                        dflt.setdefault(Emit.tmpl(v), set()).update(conds)
            want = {"[{self.local_variable_names[0]}] + {self.local_variable_names[1]}": ("is_gather", True),
                    "{self.local_variable_names[0]}": ("len(self.local_variable_names) == 1", True),
                    "[{', '.join(self.local_variable_names)}]": None}
            for t, cond in want.items():
                if t not in dflt:
                    bad["default:" + t] = f"the default action `{t}` is missing or changed: {sorted(dflt)}"
                elif cond is not None and cond not in dflt[t]:
                    bad["default-when:" + t] = f"the default action `{t}` must be chosen under `{cond[0]}`: {sorted(dflt[t])}"
            for t in dflt:
                if t not in want:
                    bad["default-extra:" + t] = f"unknown default action `{t}`"
            for k, msg in sorted(bad.items()):
                chk.fail(R, f"{key}:{k}", where, msg)
            if not bad:
                chk.ok(R, key, where)
        # ---------------------------------------------------------------- visit_Rule
        r = C.resolve(g, "visit_Rule")
        if r is not None:
            rel, owner, fn = r
            key = f"{g}.visit_Rule"
            where = f"{rel}:{fn.lineno}"
            ps = E.paths(fn)
            chk.count(R, len(ps))
            bad = {}
            for p in ps:
                s = _seq(p)
                texts = [x[1] if x[0] == "print" else f"<{x[1]}:{x[2]}>" for x in s]
                if any(t.startswith("return ") for t in texts):
                    continue       # the compact whole-rule form (GF9/GF14 speak about it)
                is_loop = flag(p, "is_loop")
                vis = [i for i, t in enumerate(texts) if t.startswith("<visit:rhs")]
                if len(vis) != 1:
                    bad["visit"] = f"the right-hand side must be emitted exactly once: {texts}"
                    continue
                v = vis[0]
                if "mark = self._mark()" not in texts[:v]:
                    bad["mark"] = "a rule must record `mark = self._mark()` before its first alternative"
                if is_loop is True:
                    if "children = []" not in texts[:v] or texts[v + 1:] != ["<add_return:children>"]:
                        bad["loop"] = f"a loop helper starts with `children = []` and ends returning `children`: {texts[v + 1:]}"
                elif is_loop is False:
                    if "children = []" in texts or texts[v + 1:] != ["<add_return:None>"]:
                        bad["fail"] = f"a rule none of whose alternatives matched must return None: {texts[v + 1:]}"
                else:
                    bad["flag"] = "not keyed on is_loop"
            for k, msg in sorted(bad.items()):
                chk.fail(R, f"{key}:{k}", where, msg)
            if not bad:
                chk.ok(R, key, where)
            # clean-up statements: pushed and popped on every path, and no `return` printed directly while one is registered
            chk.count(R)
            why = ""
            for p in ps:
                depth = 0
                for x in p:
                    if x[0] == "stack" and x[1] == "push-if":
                        # pushed inside a helper that reports it through the flag it returns: counts on the paths where the flag holds
                        held = next((y[2] for y in p if y[0] == "cond" and y[1] == x[2]), None)
                        depth += 1 if held is True else 0
                    elif x[0] == "stack" and x[1] == "push-in-helper":
                        depth += 1
                    elif x[0] == "stack":
                        depth += 1 if x[1] == "push" else -1
                    elif x[0] == "print" and x[1].startswith("return") and depth > 0:
                        why = "a `return` is printed directly while a clean-up statement is registered (it is skipped in the generated method)"
                if depth != 0:
                    why = why or "a path registers a clean-up statement and leaves without removing it: it is then emitted in every later rule"
            chk.require(not why, R, f"{key}:cleanup-balance", where, why)
            # the compact form has no place for the `self.call_invalid_rules and` gate the long form puts in front of an invalid_
            # alternative: it may be taken only where the rule is known to have none
            compact = [p for p in ps if any(x[0] == "print" and x[1].startswith("return ") for x in p)]
            if compact:
                chk.count(R)
                ungated = []
                for p in compact:
                    conds = [(x[1], x[2]) for x in p if x[0] == "cond"]
                    known = any(("invalidvisitor.visit(" in c and ((not c.startswith("not ") and t is False) or (c.startswith("not ") and t is True)))
                                for c, t in conds)
                    if not known:
                        ungated.append([c for c, t in conds][-4:])
                chk.require(not ungated, R, f"{key}:compact-form-without-invalid", where,
                            f"the compact `return self.seq_alts(...)` form is emitted on a path that has not established that the rule has no "
                            f"invalid_ alternative (tests on the path: {ungated[:1]}): `r: invalid_x | 'a'` then calls invalid_x in the first "
                            f"pass, without the call_invalid_rules gate")
        # ---------------------------------------------------------------- visit_Rhs: alternatives in order, all of them
        r = C.resolve(g, "visit_Rhs")
        if r is not None:
            rel, owner, fn = r
            chk.count(R)
            loops = [n for n in ast.walk(fn) if isinstance(n, ast.For)]
            ok = len(loops) == 1 and norm_stmt(loops[0].iter) == "node.alts" and \
                any(isinstance(c, ast.Call) and norm_stmt(c.func) == "self.visit" and c.args and norm_stmt(c.args[0]) == norm_stmt(loops[0].target)
                    for c in ast.walk(loops[0])) and not any(isinstance(n, (ast.Break, ast.Continue, ast.Return)) for n in ast.walk(loops[0]))
            chk.require(ok, R, f"{g}.visit_Rhs", f"{rel}:{fn.lineno}",
                        "ordered choice: every alternative of the right-hand side is emitted, in the order written")
        # ---------------------------------------------------------------- visit_NamedItem: binding
        r = C.resolve(g, "visit_NamedItem")
        if r is not None:
            rel, owner, fn = r
            chk.count(R)
            prints = [Emit.tmpl(c.args[0]) for c in ast.walk(fn) if isinstance(c, ast.Call) and norm_stmt(c.func) == "self.print" and c.args]
            ok = sorted(prints) == sorted(["({call})", "({name} := {call})"])
            chk.require(ok, R, f"{g}.visit_NamedItem", f"{rel}:{fn.lineno}",
                        f"an item is emitted as `(<call>)` or `(<name> := <call>)` — parenthesised, since the call text may end in the "
                        f"one-tuple comma: {prints}")
    chk.floor(R, 40)


# ------------------------------------------------------------------------------------------------ T5 / T6: finite-domain evaluation
# methods of built-in immutable values (str, bytes, tuple, re.Match / re.Pattern) and the in-place methods of containers the evaluated
# code itself creates: calling them runs no repository code
PURE_METHODS = {"add", "update", "union", "append", "extend", "match", "fullmatch", "search", "groups", "group", "span", "end", "start",
                "encode", "decode", "lower", "upper", "strip", "lstrip", "rstrip", "startswith", "endswith", "isdigit", "isalpha",
                "isspace", "isidentifier", "isascii", "join", "split", "replace", "find", "rfind", "index", "count", "get", "items", "keys",
                "values", "pop", "copy", "format", "partition", "rpartition", "splitlines", "removeprefix", "removesuffix", "casefold",
                "setdefault", "clear", "insert", "remove", "discard", "intersection", "difference", "is_exact_type", "is_next_to", "_replace",
                "loc", "loc_start", "loc_end", "isupper", "islower", "title", "zfill", "expandtabs", "dedent"}


class _Ret(Exception):
    def __init__(self, v):
        self.v = v


class _Brk(Exception):
    pass


class _Cont(Exception):
    pass


class EvalError(Exception):
    pass


class Marker(Exception):
    """Raised by a fake collaborator handed to evaluated code (its error-raising helper): passes through the evaluator."""


class Raised(Marker):
    """The evaluated code executed a `raise` (or a failing `assert`): exception class name and arguments."""

    def __init__(self, cls, args=()):
        super().__init__(f"{cls}{tuple(args)}")
        self.cls, self.args_ = cls, tuple(args)


class Crash(EvalError):
    """The evaluated code itself raised on the given input (as opposed to leaving the evaluable subset)."""


def _mini_eval(fn: ast.FunctionDef, env: dict, allowed_calls: set[str], max_steps: int = 500, local_calls: bool = False):
    """Evaluate a small method body (assign / augmented assign / if / for / return / break / continue; expressions restricted to
    names bound in `env`, attribute reads, boolean and set operators, comparisons, comprehensions and calls of `allowed_calls`)
    on fake objects supplied by the rule.  Anything else raises EvalError (the obligation is then undecided, not failed)."""
    env = dict(env)
    steps = 0
    SAFE = {"set": set, "any": any, "all": all, "bool": bool, "len": len, "frozenset": frozenset, "list": list, "isinstance": isinstance,
            "tuple": tuple, "repr": repr, "str": str, "min": min, "max": max, "sorted": sorted, "enumerate": enumerate, "zip": zip,
            "range": range, "dict": dict, "int": int, "float": float, "complex": complex, "bytes": bytes, "ord": ord, "chr": chr,
            "abs": abs, "sum": sum, "type": type, "next": next, "iter": iter, "SyntaxError": SyntaxError, "ValueError": ValueError,
            "TypeError": TypeError, "KeyError": KeyError, "IndexError": IndexError, "Exception": Exception,
            "UnicodeError": UnicodeError, "StopIteration": StopIteration, "AttributeError": AttributeError}

    def check(e):
        for n in ast.walk(e):
            if isinstance(n, ast.Call):
                f = n.func
                name = f.attr if isinstance(f, ast.Attribute) else (f.id if isinstance(f, ast.Name) else None)
                if local_calls and isinstance(f, ast.Name) and f.id in env:
                    continue    # a callable the rule itself handed in (or one bound from it)
                if name not in allowed_calls and name not in SAFE and name not in PURE_METHODS:
                    raise EvalError(f"call `{norm_stmt(f)}` outside the evaluable subset")
            elif isinstance(n, (ast.Lambda, ast.Yield, ast.YieldFrom, ast.Await)):
                raise EvalError(type(n).__name__)

    def ev(e):
        check(e)
        try:
            # names are looked up in one namespace (globals) so that generator expressions, which have their own scope, see them
            env["__builtins__"] = SAFE
            return eval(compile(ast.fix_missing_locations(ast.Expression(body=e)), "<c17>", "eval"), env)  # noqa: S307
        except (EvalError, Marker):
            raise
        except Exception as ex:
            c = Crash(f"{type(ex).__name__}: {ex}")
            c.orig = ex
            raise c

    def own_stmts(body):
        for st in body:
            if isinstance(st, (ast.FunctionDef, ast.AsyncFunctionDef, ast.ClassDef)):
                continue
            yield st
            for fld in ("body", "orelse", "finalbody"):
                yield from own_stmts(getattr(st, fld, []) or [])
            for h in getattr(st, "handlers", []) or []:
                yield from own_stmts(h.body)
    # a generator function (statement-level yields only) is evaluated eagerly; its value is the list of what it yields
    is_gen = local_calls and any(isinstance(st, ast.Expr) and isinstance(st.value, (ast.Yield, ast.YieldFrom)) for st in own_stmts(fn.body))
    yields: list = []

    def store(t, v):
        if isinstance(t, ast.Name):
            env[t.id] = v
        elif isinstance(t, ast.Attribute):
            setattr(ev(t.value), t.attr, v)
        elif isinstance(t, ast.Subscript):
            ev(t.value)[ev(t.slice)] = v
        elif isinstance(t, (ast.Tuple, ast.List)):
            vs = list(v)
            star = [i for i, e in enumerate(t.elts) if isinstance(e, ast.Starred)]
            if star:
                i = star[0]
                after = len(t.elts) - i - 1
                if len(star) > 1 or len(vs) < len(t.elts) - 1:
                    raise EvalError("unpack arity")
                for a, b in zip(t.elts[:i], vs[:i]):
                    store(a, b)
                store(t.elts[i].value, vs[i:len(vs) - after])
                for a, b in zip(t.elts[i + 1:], vs[len(vs) - after:]):
                    store(a, b)
                return
            if len(vs) != len(t.elts):
                raise EvalError("unpack arity")
            for a, b in zip(t.elts, vs):
                store(a, b)
        else:
            raise EvalError("store target")

    def run(body):
        nonlocal steps
        for st in body:
            steps += 1
            if steps > max_steps:
                raise Crash("does not terminate within the step bound (too many steps)")
            if isinstance(st, ast.Expr):
                if isinstance(st.value, ast.Constant):
                    continue
                if isinstance(st.value, ast.Yield) and is_gen:          # generators are evaluated eagerly: the yields are collected
                    yields.append(ev(st.value.value) if st.value.value is not None else None)
                    continue
                if isinstance(st.value, ast.YieldFrom) and is_gen:
                    yields.extend(list(ev(st.value.value)))
                    continue
                ev(st.value)
            elif isinstance(st, ast.FunctionDef) and local_calls and not st.decorator_list and \
                    not any(isinstance(n, (ast.Nonlocal, ast.Global)) for n in ast.walk(st)):
                # a nested helper: it sees the enclosing names as they are when it is called (containers are shared, so in-place
                # updates are visible outside; rebinding an enclosing name is outside the subset)
                def make(fdef):
                    params = [a.arg for a in fdef.args.args]

                    def call(*args):
                        if len(args) != len(params):
                            raise Crash(f"TypeError: {fdef.name}() takes {len(params)} arguments")
                        sub = dict(env)
                        sub.update(zip(params, args))
                        return _mini_eval(fdef, sub, allowed_calls | {fdef.name}, max_steps=max_steps, local_calls=True)
                    return call
                env[st.name] = make(st)
            elif isinstance(st, ast.Delete):
                for t in st.targets:
                    if not isinstance(t, ast.Subscript):
                        raise EvalError("del of a name")
                    obj = ev(t.value)
                    if isinstance(t.slice, ast.Slice):
                        key = slice(*(ev(x) if x is not None else None for x in (t.slice.lower, t.slice.upper, t.slice.step)))
                    else:
                        key = ev(t.slice)
                    try:
                        del obj[key]
                    except Exception as ex:
                        raise Crash(f"{type(ex).__name__}: {ex}")
            elif isinstance(st, ast.Assign):
                v = ev(st.value)
                for t in st.targets:
                    store(t, v)
            elif isinstance(st, ast.AnnAssign):
                if st.value is not None:
                    store(st.target, ev(st.value))
            elif isinstance(st, ast.AugAssign) and isinstance(st.target, ast.Name):
                cur = env[st.target.id]
                v = ev(st.value)
                if isinstance(st.op, ast.BitOr):
                    env[st.target.id] = cur | v
                elif isinstance(st.op, ast.BitAnd):
                    env[st.target.id] = cur & v
                elif isinstance(st.op, ast.Sub):
                    env[st.target.id] = cur - v
                elif isinstance(st.op, ast.Add):
                    env[st.target.id] = cur + v
                else:
                    raise EvalError("augmented operator")
            elif isinstance(st, ast.AugAssign) and isinstance(st.target, ast.Attribute) and isinstance(st.op, (ast.Add, ast.Sub)):
                obj = ev(st.target.value)
                cur = getattr(obj, st.target.attr)
                v = ev(st.value)
                setattr(obj, st.target.attr, cur + v if isinstance(st.op, ast.Add) else cur - v)
            elif isinstance(st, ast.If):
                run(st.body if ev(st.test) else st.orelse)
            elif isinstance(st, ast.For):
                broke = False
                for x in ev(st.iter):     # lazily: the iterable may be unbounded (itertools.count)
                    steps += 1
                    if steps > max_steps:
                        raise Crash("does not terminate within the step bound (too many steps)")
                    store(st.target, x)
                    try:
                        run(st.body)
                    except _Brk:
                        broke = True
                        break
                    except _Cont:
                        continue
                if not broke:
                    run(st.orelse)
            elif isinstance(st, ast.While):
                broke = False
                while ev(st.test):
                    steps += 1
                    if steps > max_steps:
                        raise Crash("does not terminate within the step bound (too many steps)")
                    try:
                        run(st.body)
                    except _Brk:
                        broke = True
                        break
                    except _Cont:
                        continue
                if not broke:
                    run(st.orelse)
            elif isinstance(st, ast.Try) and not st.handlers and not st.orelse:
                try:
                    run(st.body)
                finally:
                    run(st.finalbody)
            elif isinstance(st, ast.Try) and not st.orelse:
                EXC = {"SyntaxError": SyntaxError, "ValueError": ValueError, "TypeError": TypeError, "KeyError": KeyError,
                       "IndexError": IndexError, "AttributeError": AttributeError, "Exception": Exception, "StopIteration": StopIteration,
                       "UnicodeError": UnicodeError, "OverflowError": OverflowError, "MemoryError": MemoryError}
                try:
                    try:
                        run(st.body)
                    except Crash as c:
                        orig = getattr(c, "orig", None)
                        handled = False
                        for h in st.handlers:
                            names = [h.type] if not isinstance(h.type, ast.Tuple) else list(h.type.elts)
                            types_ = tuple(EXC[n.id] for n in names if isinstance(n, ast.Name) and n.id in EXC) if h.type is not None else (Exception,)
                            if h.type is not None and len(types_) != len(names):
                                raise EvalError("exception class outside the evaluable subset")
                            if orig is not None and isinstance(orig, types_):
                                if h.name:
                                    env[h.name] = orig
                                run(h.body)
                                handled = True
                                break
                        if not handled:
                            raise
                finally:
                    run(st.finalbody)
            elif isinstance(st, ast.Raise):
                if st.exc is None:
                    raise EvalError("bare raise")
                v = ev(st.exc)
                if isinstance(v, tuple) and len(v) == 3 and v[0] == "exc":
                    raise Raised(v[1], v[2])
                if isinstance(v, BaseException):
                    raise Raised(type(v).__name__, v.args)
                raise EvalError("raise of a value the rule did not supply")
            elif isinstance(st, ast.Assert):
                if not ev(st.test):
                    raise Raised("AssertionError", ())
            elif isinstance(st, ast.Return):
                raise _Ret(ev(st.value) if st.value is not None else None)
            elif isinstance(st, ast.Break):
                raise _Brk()
            elif isinstance(st, ast.Continue):
                raise _Cont()
            elif isinstance(st, ast.Pass):
                continue
            else:
                raise EvalError(f"statement {type(st).__name__}")

    try:
        run(fn.body)
    except _Ret as r:
        return yields if is_gen else r.v
    return yields if is_gen else None


class _Obj:
    def __init__(self, **kw):
        self.__dict__.update(kw)


class SourceSelf:
    """A fake `self` whose methods are the class's own methods *evaluated from source* by _mini_eval, on top of the primitives
    the rule supplies (position bookkeeping, token matchers).  Lets a rule evaluate a combinator together with the combinators
    it is built from, whatever the division of labour between them."""

    def __init__(self, methods: dict, prims: dict, max_steps: int = 4000):
        self.__dict__["_m"] = methods
        self.__dict__["_p"] = prims
        self.__dict__["_steps"] = max_steps

    def __getattr__(self, name):
        if name in self._p:
            return self._p[name]
        if name in self.__dict__.get("_consts", {}):
            return self._consts[name]
        if name in self._m:
            fn = self._m[name]
            params = [a.arg for a in fn.args.args]
            allowed = set(self._m) | set(self._p)

            def call(*args, **kw):
                env = dict(self.__dict__.get("_env_extra", {}))
                static = any(norm_stmt(d) == "staticmethod" for d in fn.decorator_list)
                env.update(zip(params, args if static else (self,) + args))
                if fn.args.vararg is not None:
                    env[fn.args.vararg.arg] = tuple(args[len(params) - 1:])
                env.update(kw)
                return _mini_eval(fn, env, allowed, max_steps=self._steps, local_calls=True)
            return call
        raise AttributeError(name)


def rule_t5(chk: Check, C: Classes):
    R = "T5-nullable-table"
    if "NullableVisitor" not in C.cls:
        raise AnalysisError("class NullableVisitor vanished")
    rel = C.cls["NullableVisitor"][0]

    def method(k):
        r = C.resolve("NullableVisitor", f"visit_{k}")
        return r[2] if r is not None and r[1] == "NullableVisitor" else None

    def run(fn, node, table):
        me = _Obj(rules={}, visited=set())
        me.visit = lambda x: table[id(x)]
        return _mini_eval(fn, {"self": me, fn.args.args[1].arg: node}, {"visit"})

    vectors = [v for n in range(0, 4) for v in itertools.product((False, True), repeat=n)]
    for k, attr, spec, why in (("Rhs", "alts", any, "a choice can match empty iff some alternative can"),
                               ("Alt", "items", all, "a sequence can match empty iff every item can")):
        fn = method(k)
        chk.count(R)
        if fn is None:
            raise AnalysisError(f"NullableVisitor.visit_{k} vanished")
        bad = None
        try:
            for v in vectors:
                kids = [_Obj() for _ in v]
                got = run(fn, _Obj(**{attr: kids}), {id(c): b for c, b in zip(kids, v)})
                if bool(got) != spec(v):
                    bad = (v, got)
                    break
        except EvalError as e:
            chk.undecided(R, f"NullableVisitor.visit_{k}", f"{rel}:{fn.lineno}", f"not evaluable: {e}")
            continue
        chk.require(bad is None, R, f"NullableVisitor.visit_{k}", f"{rel}:{fn.lineno}",
                    f"{why}; for children {bad[0] if bad else ''} the visitor answers {bad[1] if bad else ''} — left recursion behind "
                    f"such a prefix is then missed (unbounded recursion in the generated parser) or invented")
    consts = {"Opt": (True,), "Repeat0": (True,), "Gather": (False,), "Repeat1": (False, "child")}
    for k, allowed in consts.items():
        fn = method(k)
        chk.count(R)
        if fn is None:
            chk.fail(R, f"NullableVisitor.visit_{k}", rel, f"no handler for {k}: generic_visit answers None (not nullable) and walks on")
            continue
        try:
            res = set()
            for b in (False, True):
                kid = _Obj()
                res.add((b, bool(run(fn, _Obj(node=kid, separator=_Obj()), {id(kid): b}))))
        except EvalError as e:
            chk.undecided(R, f"NullableVisitor.visit_{k}", f"{rel}:{fn.lineno}", f"not evaluable: {e}")
            continue
        ok = any(all(got == (b if a == "child" else a) for b, got in res) for a in allowed)
        chk.require(ok, R, f"NullableVisitor.visit_{k}", f"{rel}:{fn.lineno}",
                    f"`{k}` must be {'nullable' if allowed[0] else 'not nullable' + (' (or as its operand)' if len(allowed) > 1 else '')}; the visitor "
                    f"answers {sorted(res)} for operand results (False, True)")
    for k, attr in (("Group", "rhs"), ("NamedItem", "item")):
        fn = method(k)
        chk.count(R)
        if fn is None:
            chk.fail(R, f"NullableVisitor.visit_{k}", rel, f"no handler for {k}")
            continue
        try:
            res = []
            for b in (False, True):
                kid = _Obj()
                res.append(bool(run(fn, _Obj(**{attr: kid}, nullable=False), {id(kid): b})))
        except EvalError as e:
            chk.undecided(R, f"NullableVisitor.visit_{k}", f"{rel}:{fn.lineno}", f"not evaluable: {e}")
            continue
        chk.require(res == [False, True], R, f"NullableVisitor.visit_{k}", f"{rel}:{fn.lineno}",
                    f"`{k}` is nullable exactly when its {attr} is; the visitor answers {res} for (False, True)")
    # NamedItem must also record the flag on the item (Alt.initial_names reads item.nullable)
    fn = method("NamedItem")
    chk.count(R)
    if fn is not None:
        try:
            got = []
            for b in (False, True):
                kid = _Obj()
                it = _Obj(item=kid, nullable=False)
                run(fn, it, {id(kid): b})
                got.append(it.nullable)
            chk.require(got == [False, True], R, "NullableVisitor.visit_NamedItem:records", f"{rel}:{fn.lineno}",
                        f"the item's `nullable` flag must be set exactly when the item is nullable (the first-graph reads it): {got}")
        except EvalError as e:
            chk.undecided(R, "NullableVisitor.visit_NamedItem:records", f"{rel}:{fn.lineno}", f"not evaluable: {e}")
    # leaves
    fn = method("StringLeaf")
    chk.count(R)
    if fn is not None:
        try:
            got = [bool(run(fn, _Obj(value=v), {})) for v in ("", "','", "'if'")]
            chk.require(got == [True, False, False], R, "NullableVisitor.visit_StringLeaf", f"{rel}:{fn.lineno}",
                        f"a literal consumes a token (only the empty string is nullable): {got}")
        except EvalError as e:
            chk.undecided(R, "NullableVisitor.visit_StringLeaf", f"{rel}:{fn.lineno}", f"not evaluable: {e}")
    fn = method("NameLeaf")
    chk.count(R)
    if fn is not None:
        try:
            got = []
            for b in (False, True):
                rule = _Obj()
                me = _Obj(rules={"r": rule}, visited=set())
                me.visit = lambda x, b=b: b
                got.append(bool(_mini_eval(fn, {"self": me, fn.args.args[1].arg: _Obj(value="r")}, {"visit"})))
            tokres = bool(_mini_eval(fn, {"self": _Obj(rules={}, visit=lambda x: True), fn.args.args[1].arg: _Obj(value="NAME")}, {"visit"}))
            chk.require(got == [False, True] and tokres is False, R, "NullableVisitor.visit_NameLeaf", f"{rel}:{fn.lineno}",
                        f"a rule reference is nullable as its rule is, a token never: rules {got}, token {tokres}")
        except EvalError as e:
            chk.undecided(R, "NullableVisitor.visit_NameLeaf", f"{rel}:{fn.lineno}", f"not evaluable: {e}")
    chk.floor(R, 10)


def rule_t6(chk: Check, C: Classes):
    R = "T6-first-graph"
    rel = "pegen/grammar.py"

    def own(cls, meth):
        r = C.resolve(cls, meth)
        if r is None:
            raise AnalysisError(f"{cls}.{meth} vanished")
        return r[2]

    names_pool = [frozenset({"a"}), frozenset({"b"}), frozenset({"c"})]
    # Alt.initial_names: union of the items' names up to and including the first one that is not nullable
    fn = own("Alt", "initial_names")
    chk.count(R)
    bad = None
    try:
        for n in range(0, 4):
            for flags in itertools.product((False, True), repeat=n):
                items = [_Obj(nullable=f, initial_names=(lambda s=names_pool[i]: set(s))) for i, f in enumerate(flags)]
                got = _mini_eval(fn, {"self": _Obj(items=items)}, {"initial_names"})
                want = set()
                for i, f in enumerate(flags):
                    want |= names_pool[i]
                    if not f:
                        break
                if set(got or ()) != want:
                    bad = (flags, sorted(got or ()), sorted(want))
                    break
            if bad:
                break
        chk.require(bad is None, R, "Alt.initial_names", f"{rel}:{fn.lineno}",
                    f"the rules an alternative may call at its start are those of its items up to and including the first non-nullable "
                    f"one; for nullable flags {bad[0] if bad else ''} it answers {bad[1] if bad else ''}, expected {bad[2] if bad else ''}")
    except EvalError as e:
        chk.undecided(R, "Alt.initial_names", f"{rel}:{fn.lineno}", f"not evaluable: {e}")
    fn = own("Rhs", "initial_names")
    chk.count(R)
    try:
        bad = None
        for n in range(0, 4):
            alts = [_Obj(initial_names=(lambda s=names_pool[i]: set(s))) for i in range(n)]
            got = _mini_eval(fn, {"self": _Obj(alts=alts)}, {"initial_names"})
            want = set().union(*names_pool[:n]) if n else set()
            if set(got or ()) != want:
                bad = (n, sorted(got or ()))
        chk.require(bad is None, R, "Rhs.initial_names", f"{rel}:{fn.lineno}",
                    f"a choice may start with what any of its alternatives may start with: {bad}")
    except EvalError as e:
        chk.undecided(R, "Rhs.initial_names", f"{rel}:{fn.lineno}", f"not evaluable: {e}")
    # pass-through and empty nodes
    for cls, attr in (("NamedItem", "item"), ("Opt", "node"), ("Repeat", "node"), ("Group", "rhs"), ("Rule", "rhs")):
        fn = own(cls, "initial_names")
        chk.count(R)
        try:
            kid = _Obj(initial_names=lambda: {"k"})
            got = _mini_eval(fn, {"self": _Obj(**{attr: kid})}, {"initial_names"})
            chk.require(set(got or ()) == {"k"}, R, f"{cls}.initial_names", f"{rel}:{fn.lineno}",
                        f"`{cls}` starts with whatever its {attr} starts with: {got}")
        except EvalError as e:
            chk.undecided(R, f"{cls}.initial_names", f"{rel}:{fn.lineno}", f"not evaluable: {e}")
    fn = own("NameLeaf", "initial_names")
    chk.count(R)
    try:
        got = _mini_eval(fn, {"self": _Obj(value="r")}, set())
        chk.require(set(got or ()) == {"r"}, R, "NameLeaf.initial_names", f"{rel}:{fn.lineno}", f"a rule reference starts with that rule: {got}")
    except EvalError as e:
        chk.undecided(R, "NameLeaf.initial_names", f"{rel}:{fn.lineno}", f"not evaluable: {e}")
    # leaders
    rel2 = "pegen/parser_generator.py"
    fn = next((n for n in _parse(rel2).body if isinstance(n, ast.FunctionDef) and n.name == "compute_left_recursives"), None)
    chk.count(R)
    if fn is None:
        raise AnalysisError("compute_left_recursives vanished")
    # the search may live in compute_left_recursives itself or in a module-level helper it calls
    called = {c.func.id for c in ast.walk(fn) if isinstance(c, ast.Call) and isinstance(c.func, ast.Name)}
    scope = [fn] + [n for n in _parse(rel2).body if isinstance(n, ast.FunctionDef) and n.name in called]
    src = [norm_stmt(s) for f_ in scope for s in ast.walk(f_) if isinstance(s, ast.stmt)]
    narrow = {"leaders -= scc - set(cycle)", "leaders &= set(cycle)", "leaders = leaders & set(cycle)", "leaders.intersection_update(cycle)",
              "leaders.intersection_update(set(cycle))", "leaders = leaders - (scc - set(cycle))", "leaders -= set(scc) - set(cycle)"}
    init = {"leaders = set(scc)", "leaders: Set[str] = set(scc)", "leaders = set(scc.copy())", "leaders = scc.copy()"}
    chk.require(bool(narrow & set(src)) and bool(init & set(src)), R, "compute_left_recursives:leader-in-every-cycle", f"{rel2}:{fn.lineno}",
                "the leader of a left-recursive component must lie on every cycle: candidates start as the whole component and are "
                "intersected with each cycle found")
    chk.count(R)
    import re as _re
    lr = [s for s in src if _re.fullmatch(r"rules\[.+\]\.left_recursive = True", s)]
    ld = [s for s in src if _re.fullmatch(r"rules\[.+\]\.leader = True", s)]
    picks = [s for s in src if _re.fullmatch(r"(leader = |return )min\(leaders\)", s)]
    chk.require(len(lr) >= 2 and len(ld) >= 2 and len(picks) == 1, R, "compute_left_recursives:marks", f"{rel2}:{fn.lineno}",
                f"every member of a component of size > 1, and every rule with a self-edge, is marked left-recursive; one leader per component, "
                f"the least of the candidates: {lr} {ld} {picks}")
    # ... and every cycle is looked at: the cycle enumeration is started from every vertex of the component (a depth-first walk from
    # one vertex does not list the cycles that do not pass through it)
    chk.count(R)
    ok_start = False
    for f_ in scope:
        for loop in [n for n in ast.walk(f_) if isinstance(n, ast.For)]:
            if not (isinstance(loop.target, ast.Name) and norm_stmt(loop.iter) in ("scc", "sorted(scc)", "list(scc)", "set(scc)")):
                continue
            for c in ast.walk(loop):
                if isinstance(c, ast.Call) and norm_stmt(c.func).endswith("find_cycles_in_scc") and len(c.args) == 3 and \
                        isinstance(c.args[2], ast.Name) and c.args[2].id == loop.target.id:
                    ok_start = True
    chk.require(ok_start, R, "compute_left_recursives:cycles-from-every-vertex", f"{rel2}:{fn.lineno}",
                "the cycles of a left-recursive component must be enumerated from every one of its vertices; started from a single vertex, a "
                "cycle that avoids it is never seen and a rule off that cycle can be chosen as leader (unbounded recursion in the parser)")
    fn = next((n for n in _parse(rel2).body if isinstance(n, ast.FunctionDef) and n.name == "make_first_graph"), None)
    chk.count(R)
    if fn is None:
        raise AnalysisError("make_first_graph vanished")
    try:
        rules = {"a": _Obj(initial_names=lambda: {"b", "X"}), "b": _Obj(initial_names=lambda: {"a"})}
        got = _mini_eval(fn, {"rules": rules}, {"initial_names", "items", "setdefault"})
        want = {"a": {"b", "X"}, "b": {"a"}, "X": set()}
        chk.require(got is not None and {k: set(v) for k, v in got.items()} == want, R, "make_first_graph", f"{rel2}:{fn.lineno}",
                    f"edge A→B iff A may call B at its start; every vertex present: {got}")
    except EvalError as e:
        chk.undecided(R, "make_first_graph", f"{rel2}:{fn.lineno}", f"not evaluable: {e}")
    chk.floor(R, 10)


# ------------------------------------------------------------------------------------------------ run
def run(chk: Check):
    chk.explanation = (
        "Structural clauses of 'the generator implements PEG semantics', decided on the generator's and the runtime's source: "
        "handler exhaustiveness of the call makers over the node classes the grammar reader constructs; the call text emitted per "
        "PEG operator resolved to templates (constant fragments + provenance of the holes) and compared with the operator's runtime "
        "combinator and argument order; path rules over the emitting methods (condition / action / reset / cut exit / diagnostic "
        "gate / loop helpers); the nullable and first-graph computations evaluated over their finite abstract domains; plus the "
        "backtracking discipline of the runtime combinators, the memo wrappers and the generator facts GF1-GF14. Equivalence of "
        "generated parsers with a PEG interpreter over all grammars is NOT decided.")
    chk.trusted = ["Python ast module", "xpverif.pyflow path sets", "the PEG operator ↔ combinator table written in this check"]
    chk.assumptions = ["grammars are well-formed in the sense of the property's quantifier (no falsy successful alternative, no "
                       "repetition of a nullable item, no left recursion hidden behind a nullable prefix — which is why the dead "
                       "NullableVisitor.visit_LookAhead handler, upstream pegen's as well, is not reported)",
                       "sccutils' component and cycle routines are evaluated on all 3-vertex graphs and a sample of 4-vertex ones (T6), not beyond",
                       "for-loops of the emitting methods are explored for 0, 1 and 2 iterations (their bodies are uniform per item)"]
    C = Classes()
    chk.units["classes"] = sorted(C.cls)
    rule_t1(chk, C)
    rule_t4(chk, C)
    rule_t3(chk, C)
    rule_t5(chk, C)
    rule_t6(chk, C)
    rule_t6_scc(chk)
    from . import gen_determinism
    gen_determinism.run(chk)
    from .c01 import rule_combinators
    rule_combinators(chk)
    from .c18 import rule_w2
    rule_w2(chk)


def eval_left_rec(wrapper: ast.FunctionDef, verbose: bool, stream: tuple, second_call: bool = True):
    """Evaluate the left-recursion wrapper (from source) around the rule  r: r '+' 'n' | 'n'  on a token stream over {n, +, x}.
    Returns (tree, end position, cached entry, rule-body runs during a second call at the same position)."""
    st = {"pos": 0, "runs": 0}
    me = _Obj(_cache={}, _verbose=verbose, _level=0, in_recursive_rule=0)
    me._mark = lambda: st["pos"]
    me._reset = lambda m: st.__setitem__("pos", m)
    me.showpeek = lambda: "tok"

    def tok(c):
        if st["pos"] < len(stream) and stream[st["pos"]] == c:
            st["pos"] += 1
            return c
        return None

    def method(self_):
        st["runs"] += 1
        m = st["pos"]
        left = call()
        if left and tok("+") and tok("n"):
            return ("add", left, "n")
        st["pos"] = m
        if tok("n"):
            return "n"
        st["pos"] = m
        return None

    def call():
        import itertools as _itertools
        import types as _types
        env = {"self": me, "method": method, "method_name": "r", "print": lambda *a, **k: None,
               "itertools": _types.SimpleNamespace(count=_itertools.count)}
        return _mini_eval(wrapper, env, {"_mark", "_reset", "showpeek", "print", "method", "count"}, max_steps=3000, local_calls=True)
    tree = call()
    end = st["pos"]
    entry = me._cache.get((0, "r", ()))
    runs2 = None
    if second_call:
        st["pos"] = 0
        before = st["runs"]
        t2 = call()
        runs2 = (st["runs"] - before, t2 == tree, st["pos"] == end)
    return tree, end, entry, runs2, me._level, me.in_recursive_rule


def left_rec_expected(stream: tuple):
    if not stream or stream[0] != "n":
        return None, 0
    tree, pos = "n", 1
    while pos + 1 < len(stream) and stream[pos] == "+" and stream[pos + 1] == "n":
        tree = ("add", tree, "n")
        pos += 2
    return tree, pos


def eval_memoize(wrapper: ast.FunctionDef, verbose: bool, succeeds: bool, args: tuple = ()):
    """Evaluate the plain memo wrapper (from source) around a rule body that consumes two tokens and returns a value (or fails and
    returns None with the position wherever it got to).  Returns (first result, end position, cache entry, second-call facts)."""
    st = {"pos": 3, "runs": 0}
    me = _Obj(_cache={}, _verbose=verbose, _level=0)
    me._mark = lambda: st["pos"]
    me._reset = lambda m: st.__setitem__("pos", m)
    me.showpeek = lambda: "tok"

    def method(self_, *a):
        st["runs"] += 1
        if succeeds:
            st["pos"] += 2
            return ("T", a)
        return None

    def call():
        env = {"self": me, "method": method, "method_name": "r", "print": lambda *a, **k: None, "repr": repr, "map": map,
               "_format_call_args": (lambda a: ",".join(repr(x) for x in a))}
        if wrapper.args.vararg is not None:
            env[wrapper.args.vararg.arg] = tuple(args)
        return _mini_eval(wrapper, env, {"_mark", "_reset", "showpeek", "print", "method", "join", "repr", "get", "map"}, max_steps=2000, local_calls=True)
    tree = call()
    end = st["pos"]
    entry = me._cache.get((3, "r", tuple(args)))
    st["pos"] = 3
    before = st["runs"]
    t2 = call()
    return tree, end, entry, (st["runs"] - before, t2 == tree, st["pos"] == end), me._level


def module_pure_constants(rel: str, extra: Optional[dict] = None, data_attrs: tuple = ()) -> dict:
    """Module-level names bound once to a literal or to `re.compile(<literal>[, flags])` — values a helper may name."""
    import re as _re
    out: dict = {}
    mod = _parse(rel)
    for st in mod.body:
        tgt = val = None
        if isinstance(st, ast.Assign) and len(st.targets) == 1 and isinstance(st.targets[0], ast.Name):
            tgt, val = st.targets[0].id, st.value
        elif isinstance(st, ast.AnnAssign) and isinstance(st.target, ast.Name) and st.value is not None:
            tgt, val = st.target.id, st.value
        if tgt is None:
            continue
        try:
            out[tgt] = ast.literal_eval(val)
            continue
        except Exception:
            pass
        # a pure expression over literals, whitelisted builtins and the constants folded so far (`frozenset(TABLE.values())`)
        try:
            from .. import constfold as _cf
            ver = _cf._Verifier(set(out) | set(extra or {}), set())
            ver.data_attrs = tuple(data_attrs)
            if ver.ok_expr(val, set()):
                ns = {"__builtins__": dict(_cf.SAFE_BUILTINS)}
                ns.update(extra or {})
                ns.update(out)
                out[tgt] = eval(compile(ast.fix_missing_locations(ast.Expression(val)), "<module constant>", "eval"), ns)  # noqa: S307
                continue
        except Exception:
            pass
        if isinstance(val, ast.Call) and norm_stmt(val.func) in ("re.compile", "_re.compile") and val.args and not val.keywords:
            try:
                args = [ast.literal_eval(a) if not (isinstance(a, ast.Attribute) and norm_stmt(a).startswith(("re.", "_re."))) else getattr(_re, a.attr)
                        for a in val.args]
                out[tgt] = _re.compile(*args)
            except Exception:
                continue
    return out


def rule_t6_scc(chk: Check):
    """The left-recursion analysis stands on two graph routines of pegen/sccutils.py.  Both are evaluated from source (generators
    eagerly) on every directed graph over three vertices and a fixed sample of graphs over four, and compared with their definition:
    the components are the classes of mutual reachability, each vertex in exactly one; the cycles from `start` are the walks inside
    the component that stop at the first repeated vertex."""
    R = "T6-first-graph"
    rel = "pegen/sccutils.py"
    mod = _parse(rel)
    funcs = {n.name: n for n in mod.body if isinstance(n, ast.FunctionDef)}
    scc_fn, cyc_fn = funcs.get("strongly_connected_components"), funcs.get("find_cycles_in_scc")
    if scc_fn is None or cyc_fn is None:
        raise AnalysisError("pegen/sccutils.py: strongly_connected_components / find_cycles_in_scc vanished")

    def graphs():
        step4 = 1 if getattr(chk, "tier", "quick") == "thorough" else 131        # thorough: every four-vertex digraph (65536)
        for names, masks in ((("a", "b", "c"), range(512)), (("a", "b", "c", "d"), range(0, 65536, step4))):
            n = len(names)
            for m in masks:
                yield names, {names[i]: [names[j] for j in range(n) if m >> (i * n + j) & 1] for i in range(n)}

    def ref_sccs(names, edges):
        reach = {v: {v} for v in names}
        changed = True
        while changed:
            changed = False
            for v in names:
                for w in list(reach[v]):
                    for x in edges[w]:
                        if x not in reach[v]:
                            reach[v].add(x)
                            changed = True
        return {frozenset(w for w in names if w in reach[v] and v in reach[w]) for v in names}

    def ref_cycles(edges, scc, start):
        out = []

        def dfs(node, path):
            if node in path:
                out.append(tuple(path + [node]))
                return
            for ch in edges[node]:
                if ch in scc:
                    dfs(ch, path + [node])
        dfs(start, [])
        return sorted(out)

    bad_scc = bad_cyc = None
    und = ""
    n_g = n_c = 0
    try:
        for names, edges in graphs():
            n_g += 1
            want = ref_sccs(names, edges)
            try:
                got = _mini_eval(scc_fn, {"vertices": list(names), "edges": {k: list(v) for k, v in edges.items()}}, set(), max_steps=4000,
                                 local_calls=True)
                got_l = [frozenset(x) for x in got]
                verdict = None if (set(got_l) == want and len(got_l) == len(want)) else sorted(sorted(x) for x in got_l)
            except Crash as e:
                verdict = f"crash: {e}"
            if verdict is not None and bad_scc is None:
                bad_scc = (edges, verdict, sorted(sorted(x) for x in want))
            if len(names) > 3:
                continue
            for scc in want:
                if len(scc) < 2:
                    continue
                for start in sorted(scc):
                    n_c += 1
                    try:
                        got = _mini_eval(cyc_fn, {"graph": {k: set(v) for k, v in edges.items()}, "scc": set(scc), "start": start}, set(),
                                         max_steps=4000, local_calls=True)
                        g = sorted(tuple(x) for x in got)
                        verdict = None if g == ref_cycles(edges, scc, start) else g[:4]
                    except (Crash, Raised) as e:
                        verdict = f"crash: {e}"
                    if verdict is not None and bad_cyc is None:
                        bad_cyc = (edges, sorted(scc), start, verdict)
    except EvalError as e:
        und = str(e)
    chk.units["scc_graphs_evaluated"] = n_g
    chk.units["scc_cycle_queries_evaluated"] = n_c
    for key, fn, bad, what in (("strongly_connected_components", scc_fn, bad_scc,
                                "the components must be the classes of mutual reachability, each vertex in exactly one (a back edge to a "
                                "vertex k path segments down merges all k): (graph, here, expected)"),
                               ("find_cycles_in_scc", cyc_fn, bad_cyc,
                                "the cycles from `start` must be the walks inside the component up to the first repeated vertex: "
                                "(graph, component, start, here)")):
        chk.count(R)
        if und:
            chk.undecided(R, f"sccutils.{key}", f"{rel}:{fn.lineno}", f"not evaluable: {und}")
        else:
            chk.require(bad is None, R, f"sccutils.{key}", f"{rel}:{fn.lineno}", f"{what} {bad} — a left-recursive cycle of three or more "
                        f"rules would be split, and its members lose the leader/memo treatment")
