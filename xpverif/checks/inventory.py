"""Reviewed inventories: places where the scanner refuses input, writes reached by generic tree walks."""
from __future__ import annotations

import ast

from .. import repo
from ..common import AnalysisError, Check, norm_stmt
from ..pyflow import Index, own_nodes

# message prefix -> why refusing is right (CPython refuses the same input)
SCANNER_REFUSALS = {
    "unindent does not match any outer indentation level": "a dedent to a column that is no open level",
    "Bad token:": "unreachable: every lexeme kind of the master pattern is handled above it",
    "EOF in multi-line string": "input ends inside a string / f-string",
    "unterminated string literal": "a one-quote string whose line neither ends it nor continues it",
    "EOF in multi-line statement": "input ends inside brackets or right after a backslash continuation",
    "unexpected EOF": "the token stream is read past its end",
}


def rule_scanner_refusals(chk: Check, ix: Index, rule_id: str):
    """Every place where the tokenizer *refuses* input is a place where it can disagree with CPython about valid text.  The raise
    sites of tokenize.py are an inventory reviewed against CPython; a new one (or a new message) needs that review — e.g. a line
    break inside the braces of a one-quote f-string is legal since Python 3.12 and must not be refused."""
    n = 0
    for q, f in sorted(ix.funcs.items()):
        if f.rel != repo.TOKENIZE:
            continue
        for st in own_nodes(f.node):
            if not isinstance(st, ast.Raise) or st.exc is None:
                continue
            n += 1
            chk.count(rule_id)
            msg = ""
            if isinstance(st.exc, ast.Call) and st.exc.args:
                a0 = st.exc.args[0]
                if isinstance(a0, ast.Constant) and isinstance(a0.value, str):
                    msg = a0.value
                elif isinstance(a0, ast.JoinedStr) and a0.values and isinstance(a0.values[0], ast.Constant):
                    msg = str(a0.values[0].value)
            ok = any(msg.startswith(k) for k in SCANNER_REFUSALS)
            chk.require(ok, rule_id, f"{q}:raise:{msg[:40]}", f"{f.rel}:{st.lineno}",
                        f"`{q}` refuses input with {norm_stmt(st.exc)[:70]!r}, which is not one of the reviewed refusals of the scanner: "
                        f"text that CPython's tokenizer accepts (PEP 701 allows line breaks in the expression part of any f-string) may now "
                        f"be rejected")
    chk.units["scanner_raise_sites"] = n
    if n < 3:
        raise AnalysisError("the scanner's raise sites were not found")


def rule_walk_writes(chk: Check, ix: Index, rule_id: str):
    """`ast.walk` of a tree built by this parser also yields the shared `Load` / `Store` / `Del` context objects: a loop over it that
    writes attributes (directly or through setattr) writes them onto those process-wide singletons, unless it tells them apart."""
    n = 0
    for q, f in sorted(ix.funcs.items()):
        if f.rel not in (repo.SUBHEADER, repo.TOKENIZER):
            continue
        for loop in [x for x in own_nodes(f.node) if isinstance(x, ast.For) and isinstance(x.target, ast.Name)]:
            it = norm_stmt(loop.iter)
            if not (it.startswith("ast.walk(") or it.startswith("ast.iter_child_nodes(")):
                continue
            v = loop.target.id
            writes = [s for s in ast.walk(loop) if
                      (isinstance(s, ast.Call) and norm_stmt(s.func) == "setattr" and s.args and norm_stmt(s.args[0]) == v) or
                      (isinstance(s, (ast.Assign, ast.AugAssign)) and any(
                          isinstance(t, ast.Attribute) and norm_stmt(t.value) == v
                          for t in (s.targets if isinstance(s, ast.Assign) else [s.target])))]
            if not writes:
                continue
            n += 1
            chk.count(rule_id)
            guarded = any(isinstance(i, ast.If) and ("expr_context" in norm_stmt(i.test) or "isinstance(" + v in norm_stmt(i.test))
                          for i in ast.walk(loop))
            chk.require(guarded, rule_id, f"{q}:walk-write:{norm_stmt(writes[0])[:40]}", f"{f.rel}:{loop.lineno}",
                        f"`{q}` writes attributes on every node `{it}` yields; that includes the shared context singletons (Load/Store/Del), "
                        f"so state written for one tree is visible from every tree of the process")
    chk.units["tree_walk_writers"] = n
