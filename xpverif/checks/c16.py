"""C16 — shipped generated parsers are what their grammars generate (translation validation).

IR(E1 of grammar) through the reference translation (translate.py) must equal IR(E2 of the shipped
module), rule by rule and alternative by alternative.
"""
from __future__ import annotations

import ast
import builtins
import re

from .. import repo, translate as T
from ..common import AnalysisError, Check
from ..gramir import GrammarSyntaxError
from ..ir import Group, Lit, walk_alt_items, walk_alts
from ..pyir import DecompileError
from . import gen_determinism


def _literals(g):
    kw, soft = set(), set()
    for r in g.rules.values():
        for a in walk_alts(r):
            for it in walk_alt_items(a):
                if isinstance(it, Lit) and re.match(r"[a-zA-Z_]\w*\Z", it.value):
                    (soft if it.soft else kw).add(it.value)
    return kw, soft


def _pair(chk: Check, label: str, gram_fn, py_fn, dialect: str, gfile: str, pfile: str):
    try:
        g = gram_fn()
    except GrammarSyntaxError as e:
        chk.fail("G0-grammar-reads", f"{gfile}", f"{e.file}:{e.line}", f"grammar does not read: {e.msg}")
        return
    try:
        py = py_fn()
    except DecompileError as e:
        chk.fail("G1-generated-shape", f"{pfile}::{e.method or '<module>'}", f"{e.file}:{e.line}",
                 f"method is not of any shape the generator emits: {e.msg}")
        return
    chk.units[label] = {"grammar_rules": len(g.rules), "methods": len(py.rules) + len(py.helpers),
                        "helpers": len(py.helpers), "decompiler_stats": {k: v for k, v in py.metas["stats"].items()
                                                                          if k != "conjunct_shapes"},
                        "conjunct_shapes": len(py.metas["stats"]["conjunct_shapes"])}
    try:
        exp, info = T.translate_grammar(g, dialect, pegen_compat_leftrec=True)
        exp_sem, info_sem = T.translate_grammar(g, dialect, pegen_compat_leftrec=False)
    except T.TranslateError as e:
        chk.fail("G0-grammar-reads", f"{gfile}", str(e.pos), e.msg)
        return
    # rule sets
    for n in exp:
        chk.count(f"{label}.rules")
        if n not in py.rules:
            chk.fail("G2-rule-set", f"{gfile}::{n}", str(exp[n].pos), f"grammar rule `{n}` has no method in {pfile}")
    for n in py.rules:
        if n not in exp:
            chk.fail("G2-rule-set", f"{pfile}::{n}", str(py.rules[n].pos), f"method `{n}` has no rule in {gfile}")
    # per rule
    for n, e in exp.items():
        p = py.rules.get(n)
        if p is None:
            continue
        where = f"{p.pos} / {e.pos}"
        chk.require(e.decorator == p.decorator, "G3-decorator", f"{label}::{n}", where,
                    f"decorator is @{p.decorator}, the grammar calls for @{e.decorator} "
                    f"(memo={e.memo}, left-recursive={n in info['left_recursive']})")
        sem = exp_sem[n].decorator
        if sem != e.decorator:
            chk.fail("G3b-leftrec-semantic", f"{label}::{n}", where,
                     f"the generator's left-recursion analysis and the semantic one disagree (@{e.decorator} vs @{sem})")
        chk.require(e.whole_seq_alts == p.whole_seq_alts and e.brackets_invalid == p.brackets_invalid,
                    "G4-rule-form", f"{label}::{n}", where,
                    f"rule form differs (seq_alts {p.whole_seq_alts} vs {e.whole_seq_alts}; "
                    f"invalid bracket {p.brackets_invalid} vs {e.brackets_invalid})")
        if not e.whole_seq_alts:
            chk.require((not e.uses_locations) or p.uses_locations, "G4b-location-peek", f"{label}::{n}", where,
                        "an action uses LOCATIONS but the method does not record the start token")
        ea = [T.canon_alt(a) for a in e.alts]
        pa = [T.canon_alt(a) for a in p.alts]
        if len(ea) != len(pa):
            chk.fail("G5-alternatives", f"{label}::{n}#count", where,
                     f"{len(pa)} alternatives in the method, {len(ea)} in the grammar")
        for i, (x, y) in enumerate(zip(ea, pa)):
            chk.count(f"{label}.alts")
            key = f"{label}::{n}#alt{i}"
            w = f"{p.alts[i].pos} / {e.alts[i].pos}"
            if x == y:
                chk.ok("G5-alternatives", key, w)
                continue
            if x[0] != y[0]:
                chk.fail("G5-alternatives", key, w, f"invalid-rule gating differs (method {y[0]}, grammar {x[0]})")
            elif x[1] != y[1]:
                chk.fail("G5-alternatives", key, w,
                         f"items differ: method `{p.alts[i]}` vs grammar `{e.alts[i]}`")
            elif x[3] != y[3] or x[2] != y[2]:
                chk.fail("G5-alternatives", key, w,
                         f"action differs: method `{p.alts[i].action_src[:100]}` vs grammar "
                         f"`{' '.join(e.alts[i].action_src.split())[:100]}`")
    # keyword tables
    kw, soft = _literals(g)
    chk.require(tuple(sorted(kw)) == py.keywords, "G6-keywords", f"{label}::KEYWORDS", pfile,
                f"KEYWORDS differs from the grammar's single-quoted words: +{sorted(set(py.keywords) - kw)} "
                f"-{sorted(kw - set(py.keywords))} (or not sorted)")
    chk.require(tuple(sorted(soft)) == py.soft_keywords, "G6-keywords", f"{label}::SOFT_KEYWORDS", pfile,
                f"SOFT_KEYWORDS differs: +{sorted(set(py.soft_keywords) - soft)} -{sorted(soft - set(py.soft_keywords))}")
    # class name / base
    cls = g.metas.get("class") or "GeneratedParser"
    chk.require(py.klass == cls and py.bases == ("Parser",), "G7-class", f"{label}::class", pfile,
                f"class is {py.klass}{py.bases}, grammar says {cls}(Parser)")
    # groups whose action is silently dropped by the single-item simplification
    for r in g.rules.values():
        for a in walk_alts(r):
            for ni in a.items:
                out = []
                T.dropped_group_actions(ni.item, out)
                for grp in out:
                    chk.fail("G8-dropped-action", f"{label}::{r.name}", str(grp.pos),
                             "a one-item group carries an action the generator silently drops")
    # names used by actions must be provided by the module prelude or be locals
    _free_names(chk, label, py, pfile)
    return g, py


def _free_names(chk: Check, label: str, py, pfile: str):
    provided = set(dir(builtins)) | {"self", "mark", "cut", "_lnum", "_col", "start_lineno", "start_col_offset",
                                     "end_lineno", "end_col_offset", "tok"}
    for n in py.metas["module_prelude"]:
        if isinstance(n, ast.Import):
            for a in n.names:
                provided.add((a.asname or a.name).split(".")[0])
        elif isinstance(n, ast.ImportFrom):
            for a in n.names:
                provided.add(a.asname or a.name)
        elif isinstance(n, (ast.FunctionDef, ast.ClassDef)):
            provided.add(n.name)
        elif isinstance(n, ast.Assign):
            for t in n.targets:
                if isinstance(t, ast.Name):
                    provided.add(t.id)
    rules = dict(py.rules)
    rules.update(py.helpers)
    for r in rules.values():
        for i, a in enumerate(r.alts):
            if a.action is None:
                continue
            local = {ni.name for ni in a.items if ni.name}
            for node in ast.walk(a.action):
                if isinstance(node, (ast.ListComp, ast.SetComp, ast.GeneratorExp, ast.DictComp)):
                    for gen in node.generators:
                        for t in ast.walk(gen.target):
                            if isinstance(t, ast.Name):
                                local.add(t.id)
                if isinstance(node, ast.Lambda):
                    for arg in node.args.args:
                        local.add(arg.arg)
                if isinstance(node, ast.NamedExpr) and isinstance(node.target, ast.Name):
                    local.add(node.target.id)
            # the generator binds an item to a variable only when the action uses that name: a binding the action does not use is
            # a leftover of a hand edit (regenerating emits the bare call, so the shipped method differs from the generated one)
            if label == "xonsh" and not getattr(a, "default_action", False):
                used_names = {n.id for n in ast.walk(a.action) if isinstance(n, ast.Name)}
                for ni in a.items:
                    base_name = re.sub(r"_\d+$", "", ni.name) if ni.name else None     # `a_1`: a second item captured as `a` (dedupe)
                    if ni.name and ni.name != "cut" and ni.name not in used_names and base_name not in used_names:
                        chk.count("G10-unused-binding")
                        chk.fail("G10-unused-binding", f"{label}::{r.name}#alt{i}:{ni.name}", str(a.pos),
                                 f"`{r.name}` binds `{ni.name}` but its action does not use it: the generator only binds the names an "
                                 f"action uses, so this method is not what the generator emits for the grammar (a hand edit of the "
                                 f"return line only)")
            for node in ast.walk(a.action):
                if isinstance(node, ast.Name) and isinstance(node.ctx, ast.Load):
                    chk.count(f"{label}.action_names")
                    if node.id not in provided and node.id not in local:
                        chk.fail("G9-unbound-name", f"{label}::{r.name}#alt{i}:{node.id}", str(a.pos),
                                 f"action refers to `{node.id}` which is neither a capture of the alternative nor "
                                 f"imported by the module header (NameError when the alternative matches)")


def run(chk: Check):
    chk.explanation = (
        "Translation validation by structural comparison: an independent reader of the pegen notation turns each "
        "grammar into an IR, a reference re-statement of the generation step predicts the generated form, and a "
        "decompiler recovers the same IR from the shipped module; the two must agree per rule and per alternative "
        "(items, captures up to renaming, invalid gating, cuts, actions as ASTs, decorators from an own left-recursion "
        "analysis, keyword tables). Nothing is executed.")
    chk.trusted = ["xpverif.gramir (reader)", "xpverif.pyir (decompiler)", "xpverif.translate (reference translation)",
                   "Python ast module"]
    chk.assumptions = ["formatting, unused imports and return annotations are not compared (ASTs only)",
                       "an edit to the generator that changes what it would emit while both shipped files stay "
                       "untouched is not visible without running it (declared out of reach in DESIGN.md)"]
    x = _pair(chk, "xonsh", repo.gram_x, repo.py_x, "X", repo.GRAM_X, repo.PARSER_X)
    p = _pair(chk, "meta", repo.gram_p, repo.py_p, "P", repo.GRAM_P, repo.PARSER_P)
    gen_determinism.run(chk)
    chk.floor("xonsh.rules", 200)
    chk.floor("xonsh.alts", 500)
    chk.floor("meta.rules", 15)
    chk.floor("meta.alts", 30)
    nprog = 2
    chk.extra_cov.update({
        "programs": nprog,
        "disagreements_checked": sum(1 for o in chk.obs if o.status == "fail"),
    })
