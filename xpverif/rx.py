"""E8: regular-expression analysis on re._parser trees.

Regexes are turned into NFAs over a finite partition of the alphabet (classes induced by every literal,
range and category that occurs in the patterns under comparison).  Look-ahead assertions (positive and
negative, forward only) are handled exactly by running assertion threads next to each main thread in the
subset construction.  The language of a pattern is its *fullmatch* language with end-of-text after the
match (a trailing look-ahead sees the end of text).

Queries: emptiness (with witness), equality / inclusion (with witness), intersection emptiness, prefix-freeness,
top-level branches with their group names and (min, max) widths.  Unsupported nodes raise Unsupported.
"""
from __future__ import annotations

import re
import sys
from typing import Iterable, Optional

try:
    import re._parser as sre_parse  # type: ignore
    import re._constants as sre_c  # type: ignore
except ImportError:  # pragma: no cover - older interpreters
    import sre_parse  # type: ignore
    import sre_constants as sre_c  # type: ignore


class Unsupported(Exception):
    pass


def parse(pattern: str, flags: int = re.UNICODE):
    return sre_parse.parse(pattern, flags)


# ------------------------------------------------------------------ structure helpers
def top_branches(pattern: str) -> list[tuple[Optional[str], tuple[int, int], object]]:
    """[(group name or None, (min width, max width), subpattern)] for each top-level alternative."""
    p = parse(pattern)
    names = {v: k for k, v in p.state.groupdict.items()}
    items = list(p)
    if len(items) == 1 and items[0][0] == sre_c.BRANCH:
        alts = items[0][1][1]
    else:
        alts = [p]
    out = []
    for a in alts:
        its = list(a)
        name = None
        if len(its) == 1 and its[0][0] == sre_c.SUBPATTERN:
            gid = its[0][1][0]
            name = names.get(gid)
        out.append((name, a.getwidth(), a))
    return out


def width(pattern: str) -> tuple[int, int]:
    return parse(pattern).getwidth()


def normalised_tree(pattern: str):
    """Parse tree with capture groups erased and trivially nested sequences flattened (so `(?:x)` == `(x)`)."""
    def norm_seq(seq):
        out = []
        for op, av in seq:
            if op == sre_c.SUBPATTERN:
                gid, add, dele, sub = av
                if add or dele:
                    raise Unsupported("inline flags")
                inner = norm_seq(sub)
                if len(inner) == 1 or all(x[0] != "BRANCH" for x in inner):
                    out.extend(inner)
                else:
                    out.append(("GROUP", tuple(inner)))
            elif op == sre_c.BRANCH:
                branches = tuple(tuple(norm_seq(b)) for b in av[1])
                out.append(("BRANCH", branches))
            elif op in (sre_c.MAX_REPEAT, sre_c.MIN_REPEAT):
                lo, hi, sub = av
                out.append((str(op), lo, int(hi) if hi != sre_c.MAXREPEAT else "inf", tuple(norm_seq(sub))))
            elif op in (sre_c.ASSERT, sre_c.ASSERT_NOT):
                out.append((str(op), av[0], tuple(norm_seq(av[1]))))
            elif op == sre_c.IN:
                out.append(("IN", tuple(sorted((str(o), str(a)) for o, a in av))))
            else:
                out.append((str(op), str(av)))
        return out
    return tuple(norm_seq(parse(pattern)))


# ------------------------------------------------------------------ alphabet
SAMPLES_NON_ASCII = ["é", "×", "٣", "€", "中", " ", " ", "́", "\U0001f600", " ", "²",
                     "ª", "Ⅰ", "\u0085", "\u001c", " "]


class Alphabet:
    """Partition of the code points by every atomic predicate used in the given patterns."""

    def __init__(self, patterns: Iterable[str], exhaustive: bool = False):
        self.atoms: list[tuple] = []  # ("lit", c) / ("range", lo, hi) / ("cat", name)
        seen = set()
        for p in patterns:
            for a in self._collect(parse(p)):
                if a not in seen:
                    seen.add(a)
                    self.atoms.append(a)
        self._cat_re = {
            "CATEGORY_WORD": re.compile(r"\w"), "CATEGORY_DIGIT": re.compile(r"\d"), "CATEGORY_SPACE": re.compile(r"\s"),
        }
        reps: dict[tuple, str] = {}
        if exhaustive:
            points = [c for c in range(0x110000) if not (0xD800 <= c <= 0xDFFF)]
        else:
            pts = set(range(0x100)) | {ord(s) for s in SAMPLES_NON_ASCII}
            for a in self.atoms:
                if a[0] == "lit":
                    pts |= {a[1] - 1, a[1], a[1] + 1}
                elif a[0] == "range":
                    pts |= {a[1] - 1, a[1], a[2], a[2] + 1}
            points = sorted(c for c in pts if 0 <= c < 0x110000 and not (0xD800 <= c <= 0xDFFF))
        for c in points:
            ch = chr(c)
            sig = self.signature(ch)
            if sig not in reps:
                reps[sig] = ch
        self.classes: list[str] = list(reps.values())  # representative char per class
        self.sigs: list[tuple] = list(reps.keys())
        self.exhaustive = exhaustive

    def _collect(self, seq):
        for op, av in seq:
            if op in (sre_c.LITERAL, sre_c.NOT_LITERAL):
                yield ("lit", av)
            elif op == sre_c.ANY:
                yield ("lit", 10)
            elif op == sre_c.IN:
                for o, a in av:
                    if o == sre_c.LITERAL:
                        yield ("lit", a)
                    elif o == sre_c.RANGE:
                        yield ("range", a[0], a[1])
                    elif o == sre_c.CATEGORY:
                        yield ("cat", self._base_cat(a))
            elif op == sre_c.BRANCH:
                for b in av[1]:
                    yield from self._collect(b)
            elif op == sre_c.SUBPATTERN:
                yield from self._collect(av[3])
            elif op == getattr(sre_c, "ATOMIC_GROUP", None):
                yield from self._collect(av)
            elif op in (sre_c.MAX_REPEAT, sre_c.MIN_REPEAT):
                yield from self._collect(av[2])
            elif op in (sre_c.ASSERT, sre_c.ASSERT_NOT):
                yield from self._collect(av[1])

    @staticmethod
    def _base_cat(cat) -> str:
        s = str(cat)
        for base in ("WORD", "DIGIT", "SPACE"):
            if base in s:
                return "CATEGORY_" + base
        raise Unsupported(f"category {s}")

    def signature(self, ch: str) -> tuple:
        out = []
        c = ord(ch)
        for a in self.atoms:
            if a[0] == "lit":
                out.append(c == a[1])
            elif a[0] == "range":
                out.append(a[1] <= c <= a[2])
            else:
                out.append(bool(self._cat_re[a[1]].match(ch)))
        return tuple(out)

    def classes_of_set(self, op, av) -> frozenset:
        """Class ids matched by a single-character node."""
        out = set()
        for i, ch in enumerate(self.classes):
            if self._matches(op, av, ch):
                out.add(i)
        return frozenset(out)

    def _matches(self, op, av, ch: str) -> bool:
        c = ord(ch)
        if op == sre_c.LITERAL:
            return c == av
        if op == sre_c.NOT_LITERAL:
            return c != av
        if op == sre_c.ANY:
            return ch != "\n"
        if op == sre_c.IN:
            items = list(av)
            neg = bool(items) and items[0][0] == sre_c.NEGATE
            if neg:
                items = items[1:]
            hit = False
            for o, a in items:
                if o == sre_c.LITERAL and c == a:
                    hit = True
                elif o == sre_c.RANGE and a[0] <= c <= a[1]:
                    hit = True
                elif o == sre_c.CATEGORY:
                    base = self._base_cat(a)
                    m = bool(self._cat_re[base].match(ch))
                    if "NOT" in str(a):
                        m = not m
                    hit = hit or m
            return hit != neg
        raise Unsupported(str(op))

    def show(self, word: tuple) -> str:
        return "".join(self.classes[i] for i in word)


# ------------------------------------------------------------------ NFA with assertion edges
class NFA:
    def __init__(self):
        self.eps: list[list[int]] = []
        self.sym: list[list[tuple[frozenset, int]]] = []
        self.asserts: list[list[tuple[bool, "NFA", int, int, int]]] = []  # (positive, sub nfa, sub start, sub accept, dst)
        self.ends: list[list[int]] = []  # \Z edges: passable only at end of text
        self.start = self.new()
        self.accept = self.new()

    def new(self) -> int:
        self.eps.append([])
        self.sym.append([])
        self.asserts.append([])
        self.ends.append([])
        return len(self.eps) - 1


def build(pattern: str, alpha: Alphabet) -> NFA:
    n = NFA()
    _seq(n, alpha, parse(pattern), n.start, n.accept)
    return n


def _seq(n: NFA, alpha: Alphabet, seq, s: int, t: int):
    cur = s
    items = list(seq)
    for i, (op, av) in enumerate(items):
        nxt = t if i == len(items) - 1 else n.new()
        _node(n, alpha, op, av, cur, nxt)
        cur = nxt
    if not items:
        n.eps[s].append(t)


def _node(n: NFA, alpha: Alphabet, op, av, s: int, t: int):
    if op in (sre_c.LITERAL, sre_c.NOT_LITERAL, sre_c.ANY, sre_c.IN):
        n.sym[s].append((alpha.classes_of_set(op, av), t))
    elif op == sre_c.SUBPATTERN:
        if av[1] or av[2]:
            raise Unsupported("inline flags")
        _seq(n, alpha, av[3], s, t)
    elif op == getattr(sre_c, "ATOMIC_GROUP", None):
        # an atomic group gives up some of the matches of the plain group (no backtracking into it): read as the plain group,
        # the language is over-approximated — sound for "no word of this kind is matched", a witness may be spurious
        _seq(n, alpha, av, s, t)
    elif op == sre_c.BRANCH:
        for b in av[1]:
            _seq(n, alpha, b, s, t)
    elif op in (sre_c.MAX_REPEAT, sre_c.MIN_REPEAT):
        lo, hi, sub = av
        cur = s
        for _ in range(lo):
            nx = n.new()
            _seq(n, alpha, sub, cur, nx)
            cur = nx
        if hi == sre_c.MAXREPEAT:
            loop = n.new()
            n.eps[cur].append(loop)
            body_end = n.new()
            _seq(n, alpha, sub, loop, body_end)
            n.eps[body_end].append(loop)
            n.eps[loop].append(t)
        else:
            n.eps[cur].append(t)
            for _ in range(hi - lo):
                nx = n.new()
                _seq(n, alpha, sub, cur, nx)
                n.eps[nx].append(t)
                cur = nx
    elif op in (sre_c.ASSERT, sre_c.ASSERT_NOT):
        direction, sub = av
        if direction != 1:
            raise Unsupported("look-behind")
        subn = NFA()
        _seq(subn, alpha, sub, subn.start, subn.accept)
        n.asserts[s].append((op == sre_c.ASSERT, subn, subn.start, subn.accept, t))
    elif op == sre_c.AT:
        if av in (sre_c.AT_END_STRING, sre_c.AT_END):
            n.ends[s].append(t)
        elif av in (sre_c.AT_BEGINNING, sre_c.AT_BEGINNING_STRING):
            n.eps[s].append(t)  # patterns are matched at a position: treated as start
        else:
            raise Unsupported(f"anchor {av}")
    else:
        raise Unsupported(f"regex node {op}")


# ------------------------------------------------------------------ configurations
# A configuration is (main state, frozenset of obligations).  An obligation is (positive, id of the sub-machine, state of
# that sub-machine), where a sub-machine state is itself a frozenset of configurations: look-aheads nest.
class Machine:
    def __init__(self, nfa: NFA, nclasses: int):
        self.n = nfa
        self.k = nclasses
        self.subs: dict[int, "Machine"] = {}

    def sub(self, nfa: NFA) -> "Machine":
        m = self.subs.get(id(nfa))
        if m is None:
            m = Machine(nfa, self.k)
            self.subs[id(nfa)] = m
        return m

    def _lookup(self, sid: int) -> "Machine":
        if sid in self.subs:
            return self.subs[sid]
        for m in self.subs.values():
            try:
                return m._lookup(sid)
            except KeyError:
                pass
        raise KeyError(sid)

    # -- resolving obligations -------------------------------------------------------------------------------------------
    def _resolve(self, obs: frozenset) -> list:
        """Given a set of obligations, return the alternative obligation sets after discharging whatever is already
        decided: a positive one whose sub-machine has an accepting configuration may be replaced by that configuration's own
        pending obligations; a negative one with an unconditional accept kills the alternative (returns [])."""
        alts = [frozenset()]
        for ob in obs:
            positive, sid, st = ob
            sm = self._lookup(sid)
            acc = [o for q, o in st if q == sm.n.accept]
            nxt = []
            if positive:
                choices = [frozenset([ob])] if any(True for q, o in st if q != sm.n.accept or True) else []
                # keep waiting (only useful if some configuration can still move)
                movable = any(sm.n.sym[q] for q, o in st)
                choices = ([frozenset([ob])] if movable else []) + [frozenset(o) for o in acc]
                if not choices:
                    return []
                for a in alts:
                    for c in choices:
                        nxt.append(a | c)
            else:
                if any(not o for o in acc):
                    return []
                if acc:
                    raise Unsupported("negative look-ahead whose body ends in a nested look-ahead")
                live = frozenset((q, o) for q, o in st)
                if not live:
                    nxt = alts  # can never match: satisfied
                else:
                    nxt = [a | frozenset([ob]) for a in alts]
            alts = nxt
        # de-duplicate
        return list(dict.fromkeys(alts))

    def closure(self, configs: Iterable[tuple], at_end: bool = False) -> frozenset:
        out = set()
        todo = list(configs)
        while todo:
            q, obs = todo.pop()
            if (q, obs) in out:
                continue
            out.add((q, obs))
            for r in self.n.eps[q]:
                todo.append((r, obs))
            if at_end:
                for r in self.n.ends[q]:
                    todo.append((r, obs))
            for positive, subn, ss, sa, dst in self.n.asserts[q]:
                sm = self.sub(subn)
                st = sm.closure([(ss, frozenset())])
                for alt in self._resolve(frozenset([(positive, id(subn), st)])):
                    todo.append((dst, obs | alt))
        return frozenset(out)

    def start(self) -> frozenset:
        return self.closure([(self.n.start, frozenset())])

    def _step_obs(self, obs: frozenset, c: int) -> list:
        """Advance every obligation by one symbol; returns the alternative obligation sets (possibly none)."""
        moved = set()
        for positive, sid, st in obs:
            sm = self._lookup(sid)
            nst = sm.step(st, c)
            if not nst:
                if positive:
                    return []
                continue  # negative: can no longer match
            moved.add((positive, sid, nst))
        return self._resolve(frozenset(moved))

    def step(self, state: frozenset, c: int) -> frozenset:
        nxt = []
        for q, obs in state:
            targets = [r for cls, r in self.n.sym[q] if c in cls]
            if not targets:
                continue
            for alt in self._step_obs(obs, c):
                for r in targets:
                    nxt.append((r, alt))
        return self.closure(nxt)

    def _obs_ok_at_end(self, obs: frozenset) -> bool:
        for positive, sid, st in obs:
            sm = self._lookup(sid)
            hit = sm.accepting(st)
            if positive != hit:
                return False
        return True

    def accepting(self, state: frozenset) -> bool:
        """At end of text: the main thread accepts (\\Z edges passable), pending positive look-aheads must accept on the
        empty rest, pending negative ones must not."""
        for q, obs in self.closure(state, at_end=True):
            if q == self.n.accept and self._obs_ok_at_end(obs):
                return True
        return False


def explore(machines: list[Machine], limit: int = 200000):
    """BFS over the product of deterministic machines; yields (word, states)."""
    k = machines[0].k
    start = tuple(m.start() for m in machines)
    seen = {start}
    queue = [((), start)]
    i = 0
    while i < len(queue):
        word, st = queue[i]
        i += 1
        yield word, st
        for c in range(k):
            nx = tuple(m.step(s, c) for m, s in zip(machines, st))
            if all(not s for s in nx):
                continue
            if nx not in seen:
                seen.add(nx)
                if len(seen) > limit:
                    raise Unsupported("state space too large")
                queue.append((word + (c,), nx))


class Analysis:
    def __init__(self, patterns: dict[str, str], exhaustive: bool = False):
        self.patterns = patterns
        self.alpha = Alphabet(patterns.values(), exhaustive)
        self.m = {k: Machine(build(p, self.alpha), len(self.alpha.classes)) for k, p in patterns.items()}

    def witness_difference(self, a: str, b: str) -> Optional[tuple[str, bool, bool]]:
        """A word accepted by exactly one of the two patterns, or None if the languages are equal."""
        ma, mb = self.m[a], self.m[b]
        for word, (sa, sb) in explore([ma, mb]):
            xa, xb = ma.accepting(sa), mb.accepting(sb)
            if xa != xb:
                return self.alpha.show(word), xa, xb
        return None

    def witness_intersection(self, names: list[str]) -> Optional[str]:
        ms = [self.m[n] for n in names]
        for word, sts in explore(ms):
            if all(m.accepting(s) for m, s in zip(ms, sts)):
                return self.alpha.show(word)
        return None

    def witness_accept(self, a: str) -> Optional[str]:
        return self.witness_intersection([a])

    def witness_not_prefix_free(self, a: str) -> Optional[tuple[str, str]]:
        """(u, uv) both accepted with v non-empty."""
        m = self.m[a]
        for word, (s,) in explore([m]):
            if m.accepting(s):
                # can we extend?
                for w2, (s2,) in _explore_from(m, s):
                    if w2 and m.accepting(s2):
                        return self.alpha.show(word), self.alpha.show(word + w2)
        return None

    def states(self) -> int:
        return sum(1 for _ in explore(list(self.m.values())))


def _explore_from(m: Machine, start):
    seen = {start}
    queue = [((), start)]
    i = 0
    while i < len(queue):
        word, st = queue[i]
        i += 1
        yield word, (st,)
        for c in range(m.k):
            nx = m.step(st, c)
            if nx and nx not in seen:
                seen.add(nx)
                queue.append((word + (c,), nx))


# ------------------------------------------------------------------ ambiguity (catastrophic backtracking)
def _plain_edges(n: NFA):
    """Symbol and epsilon edges of an NFA, look-aheads treated as epsilon (an over-approximation of the paths)."""
    eps = [list(x) for x in n.eps]
    for q in range(len(n.eps)):
        for positive, sub, ss, sa, dst in n.asserts[q]:
            eps[q].append(dst)
        for dst in n.ends[q]:
            eps[q].append(dst)
    return eps, n.sym


def exponential_ambiguity(pattern: str, alpha: Optional[Alphabet] = None, limit: int = 400000) -> Optional[tuple[str, str]]:
    """EDA test (Weber & Seidl): a backtracking matcher can take exponential time on a pattern iff its NFA has a state q and
    a word v with two *different* paths q -v-> q.  Searched on the product A x A with a flag "the two paths have differed":
    from (q, q, same) reach (q, q, differed).  Different epsilon routes to the same symbol edge count as different paths.
    Returns (a state description, a pumping word) or None."""
    alpha = alpha or Alphabet([pattern])
    n = build(pattern, alpha)
    eps, sym = _plain_edges(n)
    N = len(eps)
    # number of distinct epsilon paths q ~> q2 (capped at 2; epsilon cycles count as "many")
    def eps_paths(s):
        cnt = {s: 1}
        order = []
        # DFS with path counting on the epsilon graph; a back edge (cycle) makes every state on it "many"
        color = {}
        many = set()

        def dfs(v, stack):
            color[v] = 1
            for w in eps[v]:
                if color.get(w) == 1:
                    many.update(stack[stack.index(w):] if w in stack else [])
                    many.add(w)
                elif w not in color:
                    dfs(w, stack + [w])
            color[v] = 2
            order.append(v)

        dfs(s, [s])
        cnt = {v: 0 for v in order}
        cnt[s] = 1
        for v in reversed(order):
            for w in eps[v]:
                if w in cnt and color.get(w) == 2 and w != v:
                    cnt[w] = min(2, cnt[w] + cnt[v]) if order.index(w) < order.index(v) else cnt[w]
        for m in many:
            if m in cnt:
                cnt[m] = 2
        return {v: max(1, c) for v, c in cnt.items()}

    K = len(alpha.classes)
    routes: list[dict[int, list]] = [dict() for _ in range(N)]
    for q in range(N):
        ep = eps_paths(q)
        for q2, mult in ep.items():
            for ei, (cls, r) in enumerate(sym[q2]):
                for c in cls:
                    for m in range(mult):
                        routes[q].setdefault(c, []).append(((q2, ei, m), r))
    useful = [q for q in range(N) if routes[q]]

    def succ(node):
        a, b, d = node
        for c in range(K):
            ra, rb = routes[a].get(c, ()), routes[b].get(c, ())
            if not ra or not rb:
                continue
            for ida, x in ra:
                for idb, y in rb:
                    d2 = d or x != y or (a == b and ida != idb)
                    yield c, (x, y, d2)

    for q in useful:
        start = (q, q, False)
        seen = {start: ()}
        queue = [start]
        i = 0
        while i < len(queue):
            nd = queue[i]
            i += 1
            for c, nx in succ(nd):
                if nx == (q, q, True):
                    return (f"state {q}", alpha.show(seen[nd] + (c,)))
                if nx not in seen:
                    seen[nx] = seen[nd] + (c,)
                    queue.append(nx)
                    if len(seen) > limit:
                        raise Unsupported("ambiguity search too large")
    return None
