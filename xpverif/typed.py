"""One shared run of the abstract interpreter; obligations aggregated per (rule, key) keeping the worst status."""
from __future__ import annotations

import functools

from .absint import Interp

ORDER = {"ok": 0, "undecided": 1, "fail": 2}


class TypedRun:
    def __init__(self):
        self.agg: dict[tuple[str, str], tuple[str, str, str]] = {}
        self.interp = Interp(self._emit)
        self.interp.solve()

    def _emit(self, rule, key, status, where, detail):
        k = (rule, key)
        cur = self.agg.get(k)
        if cur is None or ORDER[status] > ORDER[cur[0]]:
            self.agg[k] = (status, where, detail)

    def feed(self, chk, rules: dict[str, str], pred=None):
        """Copy obligations of the given absint rule families into a Check, renaming rule ids."""
        for (rule, key), (status, where, detail) in sorted(self.agg.items()):
            if rule not in rules:
                continue
            if pred is not None and not pred(rule, key, detail):
                continue
            out_rule = rules[rule]
            chk.count(out_rule)
            if status == "ok":
                chk.ok(out_rule, key, where)
            elif status == "fail":
                chk.fail(out_rule, key, where, detail)
            else:
                chk.undecided(out_rule, key, where, detail)


@functools.lru_cache(None)
def run() -> TypedRun:
    return TypedRun()
