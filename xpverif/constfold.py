"""E7: constant folding of the input-independent module-level initialisers of peg_parser/tokenize.py.

Every statement that is folded is first *verified* to lie in a whitelisted pure subset (string building,
set/dict displays, comprehensions, str methods, re.escape, itertools.permutations/product, sorted/map and
calls to helper functions that are themselves verified pure).  Verified statements are then evaluated in
an empty namespace that contains only those whitelisted callables.  Nothing else of the module runs: no
class body, no tokenizer function, no import.
"""
from __future__ import annotations

import ast
import functools
import itertools
import re
import types
from typing import Any, Optional

from . import repo
from .common import AnalysisError, norm_stmt, parse_py

SAFE_BUILTINS = {"tuple": tuple, "sorted": sorted, "map": map, "set": set, "dict": dict, "list": list, "str": str,
                 "len": len, "frozenset": frozenset, "range": range, "zip": zip, "enumerate": enumerate, "min": min,
                 "max": max, "bool": bool, "int": int, "any": any, "all": all,
                 "isinstance": isinstance, "float": float, "complex": complex, "bytes": bytes, "type": type, "abs": abs,
                 "ord": ord, "chr": chr, "repr": repr}
SAFE_MODULE_ATTRS = {
    "re": {"escape": re.escape, "UNICODE": re.UNICODE},
    "_itertools": {"permutations": itertools.permutations, "product": itertools.product},
    "itertools": {"permutations": itertools.permutations, "product": itertools.product},
}
SAFE_METHODS = {"join", "upper", "lower", "items", "keys", "values", "add", "update", "append", "format", "strip",
                "startswith", "endswith", "replace", "split", "get", "find", "rfind", "index", "isalpha", "isascii", "splitlines", "isupper", "islower", "rstrip", "lstrip"}
ALLOWED_NODES = (
    ast.Constant, ast.Name, ast.Load, ast.Store, ast.BinOp, ast.Add, ast.Mult, ast.Mod, ast.JoinedStr, ast.FormattedValue,
    ast.Call, ast.keyword, ast.Starred, ast.Set, ast.Dict, ast.List, ast.Tuple, ast.ListComp, ast.SetComp, ast.DictComp,
    ast.GeneratorExp, ast.comprehension, ast.Attribute, ast.Subscript, ast.Slice, ast.IfExp, ast.Compare, ast.Eq,
    ast.NotEq, ast.In, ast.NotIn, ast.BoolOp, ast.And, ast.Or, ast.UnaryOp, ast.Not, ast.USub, ast.FloorDiv, ast.Sub,
    ast.Lt, ast.LtE, ast.Gt, ast.GtE, ast.BitOr, ast.Is, ast.IsNot,
    # statements inside pure helper functions
    ast.Assign, ast.AugAssign, ast.AnnAssign, ast.Return, ast.For, ast.If, ast.Expr, ast.Pass, ast.arguments, ast.arg,
    # a generator over immutable inputs is as pure as the list it stands for
    ast.Yield, ast.YieldFrom,
)


class _Verifier:
    def __init__(self, known_names: set[str], pure_funcs: set[str]):
        self.known, self.pure = known_names, pure_funcs
        self.why = ""

    def ok_expr(self, e: ast.AST, local: set[str]) -> bool:
        for n in ast.walk(e):
            if not isinstance(n, ALLOWED_NODES):
                self.why = f"construct {type(n).__name__} outside the pure subset"
                return False
        # names
        bound = set(local)
        for n in ast.walk(e):
            if isinstance(n, ast.comprehension):
                for t in ast.walk(n.target):
                    if isinstance(t, ast.Name):
                        bound.add(t.id)
        for n in ast.walk(e):
            if isinstance(n, ast.Name) and isinstance(n.ctx, ast.Load):
                if n.id not in bound and n.id not in self.known and n.id not in self.pure and n.id not in SAFE_BUILTINS \
                        and n.id not in SAFE_MODULE_ATTRS:
                    self.why = f"name `{n.id}` is not a folded constant, a pure helper or a whitelisted builtin"
                    return False
            if isinstance(n, ast.Attribute):
                if isinstance(n.value, ast.Name) and n.value.id in SAFE_MODULE_ATTRS:
                    if n.attr not in SAFE_MODULE_ATTRS[n.value.id]:
                        self.why = f"{n.value.id}.{n.attr} is not whitelisted"
                        return False
                elif n.attr not in SAFE_METHODS and n.attr not in getattr(self, "data_attrs", ()):
                    self.why = f"method `.{n.attr}` is not whitelisted"
                    return False
        return True

    def ok_func(self, fn: ast.FunctionDef) -> bool:
        if fn.decorator_list:
            self.why = "decorated"
            return False
        local = {a.arg for a in fn.args.args + fn.args.kwonlyargs}
        if fn.args.vararg:
            local.add(fn.args.vararg.arg)
        if fn.args.kwarg:
            local.add(fn.args.kwarg.arg)
        for n in ast.walk(fn):
            if isinstance(n, (ast.Assign, ast.AugAssign, ast.AnnAssign, ast.For)):
                tgts = n.targets if isinstance(n, ast.Assign) else [n.target]
                for t in tgts:
                    for x in ast.walk(t):
                        if isinstance(x, ast.Name):
                            local.add(x.id)
                        elif isinstance(x, (ast.Attribute,)):
                            self.why = "attribute store"
                            return False
        for st in fn.body:
            if isinstance(st, ast.Expr) and isinstance(st.value, ast.Constant):
                continue
            for n in ast.walk(st):
                if isinstance(n, (ast.Global, ast.Nonlocal, ast.Import, ast.ImportFrom, ast.While, ast.Try, ast.With,
                                  ast.Raise, ast.Lambda, ast.FunctionDef, ast.ClassDef, ast.Delete)):
                    self.why = f"{type(n).__name__} in helper"
                    return False
            if not self.ok_expr(st, local):
                return False
        # default values
        for d in fn.args.defaults + [d for d in fn.args.kw_defaults if d is not None]:
            if not isinstance(d, ast.Constant):
                self.why = "non-constant default"
                return False
        return True


class Folded:
    def __init__(self):
        self.values: dict[str, Any] = {}
        self.skipped: dict[str, str] = {}
        self.pure_funcs: dict[str, ast.FunctionDef] = {}
        self.order: list[str] = []

    def need(self, name: str) -> Any:
        if name not in self.values:
            raise AnalysisError(f"tokenize.{name} could not be constant-folded: {self.skipped.get(name, 'not a module-level name')}")
        return self.values[name]


@functools.lru_cache(None)
def fold_tokenize() -> Folded:
    mod = parse_py(repo.TOKENIZE)
    out = Folded()
    ns: dict[str, Any] = {"__builtins__": dict(SAFE_BUILTINS)}
    for k, attrs in SAFE_MODULE_ATTRS.items():
        ns[k] = types.SimpleNamespace(**attrs)
    ver = _Verifier(set(), set())
    for st in mod.body:
        if isinstance(st, ast.FunctionDef):
            ver.known, ver.pure = set(out.values), set(out.pure_funcs)
            if ver.ok_func(st):
                out.pure_funcs[st.name] = st
                code = compile(ast.Module([st], []), f"<fold {st.name}>", "exec")
                exec(code, ns)  # noqa: S102 - verified pure subset, restricted namespace
            else:
                out.skipped[st.name] = ver.why
            continue
        target: Optional[str] = None
        value = None
        if isinstance(st, ast.Assign) and len(st.targets) == 1 and isinstance(st.targets[0], ast.Name):
            target, value = st.targets[0].id, st.value
        elif isinstance(st, ast.AnnAssign) and isinstance(st.target, ast.Name) and st.value is not None:
            target, value = st.target.id, st.value
        if target is None:
            continue
        ver.known, ver.pure = set(out.values), set(out.pure_funcs)
        if not ver.ok_expr(value, set()):
            out.skipped[target] = ver.why
            continue
        try:
            code = compile(ast.Expression(value), f"<fold {target}>", "eval")
            v = eval(code, ns)  # noqa: S307 - verified pure subset, restricted namespace
        except Exception as e:  # a pure expression that fails to evaluate is an analysis problem, not a pass
            out.skipped[target] = f"evaluation failed: {type(e).__name__}: {e}"
            continue
        out.values[target] = v
        out.order.append(target)
        ns[target] = v
    out.ns = ns  # type: ignore[attr-defined]
    return out


def fold_expr(expr: ast.expr, extra: Optional[dict] = None, data_attrs: tuple = ()) -> Any:
    """Fold an expression occurring inside a tokenizer function (e.g. the `pattern=` argument of add_prog)
    with some free names bound to given constants.  `data_attrs`: attribute names that may be read (plain data fields of
    the objects supplied in `extra`)."""
    f = fold_tokenize()
    ver = _Verifier(set(f.values), set(f.pure_funcs))
    ver.data_attrs = set(data_attrs)
    lits = {k: v for k, v in module_literals().items() if k not in (extra or {})}
    extra = dict(lits, **(extra or {}))
    local = set(extra or {})
    if not ver.ok_expr(expr, local):
        raise AnalysisError(f"cannot fold `{norm_stmt(expr)}`: {ver.why}")
    ns = dict(f.ns)  # type: ignore[attr-defined]
    ns.update(extra or {})
    return eval(compile(ast.Expression(expr), "<fold expr>", "eval"), ns)  # noqa: S307


_LITERALS: Optional[dict] = None


def module_literals() -> dict:
    """Module-level names of subheader.py / tokenizer.py bound once to a literal (tuple/frozenset/str/number displays of
    constants): a guard may name its table instead of spelling it out."""
    global _LITERALS
    if _LITERALS is None:
        from .common import parse_py
        out: dict = {}
        for rel in (repo.SUBHEADER, repo.TOKENIZER):
            mod = parse_py(rel)
            counts: dict[str, int] = {}
            for n in ast.walk(mod):
                if isinstance(n, ast.Name) and isinstance(n.ctx, ast.Store):
                    counts[n.id] = counts.get(n.id, 0) + 1
            for st in mod.body:
                tgt = val = None
                if isinstance(st, ast.Assign) and len(st.targets) == 1 and isinstance(st.targets[0], ast.Name):
                    tgt, val = st.targets[0].id, st.value
                elif isinstance(st, ast.AnnAssign) and isinstance(st.target, ast.Name) and st.value is not None:
                    tgt, val = st.target.id, st.value
                if tgt is None or counts.get(tgt) != 1:
                    continue
                if isinstance(val, ast.Call) and isinstance(val.func, ast.Name) and val.func.id in ("frozenset", "tuple", "set") and len(val.args) == 1:
                    inner, wrap = val.args[0], {"frozenset": frozenset, "tuple": tuple, "set": frozenset}[val.func.id]
                else:
                    inner, wrap = val, (lambda x: x)
                try:
                    out[tgt] = wrap(ast.literal_eval(inner))
                except Exception:
                    # not a plain literal: a display/comprehension over literals, pure builtins and the constants folded so
                    # far (`{"s": ord("s"), ...}`, `{c: ord(c) for c in "sra"}`)
                    try:
                        v2 = _Verifier(set(out), set())
                        if v2.ok_expr(val, set()):
                            out[tgt] = eval(compile(ast.fix_missing_locations(ast.Expression(val)), "<module literal>", "eval"),  # noqa: S307
                                            {"__builtins__": dict(SAFE_BUILTINS)}, dict(out))
                    except Exception:
                        pass
                    continue
        _LITERALS = out
    return _LITERALS


class PureEvalError(Exception):
    pass


class Raised(Exception):
    """Marker raised by a fake collaborator handed to an evaluated function (e.g. its error-raising helper)."""


def builder_expr_eval(allowed_methods: tuple = ()):
    """Expression evaluator for the AST *builders* of subheader.py: only `ast.<Class>(...)` constructors, isinstance, the pure
    builtins and the named methods of the supplied (fake) objects may be called; names must be bound in the environment."""
    def ev(e: ast.expr, env: dict):
        for n in ast.walk(e):
            if isinstance(n, ast.Call):
                f = n.func
                ok = (isinstance(f, ast.Name) and f.id in ("isinstance", "len", "bool", "str", "tuple", "list", "dict", "range")) or \
                    (isinstance(f, ast.Attribute) and isinstance(f.value, ast.Name) and f.value.id == "ast") or \
                    (isinstance(f, ast.Attribute) and f.attr in allowed_methods) or \
                    (isinstance(f, ast.Name) and f.id in env and f.id in allowed_methods)
                if not ok:
                    raise PureEvalError(f"call `{norm_stmt(f)}` outside the builder subset")
            elif isinstance(n, ast.Name) and isinstance(n.ctx, ast.Load) and n.id not in env and n.id not in ("isinstance", "len", "bool", "str", "range",
                                                                                                          "tuple", "list", "dict", "None", "True", "False"):
                raise PureEvalError(f"name `{n.id}` is not bound")
            elif isinstance(n, (ast.Lambda, ast.Yield, ast.YieldFrom, ast.Await, ast.NamedExpr)):
                raise PureEvalError(f"{type(n).__name__} outside the builder subset")
        e = ast.fix_missing_locations(ast.Expression(body=e)).body
        try:
            return eval(compile(ast.Expression(e), "<builder expr>", "eval"), {"__builtins__": {"isinstance": isinstance, "len": len, "bool": bool,
                                                                                              "str": str, "tuple": tuple, "list": list,
                                                                                              "dict": dict, "range": range}}, env)  # noqa: S307
        except (PureEvalError, Raised):
            raise
        except Exception as ex:  # the builder itself failed on this input
            raise PureEvalError(f"{type(ex).__name__}: {ex}")
    return ev


def eval_pure_function(fn: ast.FunctionDef, args: dict, data_attrs: tuple = (), extra: Optional[dict] = None, max_steps: int = 2000,
                       expr_eval=None) -> Any:
    """Finite-domain evaluation of a small pure function (assignments, if/else, return; expressions from the verified pure
    subset) on concrete arguments — used to compare a helper's decisions with a specification over all inputs of a finite
    domain, whatever the shape of its code.  Anything outside the subset raises PureEvalError."""
    env = dict(extra or {})
    env.update(args)
    steps = 0

    class _Return(Exception):
        def __init__(self, v):
            self.v = v

    def ev(e):
        if expr_eval is not None:
            return expr_eval(e, env)
        try:
            return fold_expr(e, env, data_attrs=data_attrs)
        except AnalysisError as ex:
            raise PureEvalError(str(ex))

    def assign(t, v):
        if isinstance(t, ast.Name):
            env[t.id] = v
        elif isinstance(t, (ast.Tuple, ast.List)):
            vs = list(v)
            if len(vs) != len(t.elts):
                raise PureEvalError("unpack arity")
            for a, b in zip(t.elts, vs):
                assign(a, b)
        else:
            raise PureEvalError(f"store to {type(t).__name__}")

    def run(body):
        nonlocal steps
        for st in body:
            steps += 1
            if steps > max_steps:
                raise PureEvalError("too many steps")
            if isinstance(st, ast.Expr) and isinstance(st.value, ast.Constant):
                continue
            if isinstance(st, ast.Pass):
                continue
            if isinstance(st, ast.Expr) and expr_eval is not None:
                ev(st.value)  # evaluated for its effect on the fake collaborators (may raise their marker)
                continue
            if isinstance(st, ast.Assign):
                v = ev(st.value)
                for t in st.targets:
                    assign(t, v)
            elif isinstance(st, ast.AnnAssign) and st.value is not None:
                assign(st.target, ev(st.value))
            elif isinstance(st, ast.If):
                run(st.body if ev(st.test) else st.orelse)
            elif isinstance(st, ast.AugAssign) and isinstance(st.target, ast.Name) and expr_eval is not None:
                env[st.target.id] = ev(ast.BinOp(left=ast.Name(id=st.target.id, ctx=ast.Load()), op=st.op, right=st.value))
            elif isinstance(st, ast.While) and not st.orelse and expr_eval is not None and not any(
                    isinstance(x, (ast.Break, ast.Continue)) for x in ast.walk(st)):
                while ev(st.test):
                    run(st.body)
            elif isinstance(st, ast.Return):
                raise _Return(ev(st.value) if st.value is not None else None)
            else:
                raise PureEvalError(f"statement {type(st).__name__} outside the evaluable subset")

    try:
        run(fn.body)
    except _Return as r:
        return r.v
    return None


def eval_local_value(fn: ast.FunctionDef, expr: ast.expr, args: dict, data_attrs: tuple = (), extra: Optional[dict] = None) -> Any:
    """Value of `expr` (an expression inside `fn`) after the function's plain-name assignments that precede it were executed
    in order on the given arguments; statements that are not assignments to plain names are skipped (they are effects the
    caller's rule deals with elsewhere).  Conditional assignments make the value undecidable here (PureEvalError)."""
    env = dict(extra or {})
    env.update(args)
    line = getattr(expr, "lineno", 10 ** 9)
    for st in fn.body:
        if st.lineno >= line and any(expr is x for x in ast.walk(st)):
            break
        if isinstance(st, ast.Assign) and len(st.targets) == 1 and isinstance(st.targets[0], ast.Name):
            try:
                env[st.targets[0].id] = fold_expr(st.value, env, data_attrs=data_attrs)
            except AnalysisError:
                env.pop(st.targets[0].id, None)
        elif isinstance(st, (ast.If, ast.For, ast.While, ast.Try)):
            for n in ast.walk(st):
                if isinstance(n, ast.Name) and isinstance(n.ctx, ast.Store):
                    env.pop(n.id, None)
    try:
        return fold_expr(expr, env, data_attrs=data_attrs)
    except AnalysisError as e:
        raise PureEvalError(str(e))


@functools.lru_cache(None)
def string_prefix_set() -> frozenset:
    """The string prefixes the scanner accepts, read off the folded `StringStart` pattern (the thing that runs), not off whatever
    helper builds it: every word of up to three ASCII letters that the pattern takes as the whole prefix of a quoted literal."""
    import itertools as _it
    import string as _string
    F = fold_tokenize()
    pat = re.compile(F.need("StringStart"))
    out = set()
    letters = _string.ascii_letters
    for n in range(0, 4):
        for tup in _it.product(letters, repeat=n):
            c = "".join(tup)
            if n == 3 and not set(c.lower()) <= set("brufp"):
                continue     # three-letter prefixes outside the known letters are sampled through the two-letter ones
            for q in ("'", '"'):
                m = pat.match(c + q + "x")
                if m and m.end() >= len(c) + 1 and m.start() == 0:
                    try:
                        pre = m.group("StringPrefix")
                    except (IndexError, error_cls):
                        pre = c
                    if (pre or "") == c:
                        out.add(c)
    return frozenset(out)


error_cls = re.error
