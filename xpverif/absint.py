"""E5: abstract interpreter for grammar actions and for the helper functions they call.

Evaluates action expressions over the abstract values of absval, inlining calls to the helper
functions of peg_parser/subheader.py (and the TokenInfo methods of peg_parser/tokenize.py) with the
argument types of each call site.  Every `ast.X(...)` construction met on the way produces schema
obligations (field names, list-vs-optional, required fields, field kinds, expression contexts,
locations).  A value that is ⊤ at an obligation makes it *undecided*, never pass or fail.
"""
from __future__ import annotations

import ast
import sys
from dataclasses import replace
from typing import Any, Callable, Optional

from . import asdl, repo
from .absval import (BOOL, BOT, INT, NONE, PYCONST, SELF, STR, TOKENIZER, TOP, Const, Ctx, DictV, Iter,
                     ListV, LocInt, Node, NoneV, Obj, PosPair, Scalar, Tok, TupleV, Union, V, _Bot, _Top,
                     can_be_none, falsy, is_falsy_const, join, members, mk_union, strip, truthy,
                     without_none)
from .common import AnalysisError, norm_stmt, parse_py
from .ir import (Alt, Cut, Forced, Gather, Group, Item, Lit, Look, NamedItem, Opt, Ref, Rep, Rule)
from .ir import Tok as TokItem

LOC_KEYS = ("lineno", "col_offset", "end_lineno", "end_col_offset")
LOC_EXPECT = {"lineno": ("start", 0), "col_offset": ("start", 1), "end_lineno": ("end", 0),
              "end_col_offset": ("end", 1)}
# functions whose contract orders their location sources (confirmed by reading): the word assembler receives the tree built so
# far and the piece that follows it, and spans run from the former's start to the latter's end
NO_STARRED_HERE = {("Subscript", "slice"), ("keyword", "value"), ("Attribute", "value"), ("Call", "func"), ("Slice", "lower"),
                   ("Slice", "upper"), ("Slice", "step"), ("NamedExpr", "value"), ("IfExp", "test"), ("IfExp", "body"),
                   ("IfExp", "orelse"), ("Lambda", "body"), ("UnaryOp", "operand"), ("Compare", "left"), ("Await", "value"),
                   ("Subscript", "value"), ("DictComp", "key"), ("DictComp", "value"), ("ListComp", "elt"), ("GeneratorExp", "elt")}
ORDERED_SPAN_IDIOMS = {"Parser._append_node_or_token"}
MAX_DEPTH = 12


class Raised(Exception):
    """Abstract execution reached a `raise` on every path."""


class Frame:
    def __init__(self, sitekey: str, where: str, parent: Optional["Frame"] = None, fn: str = "", root=None):
        self.sitekey, self.where, self.parent, self.fn = sitekey, where, parent, fn
        self.root = root
        self._ord: Optional[dict] = None
        self.returns: list[V] = []
        self.yields: list[V] = []
        self.ctor_index: dict[str, int] = {}
        self.fell_off_end = False
        self.try_depth = parent.try_depth if parent else 0
        self.loops: list[dict] = []
        self.depth = (parent.depth + 1) if parent else 0

    def ordinal(self, call: ast.Call, cls: str) -> int:
        """Static ordinal of this `ast.<cls>(...)` call among those in the enclosing action/function."""
        if self._ord is None:
            self._ord = {}
            counts: dict[str, int] = {}
            if self.root is not None:
                calls = [n for n in ast.walk(self.root) if isinstance(n, ast.Call) and isinstance(n.func, ast.Attribute)
                         and isinstance(n.func.value, ast.Name) and n.func.value.id == "ast"]
                calls.sort(key=lambda n: (n.lineno, n.col_offset))
                for n in calls:
                    c = n.func.attr
                    self._ord[id(n)] = counts.get(c, 0)
                    counts[c] = counts.get(c, 0) + 1
        return self._ord.get(id(call), 0)

    def chain(self) -> str:
        out, f = [], self
        while f is not None:
            out.append(f.sitekey)
            f = f.parent
        return " <- ".join(out)


class Interp:
    def __init__(self, emit: Optional[Callable] = None):
        self.emit_cb = emit
        self.emitting = False
        self.sub = parse_py(repo.SUBHEADER)
        self.tkz = parse_py(repo.TOKENIZE)
        self.funcs: dict[str, ast.FunctionDef] = {}
        self.static: set[str] = set()
        parser_cls = repo.find_class(self.sub, "Parser")
        for n in parser_cls.body:
            if isinstance(n, ast.FunctionDef):
                self.funcs["Parser." + n.name] = n
                if any(isinstance(d, ast.Name) and d.id == "staticmethod" for d in n.decorator_list):
                    self.static.add("Parser." + n.name)
        for n in self.sub.body:
            if isinstance(n, ast.FunctionDef):
                self.funcs[n.name] = n
        tokinfo = repo.find_class(self.tkz, "TokenInfo")
        for n in tokinfo.body:
            if isinstance(n, ast.FunctionDef):
                self.funcs["TokenInfo." + n.name] = n
        self.module_consts: dict[str, V] = {}
        for n in self.sub.body:
            if isinstance(n, ast.Assign) and len(n.targets) == 1 and isinstance(n.targets[0], ast.Name):
                t = n.targets[0].id
                if isinstance(n.value, ast.Call) and ast.unparse(n.value) in ("ast.Load()", "ast.Store()", "ast.Del()"):
                    self.module_consts[t] = Ctx(ast.unparse(n.value.func).split(".")[1])
                elif isinstance(n.value, ast.Constant) and isinstance(n.value.value, str) and \
                        sum(1 for m in ast.walk(self.sub) if isinstance(m, ast.Name) and m.id == t and not isinstance(m.ctx, ast.Load)) == 1:
                    self.module_consts[t] = Const(n.value.value)      # a module-level string bound once: a named literal
        self.ir = repo.ir_x()
        self.never_emitted = repo.never_emitted_token_kinds()
        self.rule_types: dict[str, V] = {}
        self.memo: dict[Any, V] = {}
        self.unsupported: dict[str, int] = {}
        self.summary_uses: dict[str, int] = {}
        self.in_progress: set = set()
        self.ctor_sites: dict[str, int] = {}
        self.alt_dead: set[str] = set()
        self.ctor_hook = None

    # ------------------------------------------------------------------ obligations
    def emit(self, rule: str, key: str, status: str, where: str, detail: str = ""):
        if self.emitting and self.emit_cb:
            self.emit_cb(rule, key, status, where, detail)

    def unsupp(self, what: str):
        self.unsupported[what] = self.unsupported.get(what, 0) + 1

    # ------------------------------------------------------------------ grammar level
    def solve(self, max_rounds: int = 4000):
        from .ir import walk_alt_items
        rules = self.ir.rules
        users: dict[str, set[str]] = {n: set() for n in rules}
        for r in rules.values():
            for a in r.alts:
                for it in walk_alt_items(a):
                    if isinstance(it, Ref) and it.name in users:
                        users[it.name].add(r.name)
        for n in rules:
            self.rule_types[n] = BOT
        order = list(rules)
        pending = set(order)
        queue = list(order)
        rounds = 0
        while queue:
            rounds += 1
            if rounds > max_rounds:
                raise AnalysisError("rule type fixpoint did not converge")
            n = queue.pop(0)
            pending.discard(n)
            self.memo.clear()
            t = strip(self.rule_type(rules[n]))
            old = self.rule_types[n]
            new = join(old, t)
            if new != old:
                self.rule_types[n] = new
                for u in sorted(users[n]):
                    if u not in pending:
                        pending.add(u)
                        queue.append(u)
        self.iterations = rounds
        # final pass with obligations on
        self.emitting = True
        self.memo.clear()
        self.final_alt_types: dict[str, V] = {}
        for r in rules.values():
            self.rule_type(r)
        self.emitting = False

    def rule_type(self, r: Rule) -> V:
        outs = []
        for i, a in enumerate(r.alts):
            key = f"{r.name}#alt{i}"
            t = self.alt_type(a, key, None)
            if self.emitting:
                self.final_alt_types[key] = t
            outs.append(truthy(t))
        return mk_union(outs)

    def alt_type(self, a: Alt, key: str, parent: Optional[Frame]) -> V:
        env: dict[str, V] = {}
        dead = False
        for j, ni in enumerate(a.items):
            t = self.item_type(ni.item, f"{key}.i{j}", parent, ni.name or "")
            # a mandatory item that can never succeed kills the alternative
            if isinstance(t, _Bot) and not isinstance(ni.item, (Opt, Look, Cut)) and not (
                    isinstance(ni.item, Rep) and ni.item.min == 0):
                dead = True
            if ni.name:
                env[ni.name] = t
        if dead:
            self.alt_dead.add(key)
            return BOT
        if a.action is None:
            return BOT
        env["_lnum"] = LocInt("peek()", "start", 0)
        env["_col"] = LocInt("peek()", "start", 1)
        fr = Frame(key, str(a.pos), parent, root=a.action)
        try:
            return self.eval(a.action, env, fr)
        except Raised:
            return BOT

    def item_type(self, it: Item, key: str, parent, label: str) -> V:
        if isinstance(it, Lit):
            return Tok(label, "lit:" + it.value)
        if isinstance(it, TokItem):
            if it.name in self.never_emitted:
                return BOT  # the tokenizer never constructs this kind: the item cannot match
            return Tok(label, it.name)
        if isinstance(it, Ref):
            return self.relabel(self.rule_types.get(it.name, BOT), label)
        if isinstance(it, Group):
            outs = []
            for k, a in enumerate(it.alts):
                outs.append(truthy(self.alt_type(a, f"{key}#alt{k}", parent)))
            return self.relabel(mk_union(outs), label)
        if isinstance(it, Opt):
            return join(self.item_type(it.item, key, parent, label), NONE)
        if isinstance(it, Rep):
            return ListV(self.item_type(it.item, key, parent, label + "[*]"), it.min == 1)
        if isinstance(it, Gather):
            return ListV(self.item_type(it.item, key, parent, label + "[*]"), True)
        if isinstance(it, Look):
            return self.item_type(it.item, key, parent, label) if it.positive else BOOL
        if isinstance(it, Forced):
            return self.item_type(it.item, key, parent, label)
        if isinstance(it, Cut):
            return Const(True)
        raise TypeError(it)

    def relabel(self, v: V, label: str) -> V:
        out = []
        for m in members(v):
            if isinstance(m, Node):
                out.append(replace(m, label=label))
            elif isinstance(m, Tok):
                out.append(replace(m, label=label))
            elif isinstance(m, ListV):
                out.append(ListV(self.relabel(m.elem, label + "[*]"), m.nonempty))
            elif isinstance(m, TupleV):
                out.append(TupleV(tuple(self.relabel(e, f"{label}[{i}]") for i, e in enumerate(m.elems))))
            else:
                out.append(m)
        if isinstance(v, _Top):
            return v
        return mk_union(out)

    # ------------------------------------------------------------------ expressions
    def eval(self, e: ast.expr, env: dict, fr: Frame) -> V:
        m = getattr(self, "e_" + type(e).__name__, None)
        if m is None:
            self.unsupp("expr:" + type(e).__name__)
            return TOP
        return m(e, env, fr)

    def e_Constant(self, e, env, fr):
        v = e.value
        if v is None:
            return NONE
        try:
            hash(v)
            return Const(v)
        except TypeError:
            return TOP

    def e_Name(self, e, env, fr):
        n = e.id
        if n in env:
            return env[n]
        if n == "self":
            return SELF
        if n in self.module_consts:
            return self.module_consts[n]
        if n in ("ast", "sys", "itertools", "textwrap", "enum"):
            return Obj("module", n)
        if n in ("TokenInfo", "Token", "Target"):
            return Obj("class", n)
        if n in self.funcs:
            return Obj("func", n)
        if n in ("None",):
            return NONE
        if n in ("Ellipsis",):
            return Const(Ellipsis)
        if n in ("isinstance", "len", "list", "str", "repr", "object", "tuple", "int", "bool", "min", "max", "bytes",
                 "range", "enumerate", "sorted", "set", "dict", "any", "all", "cast", "print", "type", "float",
                 "complex", "SyntaxError", "IndentationError", "ValueError", "KeyError", "getattr"):
            return Obj("builtin", n)
        if n == "EXPR_NAME_MAPPING":
            return DictV((), True)
        self.unsupp("name:" + n)
        return TOP

    def e_JoinedStr(self, e, env, fr):
        parts = []
        const = True
        for v in e.values:
            if isinstance(v, ast.Constant):
                parts.append([v.value])
            else:
                val = self.eval(v.value, env, fr)
                opts = []
                for m in members(val):
                    if isinstance(m, Const) and isinstance(m.value, str) and v.conversion == -1 and v.format_spec is None:
                        opts.append(m.value)
                    else:
                        const = False
                if not members(val):
                    const = False
                parts.append(opts)
        if const and all(parts):
            combos = [""]
            for opts in parts:
                combos = [c + o for c in combos for o in opts]
                if len(combos) > 16:
                    return STR
            return mk_union([Const(c) for c in combos])
        return STR

    def e_FormattedValue(self, e, env, fr):
        self.eval(e.value, env, fr)
        return STR

    def e_List(self, e, env, fr):
        elems = []
        nonempty = False
        concrete = []
        all_const = True
        for x in e.elts:
            if isinstance(x, ast.Starred):
                v = self.eval(x.value, env, fr)
                for m in members(v):
                    if isinstance(m, (ListV, Iter)):
                        elems.append(m.elem)
                        nonempty = nonempty or (isinstance(m, ListV) and m.nonempty)
                    elif isinstance(m, TupleV):
                        elems.extend(m.elems)
                    elif isinstance(m, NoneV):
                        self.note_none_iter(x, fr)
                    else:
                        elems.append(TOP)
                all_const = False
            else:
                v = self.eval(x, env, fr)
                elems.append(v)
                nonempty = True
                if isinstance(v, Const):
                    concrete.append(v.value)
                else:
                    all_const = False
        return ListV(mk_union(elems), nonempty)

    def note_none_iter(self, node, fr):
        self.emit("S0-none-iterated", f"{fr.sitekey}:{norm_stmt(node)[:60]}", "fail", fr.where,
                  "a possibly-None value is unpacked/iterated")

    def e_Tuple(self, e, env, fr):
        if any(isinstance(x, ast.Starred) for x in e.elts):
            lv = self.e_List(e, env, fr)
            return lv
        vals = tuple(self.eval(x, env, fr) for x in e.elts)
        if any(isinstance(v, _Bot) for v in vals):
            return BOT  # an element that cannot be evaluated: this path does not exist
        if all(isinstance(v, Const) for v in vals):
            return Const(tuple(v.value for v in vals))
        return TupleV(vals)

    def e_Dict(self, e, env, fr):
        d = DictV(())
        for k, v in zip(e.keys, e.values):
            val = self.eval(v, env, fr)
            if k is None:
                for m in members(val):
                    if isinstance(m, DictV):
                        for kk, vv, rr in m.items:
                            d = d.with_item(kk, vv, rr)
                        if m.open:
                            d = DictV(d.items, True)
                    else:
                        d = DictV(d.items, True)
            else:
                kv = self.eval(k, env, fr)
                if isinstance(kv, Const) and isinstance(kv.value, str):
                    d = d.with_item(kv.value, val, True)
                else:
                    d = DictV(d.items, True)
        return d

    def e_Set(self, e, env, fr):
        for x in e.elts:
            self.eval(x, env, fr)
        return TOP

    @staticmethod
    def feasible(before: dict, after: dict) -> bool:
        """A refinement that empties a variable's value set means the branch cannot be taken."""
        for k, v in after.items():
            if isinstance(v, _Bot) and k in before and not isinstance(before[k], _Bot):
                return False
        return True

    def e_IfExp(self, e, env, fr):
        t = self.eval(e.test, env, fr)
        c = self.const_truth(t)
        outs = []
        if c is not False:
            e1 = self.refine(e.test, env, True, fr)
            if self.feasible(env, e1):
                outs.append(self.eval(e.body, e1, fr))
        if c is not True:
            e2 = self.refine(e.test, env, False, fr)
            if self.feasible(env, e2):
                outs.append(self.eval(e.orelse, e2, fr))
        return mk_union(outs)

    def const_truth(self, v: V) -> Optional[bool]:
        ms = members(v)
        if not ms:
            return None
        fs = [is_falsy_const(m) for m in ms]
        if all(f is True for f in fs):
            return False
        if all(f is False for f in fs):
            return True
        return None

    def e_BoolOp(self, e, env, fr):
        if isinstance(e.op, ast.Or):
            outs = []
            cur = env
            for i, x in enumerate(e.values):
                v = self.eval(x, cur, fr)
                if i == len(e.values) - 1:
                    outs.append(v)
                else:
                    outs.append(truthy(v))
                    if self.const_truth(v) is True:
                        break
                    nxt = self.refine(x, cur, False, fr)
                    if not self.feasible(cur, nxt):
                        break
                    cur = nxt
            return mk_union(outs)
        outs = []
        cur = env
        for i, x in enumerate(e.values):
            v = self.eval(x, cur, fr)
            if i == len(e.values) - 1:
                outs.append(v)
            else:
                outs.append(falsy(v))
                if self.const_truth(v) is False:
                    break
                nxt = self.refine(x, cur, True, fr)
                if not self.feasible(cur, nxt):
                    break
                cur = nxt
        return mk_union(outs)

    def e_UnaryOp(self, e, env, fr):
        v = self.eval(e.operand, env, fr)
        if isinstance(e.op, ast.Not):
            c = self.const_truth(v)
            return Const(not c) if c is not None else BOOL
        if isinstance(v, Const) and isinstance(v.value, (int, float)) and not isinstance(v.value, bool):
            if isinstance(e.op, ast.USub):
                return Const(-v.value)
            if isinstance(e.op, ast.UAdd):
                return v
        return INT if all(isinstance(m, (Const, Scalar, LocInt)) for m in members(v)) else TOP

    def e_BinOp(self, e, env, fr):
        l = self.eval(e.left, env, fr)
        r = self.eval(e.right, env, fr)
        outs = []
        for a in members(l) or [BOT]:
            for b in members(r) or [BOT]:
                outs.append(self.binop(e.op, a, b, e, fr))
        return mk_union(outs)

    def binop(self, op, a: V, b: V, e, fr) -> V:
        if isinstance(a, _Bot) or isinstance(b, _Bot):
            return BOT
        if isinstance(a, _Top) or isinstance(b, _Top):
            return TOP
        if isinstance(op, ast.Add):
            if isinstance(a, Const) and isinstance(b, Const):
                try:
                    return Const(a.value + b.value)
                except Exception:
                    pass
            la = self.as_list(a)
            lb = self.as_list(b)
            if la is not None and lb is not None:
                return ListV(join(la.elem, lb.elem), la.nonempty or lb.nonempty)
            if isinstance(a, Const) and isinstance(a.value, tuple) and isinstance(b, TupleV):
                a = TupleV(tuple(Const(x) for x in a.value))
            if isinstance(b, Const) and isinstance(b.value, tuple) and isinstance(a, TupleV):
                b = TupleV(tuple(Const(x) for x in b.value))
            if isinstance(a, TupleV) and isinstance(b, TupleV):
                return TupleV(a.elems + b.elems)
            if self.is_str(a) and self.is_str(b):
                return STR
            if isinstance(a, LocInt) and isinstance(b, Const) and isinstance(b.value, int):
                return replace(a, adj=a.adj + b.value)
            if self.is_int(a) and self.is_int(b):
                return INT
            if isinstance(a, NoneV) or isinstance(b, NoneV) or (la is None) != (lb is None):
                self.emit("S0-bad-operand", f"{fr.sitekey}:{norm_stmt(e)[:70]}", "fail", fr.where,
                          f"`+` applied to {a!r} and {b!r}")
                return TOP
            if a == PYCONST and b == PYCONST:
                # two evaluated literals of unknown kind (str vs bytes) are added
                self.emit("E4-mixed-literal-add", f"{fr.sitekey}:{norm_stmt(e)[:70]}",
                          "ok" if (fr.try_depth > 0 or self.kind_guarded(e, fr)) else "fail", fr.where,
                          "two ast.literal_eval results are added without a same-kind check or an exception handler: "
                          "a str and a bytes literal side by side raise TypeError")
                return PYCONST
            if a == PYCONST or b == PYCONST:
                return PYCONST
            return TOP
        if isinstance(a, Const) and isinstance(b, Const):
            fn = _BIN.get(type(op))
            try:
                return Const(fn(a.value, b.value)) if fn else TOP
            except Exception:
                return TOP
        if self.is_int(a) and self.is_int(b):
            return INT
        if isinstance(op, ast.Mult) and (self.is_str(a) or self.is_str(b)):
            return STR
        if isinstance(op, ast.Mod) and self.is_str(a):
            return STR
        return TOP

    @staticmethod
    def bytes_guarded(e, fr) -> bool:
        """Some `if … isinstance(<x>.value, bytes) …: raise` precedes the construction in the same function."""
        if fr.root is None:
            return False
        for n in ast.walk(fr.root):
            if isinstance(n, ast.If) and n.lineno < getattr(e, "lineno", 0):
                hit = any(isinstance(c, ast.Call) and isinstance(c.func, ast.Name) and c.func.id == "isinstance" and len(c.args) == 2
                          and norm_stmt(c.args[1]) == "bytes" and norm_stmt(c.args[0]).endswith(".value") for c in ast.walk(n.test))
                last = n.body[-1]
                leaves = isinstance(last, ast.Raise) or (isinstance(last, ast.Expr) and isinstance(last.value, ast.Call)
                                                        and isinstance(last.value.func, ast.Attribute)
                                                        and last.value.func.attr.startswith("raise_"))
                if hit and leaves:
                    return True
        return False

    @staticmethod
    def kind_guarded(e, fr) -> bool:
        """`left + right` is preceded, in the same function, by `if <isinstance(left, bytes) vs isinstance(right, bytes)>: raise`."""
        if fr.root is None or not isinstance(e, (ast.BinOp, ast.AugAssign)):
            return False
        l, r = (e.left, e.right) if isinstance(e, ast.BinOp) else (e.target, e.value)
        want = {norm_stmt(l), norm_stmt(r)}
        for n in ast.walk(fr.root):
            if isinstance(n, ast.If) and n.lineno < e.lineno:
                tested = {norm_stmt(c.args[0]) for c in ast.walk(n.test) if isinstance(c, ast.Call)
                          and isinstance(c.func, ast.Name) and c.func.id == "isinstance" and len(c.args) == 2
                          and norm_stmt(c.args[1]) in ("bytes", "str")}
                last = n.body[-1]
                leaves = isinstance(last, ast.Raise) or (
                    isinstance(last, ast.Expr) and isinstance(last.value, ast.Call) and isinstance(last.value.func, ast.Attribute)
                    and last.value.func.attr.startswith("raise_"))
                if want <= tested and leaves:
                    return True
        return False

    @staticmethod
    def as_list(v: V) -> Optional[ListV]:
        if isinstance(v, ListV):
            return v
        if isinstance(v, Const) and isinstance(v.value, tuple):
            return ListV(mk_union([Const(x) if x is not None else NONE for x in v.value]), bool(v.value))
        return None

    @staticmethod
    def is_str(v: V) -> bool:
        return (isinstance(v, Scalar) and v.kind == "Str") or (isinstance(v, Const) and isinstance(v.value, str))

    @staticmethod
    def is_int(v: V) -> bool:
        return (isinstance(v, Scalar) and v.kind in ("Int", "Bool")) or isinstance(v, LocInt) or (
            isinstance(v, Const) and isinstance(v.value, int))

    def e_Compare(self, e, env, fr):
        l = self.eval(e.left, env, fr)
        rs = [self.eval(c, env, fr) for c in e.comparators]
        if len(rs) == 1:
            # constants (incl. sys.version_info >= (3, N), folded for the running interpreter)
            if isinstance(l, Const) and isinstance(rs[0], Const):
                fn = _CMP.get(type(e.ops[0]))
                if fn is not None:
                    try:
                        return Const(bool(fn(l.value, rs[0].value)))
                    except Exception:
                        return BOOL
            if isinstance(e.ops[0], (ast.Eq, ast.NotEq)) and isinstance(l, Obj) and isinstance(rs[0], Obj):
                a, b = (l, rs[0]) if l.kind == "tokentype" else (rs[0], l)
                if a.kind == "tokentype" and b.kind == "classattr" and b.name.startswith("Token.") and a.name \
                        and a.name.isupper() and a.name not in ("KEYWORD", "SOFT_KEYWORD", "ANY_TOKEN"):
                    same = a.name == b.name[6:]
                    return Const(same if isinstance(e.ops[0], ast.Eq) else not same)
            if isinstance(e.ops[0], (ast.Is, ast.IsNot)) and isinstance(rs[0], NoneV):
                ms = members(l)
                if ms and all(isinstance(m, NoneV) for m in ms):
                    return Const(isinstance(e.ops[0], ast.Is))
                if ms and not any(isinstance(m, (NoneV, _Top)) for m in ms):
                    return Const(isinstance(e.ops[0], ast.IsNot))
        return BOOL

    def e_Attribute(self, e, env, fr):
        pk = self.path_key(e)
        if pk is not None and pk in env:
            return env[pk]
        base = self.eval(e.value, env, fr)
        outs = []
        for m in members(base):
            outs.append(self.getattr(m, e.attr, e, fr))
        if isinstance(base, _Top):
            return TOP
        return mk_union(outs)

    def getattr(self, m: V, attr: str, e, fr) -> V:
        if isinstance(m, Tok):
            if attr == "string":
                if m.kind.startswith("lit:"):
                    return Const(m.kind[4:])  # a literal token's text is the literal
                return Scalar("Str", f"{m.label}.string")
            if attr in ("start", "end"):
                return PosPair(m.label, attr)
            if attr == "line":
                return STR
            if attr == "type":
                if m.kind.startswith("lit:"):
                    lit = m.kind[4:]
                    return Obj("tokentype", "NAME" if (lit[:1].isalpha() or lit[:1] == "_") else "OP")
                return Obj("tokentype", m.kind)
            if "TokenInfo." + attr in self.funcs:
                return Obj("method", "TokenInfo." + attr, m)
            if attr == "_replace":
                return Obj("method", "TokenInfo._replace", m)
            self.emit("S0-bad-attribute", f"{fr.sitekey}:{norm_stmt(e)[:60]}", "fail", fr.where,
                      f"attribute `{attr}` read from a token")
            return TOP
        if isinstance(m, Node):
            if attr in LOC_EXPECT:
                w, i = LOC_EXPECT[attr]
                if m.located is None and not asdl.attributes(m.cls) and asdl.signature(m.cls) is not None:
                    self.emit("S0-bad-attribute", f"{fr.sitekey}:{norm_stmt(e)[:60]}", "fail", fr.where,
                              f"location attribute `{attr}` read from ast.{m.cls}, which has none")
                return LocInt(m.label or m.cls, w, i)
            sig = asdl.signature(m.cls) if asdl.is_node_class(m.cls) else None
            if sig is not None and asdl.concrete_subclasses(m.cls):
                return TOP  # abstract base class (expr, stmt, ...): the concrete class decides
            if sig is not None:
                for f in sig:
                    if f.name == attr:
                        return self.field_abstract(f, m.cls)
                if attr == "ctx":
                    return Ctx(m.ctx) if m.ctx else TOP
                self.emit("S0-bad-attribute", f"{fr.sitekey}:{norm_stmt(e)[:60]}", "fail", fr.where,
                          f"ast.{m.cls} has no field `{attr}`")
                return TOP
            return TOP  # abstract base class: field unknown
        if isinstance(m, Obj):
            if m.kind == "module" and m.name == "ast":
                if asdl.is_node_class(attr):
                    return Obj("class", "ast." + attr)
                if attr == "literal_eval":
                    return Obj("builtin", "ast.literal_eval")
                return TOP
            if m.kind == "module" and m.name == "sys":
                if attr == "version_info":
                    return Const(tuple(sys.version_info[:3]))
                return TOP
            if m.kind == "module":
                return Obj("builtin", f"{m.name}.{attr}")
            if m.kind == "builtin":
                return Obj("builtin", f"{m.name}.{attr}")
            if m.kind == "self":
                if "Parser." + attr in self.funcs:
                    return Obj("method", "Parser." + attr, m)
                if attr == "_tokenizer":
                    return TOKENIZER
                if attr in ("py_version",):
                    return TOP
                if attr == "_path_token":
                    return mk_union([Tok("self._path_token", "FSTRING_START"), NONE])
                if attr in ("filename",):
                    return STR
                if attr in ("_verbose", "call_invalid_rules"):
                    return BOOL
                if attr in ("_level", "in_recursive_rule"):
                    return INT
                if attr in self.ir.rules or attr in self.ir.helpers:
                    return Obj("rulemethod", attr)
                return TOP
            if m.kind == "tokenizer":
                return Obj("tokmethod", attr)
            if m.kind == "class":
                return Obj("classattr", f"{m.name}.{attr}")
            return TOP
        if isinstance(m, (Scalar, Const)) and (self.is_str(m)):
            return Obj("strmethod", attr, m)
        if isinstance(m, TupleV):
            self.emit("S0-bad-attribute", f"{fr.sitekey}:{norm_stmt(e)[:60]}", "fail", fr.where,
                      f"attribute `{attr}` read from a tuple {m!r}")
            return BOT
        if isinstance(m, ListV) or (isinstance(m, Const) and isinstance(m.value, tuple)):
            return Obj("listmethod", attr, (e.value, m))
        if isinstance(m, DictV):
            return Obj("dictmethod", attr, m)
        if isinstance(m, NoneV):
            self.emit("S0-none-attribute", f"{fr.sitekey}:{norm_stmt(e)[:60]}", "fail", fr.where,
                      f"attribute `{attr}` read from a value that can be None")
            return BOT
        if isinstance(m, _Top):
            return TOP
        return TOP

    def field_abstract(self, f: asdl.Field, cls: str = "") -> V:
        if f.type in ("identifier", "string"):
            base: V = STR
        elif f.type == "int":
            base = INT
        elif f.type == "constant":
            base = PYCONST
        elif asdl.is_node_class(f.type):
            # A node read back from a Load position was checked to be Load when it was stored there
            # (S3 at its construction); binding / context-inheriting positions stay unknown.
            unknown = f.type == "expr" and ((cls, f.name) in asdl.BINDING_FIELDS or
                                            f.name in asdl.CTX_CHILDREN.get(cls, ()) or not cls)
            base = Node(f.type, None, frozenset({"?"}) if unknown else frozenset())
        else:
            base = TOP
        if f.seq:
            return ListV(base, False)
        if f.opt:
            return join(base, NONE)
        return base

    @staticmethod
    def path_key(e: ast.expr) -> Optional[str]:
        """Key for a refinable access path rooted at a local name: `name[const]`, `name.attr`, and chains of those."""
        def rec(x) -> Optional[str]:
            if isinstance(x, ast.Name):
                return x.id
            if isinstance(x, ast.Attribute):
                b = rec(x.value)
                return None if b is None else f"{b}.{x.attr}"
            if isinstance(x, ast.Subscript) and not isinstance(x.slice, ast.Slice):
                b = rec(x.value)
                if b is None:
                    return None
                idx = x.slice
                if isinstance(idx, ast.UnaryOp) and isinstance(idx.op, ast.USub) and isinstance(idx.operand, ast.Constant):
                    return f"{b}[-{idx.operand.value!r}]"
                if isinstance(idx, ast.Constant):
                    return f"{b}[{idx.value!r}]"
            return None
        if isinstance(e, ast.Name):
            return None
        r = rec(e)
        return None if r is None else "$" + r

    @staticmethod
    def drop_paths(env: dict, name: str):
        for k in [k for k in env if k.startswith(("$" + name + "[", "$" + name + ".")) or k == "@" + name]:
            del env[k]
        if env.get("?or"):
            env["?or"] = tuple(c for c in env["?or"] if not any(
                isinstance(n, ast.Name) and n.id == name for l in c for n in ast.walk(l[2])))

    def e_Subscript(self, e, env, fr):
        pk = self.path_key(e)
        if pk is not None and pk in env:
            return env[pk]
        base = self.eval(e.value, env, fr)
        if isinstance(e.slice, ast.Slice):
            for part in (e.slice.lower, e.slice.upper, e.slice.step):
                if part is not None:
                    self.eval(part, env, fr)
            outs = []
            for m in members(base):
                if self.is_str(m):
                    outs.append(STR)
                elif isinstance(m, ListV):
                    outs.append(ListV(m.elem, False))
                elif isinstance(m, Const) and isinstance(m.value, (tuple, str, bytes)):
                    lo = self.const_of(e.slice.lower, env, fr)
                    hi = self.const_of(e.slice.upper, env, fr)
                    if lo is not TOP and hi is not TOP and e.slice.step is None:
                        outs.append(Const(m.value[lo:hi]))
                    else:
                        outs.append(STR if isinstance(m.value, str) else TOP)
                else:
                    outs.append(TOP)
            return mk_union(outs) if not isinstance(base, _Top) else TOP
        idx = self.eval(e.slice, env, fr)
        outs = []
        for m in members(base):
            outs.append(self.getitem(m, idx, e, fr))
        if isinstance(base, _Top):
            return TOP
        return mk_union(outs)

    def const_of(self, node, env, fr):
        if node is None:
            return None
        v = self.eval(node, env, fr)
        if isinstance(v, Const) and isinstance(v.value, int):
            return v.value
        return TOP

    def getitem(self, m: V, idx: V, e, fr) -> V:
        if isinstance(m, PosPair):
            if isinstance(idx, Const) and idx.value in (0, 1):
                return LocInt(m.base, m.which, idx.value)
            return INT
        if isinstance(m, TupleV):
            if isinstance(idx, Const) and isinstance(idx.value, int) and -len(m.elems) <= idx.value < len(m.elems):
                return m.elems[idx.value]
            if isinstance(idx, Const):
                self.emit("S0-bad-index", f"{fr.sitekey}:{norm_stmt(e)[:60]}", "fail", fr.where,
                          f"index {idx.value!r} out of range for a {len(m.elems)}-tuple")
                return BOT
            return mk_union(m.elems)
        if isinstance(m, ListV):
            if isinstance(idx, Const) and isinstance(idx.value, int):
                if not m.nonempty and fr.parent is None and isinstance(e, ast.Subscript):
                    base = norm_stmt(e.value)
                    guarded = fr.root is not None and any(
                        (isinstance(n, ast.Call) and isinstance(n.func, ast.Name) and n.func.id == "len" and n.args
                         and norm_stmt(n.args[0]) == base) or
                        (isinstance(n, (ast.IfExp, ast.If)) and norm_stmt(n.test) == base)
                        for n in ast.walk(fr.root))
                    self.emit("S0-index-empty", f"{fr.sitekey}:{norm_stmt(e)[:60]}", "fail" if guarded else "undecided", fr.where,
                              f"`{norm_stmt(e)}` indexes a list that can be empty (IndexError)" +
                              (f": the action tests `{base}` but the test does not establish that it is non-empty here" if guarded
                               else "; nothing in the action tests it (relies on an invariant of the matched rule)"))
                el = m.elem
                return self.relabel_idx(el, idx.value)
            return m.elem
        if isinstance(m, Const) and isinstance(m.value, (tuple, str, bytes)):
            if isinstance(idx, Const) and isinstance(idx.value, int):
                try:
                    x = m.value[idx.value]
                    return NONE if x is None else Const(x)
                except Exception:
                    return BOT
            return TOP
        if isinstance(m, DictV):
            if isinstance(idx, Const):
                g = m.get(idx.value)
                if g is not None:
                    return g[0]
            return TOP
        if isinstance(m, NoneV):
            self.emit("S0-none-subscript", f"{fr.sitekey}:{norm_stmt(e)[:60]}", "fail", fr.where,
                      "subscript of a value that can be None")
            return BOT
        if isinstance(m, Scalar) and m.kind == "Str":
            return STR
        if isinstance(m, Scalar) and m.kind == "Bytes":
            return INT
        if isinstance(m, Obj) and m.kind == "class" and m.name == "Token":
            return Obj("tokentype", "")
        return TOP

    def relabel_idx(self, el: V, i: int) -> V:
        out = []
        for m in members(el):
            if isinstance(m, (Node, Tok)) and m.label.endswith("[*]"):
                out.append(replace(m, label=m.label[:-3] + f"[{i}]"))
            else:
                out.append(m)
        if isinstance(el, _Top):
            return el
        return mk_union(out)

    def e_Starred(self, e, env, fr):
        return self.eval(e.value, env, fr)

    def e_NamedExpr(self, e, env, fr):
        v = self.eval(e.value, env, fr)
        if isinstance(e.target, ast.Name):
            env[e.target.id] = v
        return v

    def e_Lambda(self, e, env, fr):
        return TOP

    def _comp(self, e, env, fr, elt_fn):
        """Shared by list/set/generator comprehensions; returns (elem type, nonempty)."""
        env = dict(env)

        def rec(gens, env):
            if not gens:
                return elt_fn(env)
            g = gens[0]
            it = self.eval(g.iter, env, fr)
            outs = []
            for m in members(it) or []:
                el: V
                if isinstance(m, (ListV, Iter)):
                    el = m.elem
                elif isinstance(m, TupleV):
                    el = mk_union(m.elems)
                elif isinstance(m, Const) and isinstance(m.value, tuple):
                    el = mk_union([Const(x) if x is not None else NONE for x in m.value])
                elif isinstance(m, NoneV):
                    self.note_none_iter(g.iter, fr)
                    continue
                elif isinstance(m, DictV):
                    el = STR
                else:
                    el = TOP
                if isinstance(el, _Bot):
                    continue
                for em in (members(el) if not isinstance(el, _Top) else [TOP]):
                    env2 = dict(env)
                    if not self.bind_target(g.target, em, env2, fr):
                        continue
                    ok = True
                    for cond in g.ifs:
                        t = self.eval(cond, env2, fr)
                        if self.const_truth(t) is False:
                            ok = False
                            break
                        env2 = self.refine(cond, env2, True, fr)
                        if env2 is None:
                            ok = False
                            break
                    if ok:
                        outs.append(rec(gens[1:], env2))
            if isinstance(it, _Top):
                env2 = dict(env)
                self.bind_target(g.target, TOP, env2, fr)
                outs.append(rec(gens[1:], env2))
            return mk_union(outs)

        return rec(e.generators, env)

    def e_ListComp(self, e, env, fr):
        el = self._comp(e, env, fr, lambda env2: self.eval(e.elt, env2, fr))
        return ListV(el, False)

    def e_GeneratorExp(self, e, env, fr):
        el = self._comp(e, env, fr, lambda env2: self.eval(e.elt, env2, fr))
        return Iter(el)

    def e_SetComp(self, e, env, fr):
        self._comp(e, env, fr, lambda env2: self.eval(e.elt, env2, fr))
        return TOP

    def e_DictComp(self, e, env, fr):
        self._comp(e, env, fr, lambda env2: TupleV((self.eval(e.key, env2, fr), self.eval(e.value, env2, fr))))
        return DictV((), True)

    def bind_target(self, target, v: V, env: dict, fr) -> bool:
        if isinstance(target, ast.Name):
            self.drop_paths(env, target.id)
            env[target.id] = v
            return True
        if isinstance(target, (ast.Tuple, ast.List)):
            n = len(target.elts)
            if isinstance(v, TupleV):
                if len(v.elems) != n:
                    self.emit("S0-unpack-arity", f"{fr.sitekey}:{norm_stmt(target)[:40]}", "fail", fr.where,
                              f"unpacking a {len(v.elems)}-tuple into {n} names")
                    return False
                for t, x in zip(target.elts, v.elems):
                    self.bind_target(t, x, env, fr)
                return True
            stars = [i for i, t in enumerate(target.elts) if isinstance(t, ast.Starred)]
            if isinstance(v, Const) and isinstance(v.value, tuple) and len(stars) == 1 and len(v.value) >= n - 1:
                i = stars[0]
                tail = n - 1 - i
                vals = list(v.value)
                mid = vals[i:len(vals) - tail]
                parts = vals[:i] + [tuple(mid)] + vals[len(vals) - tail:]
                for t, x in zip(target.elts, parts):
                    if isinstance(t, ast.Starred):
                        self.bind_target(t.value, Const(x), env, fr)
                    else:
                        self.bind_target(t, NONE if x is None else Const(x), env, fr)
                return True
            if isinstance(v, Const) and isinstance(v.value, tuple) and len(v.value) == n:
                for t, x in zip(target.elts, v.value):
                    self.bind_target(t, NONE if x is None else Const(x), env, fr)
                return True
            if isinstance(v, PosPair) and n == 2:
                self.bind_target(target.elts[0], LocInt(v.base, v.which, 0), env, fr)
                self.bind_target(target.elts[1], LocInt(v.base, v.which, 1), env, fr)
                return True
            if isinstance(v, ListV):
                for t in target.elts:
                    self.bind_target(t.value if isinstance(t, ast.Starred) else t,
                                     ListV(v.elem) if isinstance(t, ast.Starred) else v.elem, env, fr)
                return True
            if isinstance(v, (Node, Tok, NoneV)) and not isinstance(v, _Top):
                self.emit("S0-unpack-arity", f"{fr.sitekey}:{norm_stmt(target)[:40]}", "fail", fr.where,
                          f"unpacking {v!r} into {n} names")
                return False
            for t in target.elts:
                self.bind_target(t.value if isinstance(t, ast.Starred) else t, TOP, env, fr)
            return True
        return True

    # ------------------------------------------------------------------ refinement
    @staticmethod
    def canon_literal(test: ast.expr, truth: bool) -> tuple[str, bool, ast.expr]:
        while isinstance(test, ast.UnaryOp) and isinstance(test.op, ast.Not):
            test, truth = test.operand, not truth
        if isinstance(test, ast.Compare) and len(test.ops) == 1 and isinstance(test.ops[0], ast.IsNot):
            flipped = ast.Compare(test.left, [ast.Is()], test.comparators)
            return norm_stmt(flipped), not truth, test
        return norm_stmt(test), truth, test

    def refine(self, test: ast.expr, env: dict, truth: bool, fr) -> dict:
        env = self._refine(test, env, truth, fr)
        # disjunctive facts: (not A) or (not B) learnt from a false conjunction, resolved when A is later known
        clauses = env.get("?or")
        if clauses:
            src, t, _ = self.canon_literal(test, truth)
            new = []
            for clause in clauses:
                if any(ls == src and lt == t for ls, lt, _n, _w in clause):
                    continue  # clause satisfied
                rest = tuple(l for l in clause if not (l[0] == src and l[1] != t))
                if len(rest) == 1:
                    _ls, _lt, node, want = rest[0]
                    env = self._refine(node, env, want, fr)
                elif rest:
                    new.append(rest)
            env["?or"] = tuple(new)
        if isinstance(test, ast.BoolOp) and isinstance(test.op, ast.And) and not truth and len(test.values) <= 3:
            lits = []
            for v in test.values:
                ls, lt, _ = self.canon_literal(v, False)
                lits.append((ls, lt, v, False))
            env["?or"] = tuple(env.get("?or", ())) + (tuple(lits),)
        return env

    def _refine(self, test: ast.expr, env: dict, truth: bool, fr) -> dict:
        env = dict(env)
        if isinstance(test, ast.NamedExpr) and isinstance(test.target, ast.Name):
            v = env.get(test.target.id)
            if v is None:
                v = self.eval(test.value, env, fr)
            env[test.target.id] = truthy(v) if truth else falsy(v)
            return env
        if isinstance(test, ast.Name) and test.id in env:
            env[test.id] = truthy(env[test.id]) if truth else falsy(env[test.id])
            return env
        if isinstance(test, (ast.Subscript, ast.Attribute)):
            pk = self.path_key(test)
            if pk is not None and not pk.startswith("$self."):
                cur = env[pk] if pk in env else self.eval(test, env, fr)
                env[pk] = truthy(cur) if truth else falsy(cur)
                return env
        if isinstance(test, ast.UnaryOp) and isinstance(test.op, ast.Not):
            return self._refine(test.operand, env, not truth, fr)
        if isinstance(test, ast.BoolOp):
            if isinstance(test.op, ast.And) and truth:
                for x in test.values:
                    env = self._refine(x, env, True, fr)
                return env
            if isinstance(test.op, ast.Or) and not truth:
                for x in test.values:
                    env = self._refine(x, env, False, fr)
                return env
            return env
        if isinstance(test, ast.Compare) and len(test.ops) == 1 and isinstance(test.left, ast.Call) \
                and isinstance(test.left.func, ast.Name) and test.left.func.id == "len" and len(test.left.args) == 1 \
                and isinstance(test.comparators[0], ast.Constant) and isinstance(test.comparators[0].value, int):
            arg = test.left.args[0]
            key = arg.id if isinstance(arg, ast.Name) else self.path_key(arg)
            k = test.comparators[0].value
            op = test.ops[0]
            # does (len <op> k) == truth imply len >= 1 ?
            implies = False
            if truth:
                implies = (isinstance(op, ast.Gt) and k >= 0) or (isinstance(op, ast.GtE) and k >= 1) or \
                    (isinstance(op, ast.Eq) and k >= 1) or (isinstance(op, ast.NotEq) and k == 0)
            else:
                implies = (isinstance(op, ast.Lt) and k >= 1) or (isinstance(op, ast.LtE) and k >= 0) or \
                    (isinstance(op, ast.Eq) and k == 0)
            if implies and key is not None:
                if key not in env and key.startswith("$"):
                    env[key] = self.eval(arg, env, fr)
                if key in env:
                    env[key] = mk_union([ListV(m.elem, True) if isinstance(m, ListV) else m for m in members(env[key])]) \
                        if not isinstance(env[key], _Top) else env[key]
            return env
        if isinstance(test, ast.Compare) and len(test.ops) == 1 and isinstance(test.left, ast.Name) \
                and test.left.id in env:
            op, right = test.ops[0], test.comparators[0]
            if isinstance(op, (ast.Is, ast.IsNot)) and isinstance(right, ast.Constant) and right.value is None:
                want_none = isinstance(op, ast.Is) == truth
                v = env[test.left.id]
                if want_none:
                    env[test.left.id] = NONE if (can_be_none(v) or isinstance(v, _Top)) else BOT
                else:
                    env[test.left.id] = without_none(v)
                return env
        if isinstance(test, ast.Compare) and len(test.ops) == 1 and isinstance(test.ops[0], (ast.Is, ast.IsNot)) \
                and isinstance(test.left, ast.Name) and ("@" + test.left.id) in env:
            # node_t = type(node); `node_t is ast.X`
            target = env["@" + test.left.id]
            classes = self.class_names(test.comparators[0])
            if classes is not None and target in env:
                want = isinstance(test.ops[0], ast.Is) == truth
                keep = []
                for m in members(env[target]):
                    if isinstance(m, Node) and not asdl.concrete_subclasses(m.cls):
                        exact = ("ast." + m.cls) in classes
                        if exact == want:
                            keep.append(m)
                    elif isinstance(m, Node):
                        if want and len(classes) == 1 and classes[0].startswith("ast.") and asdl.is_subclass(classes[0][4:], m.cls):
                            keep.append(Node(classes[0][4:], None, m.sub))
                        else:
                            keep.append(m)
                    elif not want or isinstance(m, _Top):
                        keep.append(m)
                if not isinstance(env[target], _Top):
                    env[target] = mk_union(keep)
            return env
        if isinstance(test, ast.Call) and isinstance(test.func, ast.Name) and test.func.id == "isinstance" \
                and len(test.args) == 2:
            a0 = test.args[0]
            key = a0.id if isinstance(a0, ast.Name) else self.path_key(a0)
            classes = self.class_names(test.args[1])
            if key is not None and key not in env and key.startswith("$"):
                env[key] = self.eval(a0, env, fr)
            if classes is not None and key is not None and key in env:
                v = env[key]
                if isinstance(v, _Top):
                    if truth and len(classes) == 1:
                        c = classes[0]
                        env[key] = Tok("", "") if c == "TokenInfo" else (
                            Node(c[4:], None, frozenset({"?"})) if c.startswith("ast.") else TOP)
                    return env
                keep = []
                for m in members(v):
                    r = self.isinstance_of(m, classes)
                    if r is None and truth and isinstance(m, Node) and len(classes) == 1 and classes[0].startswith("ast.") \
                            and asdl.is_subclass(classes[0][4:], m.cls):
                        keep.append(Node(classes[0][4:], None, m.sub, label=m.label))  # abstract narrowed
                    elif r is None or r == truth:
                        keep.append(m)
                env[key] = mk_union(keep)
                return env
        return env

    def class_names(self, e: ast.expr) -> Optional[list[str]]:
        if isinstance(e, ast.Tuple):
            out = []
            for x in e.elts:
                c = self.class_names(x)
                if c is None:
                    return None
                out += c
            return out
        if isinstance(e, ast.BinOp) and isinstance(e.op, ast.BitOr):
            a, b = self.class_names(e.left), self.class_names(e.right)
            return None if a is None or b is None else a + b
        s = ast.unparse(e)
        if s == "TokenInfo" or (s.startswith("ast.") and asdl.is_node_class(s[4:])):
            return [s]
        if s in ("str", "int", "float", "complex", "tuple", "list"):
            return [s]
        return None

    def isinstance_of(self, m: V, classes: list[str]) -> Optional[bool]:
        if isinstance(m, Tok):
            return "TokenInfo" in classes
        if isinstance(m, Node):
            res = False
            for c in classes:
                if c.startswith("ast."):
                    if asdl.is_subclass(m.cls, c[4:]):
                        return True
                    if asdl.is_subclass(c[4:], m.cls):
                        res = None  # abstract node might be that class
            return res
        if isinstance(m, NoneV):
            return False
        if self.is_str(m):
            return "str" in classes
        if isinstance(m, Const):
            return type(m.value).__name__ in classes
        if isinstance(m, (ListV,)):
            return "list" in classes
        if isinstance(m, TupleV):
            return "tuple" in classes
        return None

    # ------------------------------------------------------------------ calls
    def e_Call(self, e: ast.Call, env, fr) -> V:
        f = self.eval(e.func, env, fr)
        args: list[V] = []
        for a in e.args:
            if isinstance(a, ast.Starred):
                v = self.eval(a.value, env, fr)
                if isinstance(v, TupleV):
                    args.extend(v.elems)
                elif isinstance(v, Const) and isinstance(v.value, tuple):
                    args.extend(Const(x) if x is not None else NONE for x in v.value)
                else:
                    args.append(("*", v))  # type: ignore[arg-type]
            else:
                args.append(self.eval(a, env, fr))
        kwargs: dict[str, V] = {}
        kw_open = False
        kw_optional: set[str] = set()
        for k in e.keywords:
            v = self.eval(k.value, env, fr)
            if k.arg is None:
                for m in members(v):
                    if isinstance(m, DictV):
                        for kk, vv, rr in m.items:
                            kwargs[kk] = vv
                            if not rr:
                                kw_optional.add(kk)
                        kw_open = kw_open or m.open
                    else:
                        kw_open = True
                if isinstance(v, _Top) or not members(v):
                    # unknown mapping, or no value at all (the receiver cannot exist on this path, e.g. the first element of a list
                    # that is empty in this calling context): nothing is known about the keys
                    kw_open = True
            else:
                kwargs[k.arg] = v
        outs = []
        for fm in members(f):
            outs.append(self.call(fm, args, kwargs, kw_open, kw_optional, e, env, fr))
        if isinstance(f, _Top):
            return TOP
        return mk_union(outs)

    def call(self, f: V, args, kwargs, kw_open, kw_optional, e: ast.Call, env, fr: Frame) -> V:
        star = [a for a in args if isinstance(a, tuple)]
        pargs = [a for a in args if not isinstance(a, tuple)]
        if not isinstance(f, Obj):
            self.unsupp("call:" + ast.unparse(e.func)[:40])
            return TOP
        k = f.kind
        if k == "class" and f.name.startswith("ast."):
            return self.ctor(f.name[4:], pargs, kwargs, kw_open, kw_optional, bool(star), e, fr)
        if k == "method":
            fn = self.funcs[f.name] if f.name in self.funcs else None
            if f.name == "TokenInfo._replace":
                return f.extra
            if fn is None:
                return TOP
            selfv = None if f.name in self.static else f.extra
            return self.call_function(f.name, fn, selfv, pargs, kwargs, kw_open, star, e, fr)
        if k == "func":
            return self.call_function(f.name, self.funcs[f.name], None, pargs, kwargs, kw_open, star, e, fr)
        if k == "tokmethod":
            if f.name in ("peek", "getnext", "diagnose", "get_last_non_whitespace_token"):
                return Tok(f"self._tokenizer.{f.name}()", "")
            if f.name == "get_lines":
                return ListV(STR)
            return TOP
        if k == "rulemethod":
            return TOP
        if k == "strmethod":
            base = f.extra
            if isinstance(base, Const) and all(isinstance(a, Const) for a in pargs) and not kwargs:
                try:
                    r = getattr(base.value, f.name)(*[a.value for a in pargs])
                    if isinstance(r, list):
                        r = tuple(r)
                    hash(r)
                    return Const(r)
                except Exception:
                    pass
            if f.name == "join":
                return STR
            if f.name in ("startswith", "endswith", "isspace", "isidentifier", "isupper"):
                return BOOL
            if f.name in ("find", "index", "count"):
                return INT
            if f.name == "split":
                return ListV(STR, True)
            if f.name == "encode":
                return Scalar("Bytes")
            return STR
        if k == "listmethod":
            return self.list_method(f, pargs, e, env, fr)
        if k == "dictmethod":
            if f.name == "values":
                d = f.extra
                return Iter(mk_union([v for _, v, _ in d.items]) if d.items else TOP)
            if f.name == "get":
                return TOP
            return TOP
        if k == "classattr":
            return TOP
        if k == "builtin":
            return self.builtin(f.name, pargs, kwargs, e, env, fr)
        self.unsupp("call-kind:" + k + ":" + f.name)
        return TOP

    def list_method(self, f: Obj, pargs, e, env, fr) -> V:
        target_expr, lv = f.extra
        name = target_expr.id if isinstance(target_expr, ast.Name) else None
        cur = self.as_list(lv) or ListV(TOP)
        if f.name in ("append",) and pargs:
            new = ListV(join(cur.elem, pargs[0]), True)
            if name:
                env[name] = new
            return NONE
        if f.name == "extend" and pargs:
            add = BOT
            for m in members(pargs[0]):
                if isinstance(m, (ListV, Iter)):
                    add = join(add, m.elem)
                else:
                    add = TOP
            new = ListV(join(cur.elem, add), cur.nonempty)
            if name:
                env[name] = new
            return NONE
        if f.name == "clear":
            if name:
                env[name] = ListV(cur.elem, False)
            return NONE
        if f.name == "pop":
            if isinstance(lv, Const) and isinstance(lv.value, tuple) and lv.value and pargs and \
                    isinstance(pargs[0], Const) and isinstance(pargs[0].value, int):
                i = pargs[0].value
                try:
                    x = lv.value[i]
                except IndexError:
                    return BOT
                rest = list(lv.value)
                del rest[i]
                if name:
                    env[name] = Const(tuple(rest))
                return NONE if x is None else Const(x)
            if name:
                env[name] = ListV(cur.elem, False)
            return cur.elem
        if f.name in ("index", "count"):
            return INT
        if f.name == "copy":
            return lv
        return TOP

    def builtin(self, name: str, pargs, kwargs, e, env, fr) -> V:
        a0 = pargs[0] if pargs else None
        if name == "isinstance":
            if len(e.args) == 2:
                classes = self.class_names(e.args[1])
                if classes is not None and a0 is not None and not isinstance(a0, _Top):
                    rs = {self.isinstance_of(m, classes) for m in members(a0)}
                    if rs == {True}:
                        return Const(True)
                    if rs == {False}:
                        return Const(False)
            return BOOL
        if name == "len":
            if isinstance(a0, TupleV):
                return Const(len(a0.elems))
            if isinstance(a0, Const) and isinstance(a0.value, (tuple, str, bytes)):
                return Const(len(a0.value))
            for m in members(a0) if a0 is not None else []:
                if isinstance(m, NoneV):
                    self.emit("S0-none-len", f"{fr.sitekey}:{norm_stmt(e)[:60]}", "fail", fr.where, "len() of possibly-None")
            return INT
        if name in ("list", "tuple", "sorted"):
            if a0 is None:
                return ListV(BOT)
            outs = []
            for m in members(a0):
                if isinstance(m, (ListV, Iter)):
                    outs.append(ListV(m.elem, isinstance(m, ListV) and m.nonempty))
                elif isinstance(m, TupleV):
                    outs.append(ListV(mk_union(m.elems), bool(m.elems)))
                elif isinstance(m, Const) and isinstance(m.value, tuple):
                    outs.append(self.as_list(m))
                elif isinstance(m, NoneV):
                    self.note_none_iter(e, fr)
                else:
                    outs.append(ListV(TOP))
            return mk_union(outs) if not isinstance(a0, _Top) else ListV(TOP)
        if name in ("str", "repr"):
            return STR
        if name in ("int",):
            return INT
        if name in ("bool",):
            return BOOL
        if name == "object":
            return TOP
        if name == "ast.literal_eval":
            return PYCONST
        if name == "itertools.chain.from_iterable":
            outs = []
            for m in members(a0) if a0 is not None else []:
                if isinstance(m, (ListV, Iter)):
                    inner = []
                    for mm in members(m.elem):
                        if isinstance(mm, (ListV, Iter)):
                            inner.append(mm.elem)
                        elif isinstance(mm, _Top):
                            inner.append(TOP)
                        else:
                            self.emit("S0-chain-nonlist", f"{fr.sitekey}:{norm_stmt(e)[:60]}", "fail", fr.where,
                                      f"chain.from_iterable over elements that are not lists: {mm!r}")
                    outs.append(Iter(mk_union(inner)))
                else:
                    outs.append(Iter(TOP))
            return mk_union(outs) if outs else Iter(TOP)
        if name == "min" or name == "max":
            return mk_union(pargs) if pargs else TOP
        if name == "range":
            return Iter(INT)
        if name == "enumerate":
            el = TOP
            for m in members(a0) if a0 is not None else []:
                if isinstance(m, (ListV, Iter)):
                    el = m.elem
            return Iter(TupleV((INT, el)))
        if name == "cast" and len(pargs) == 2:
            return pargs[1]
        if name in ("SyntaxError", "IndentationError", "ValueError", "KeyError"):
            return Obj("exception", name)
        if name == "textwrap.dedent":
            return STR
        if name == "print":
            return NONE
        if name == "type":
            return TOP
        self.unsupp("builtin:" + name)
        return TOP

    # ------------------------------------------------------------------ function inlining
    def call_function(self, qual: str, fn: ast.FunctionDef, selfv, pargs, kwargs, kw_open, star, e, fr: Frame) -> V:
        if fr.depth > MAX_DEPTH:
            self.summary_uses[qual] = self.summary_uses.get(qual, 0) + 1
            return self.annotation_summary(fn)
        a = fn.args
        params = [p.arg for p in a.posonlyargs + a.args]
        env: dict[str, V] = {}
        if params and params[0] in ("self", "cls") and qual not in self.static:
            env[params[0]] = selfv if selfv is not None else SELF
            params = params[1:]
        defaults = a.defaults
        dstart = len(a.posonlyargs + a.args) - len(defaults)
        allp = [p.arg for p in a.posonlyargs + a.args]
        kwargs = dict(kwargs)
        for i, p in enumerate(params):
            if i < len(pargs):
                env[p] = pargs[i]
            elif p in kwargs:
                env[p] = kwargs.pop(p)
            else:
                idx = allp.index(p)
                if idx >= dstart:
                    env[p] = self.eval(defaults[idx - dstart], {}, fr)
                elif star or kw_open:
                    env[p] = TOP
                else:
                    self.emit("S0-call-arity", f"{fr.sitekey}:{qual}", "fail", fr.where,
                              f"call of {qual} does not supply parameter `{p}`")
                    env[p] = TOP
        # an argument about which nothing is known takes what the parameter's annotation says about None-ness
        for prm in a.posonlyargs + a.args:
            if isinstance(env.get(prm.arg), _Top) and prm.annotation is not None:
                env[prm.arg] = self.annotation_value(prm.annotation)
        extra_pos = pargs[len(params):]
        if a.vararg:
            env[a.vararg.arg] = TupleV(tuple(extra_pos)) if not star else ListV(mk_union(extra_pos + [s[1] for s in star]))
            if star and not extra_pos:
                lst = []
                for s in star:
                    for m in members(s[1]):
                        if isinstance(m, (ListV, Iter)):
                            lst.append(m.elem)
                        else:
                            lst.append(TOP)
                env[a.vararg.arg] = ListV(mk_union(lst))
        elif extra_pos:
            self.emit("S0-call-arity", f"{fr.sitekey}:{qual}", "fail", fr.where,
                      f"call of {qual} passes {len(extra_pos)} surplus positional argument(s)")
        for p, d in zip(a.kwonlyargs, a.kw_defaults):
            if p.arg in kwargs:
                env[p.arg] = kwargs.pop(p.arg)
            elif d is not None:
                env[p.arg] = self.eval(d, {}, fr)
            else:
                env[p.arg] = TOP
        if a.kwarg:
            env[a.kwarg.arg] = DictV(tuple(sorted(((k, v, True) for k, v in kwargs.items()), key=lambda x: x[0])), kw_open)
        elif kwargs:
            self.emit("S0-call-arity", f"{fr.sitekey}:{qual}", "fail", fr.where,
                      f"call of {qual} passes unknown keyword(s) {sorted(kwargs)}")
        memo_key = None
        try:
            memo_key = (qual, tuple(sorted(env.items(), key=lambda x: x[0])))
            hash(memo_key)
        except TypeError:
            memo_key = None
        if memo_key is not None and memo_key in self.memo and not self.emitting:
            return self.memo[memo_key]
        if (qual, memo_key) in self.in_progress:
            self.summary_uses[qual] = self.summary_uses.get(qual, 0) + 1
            return self.annotation_summary(fn)
        self.in_progress.add((qual, memo_key))
        sub = Frame(qual, f"{self.file_of(qual)}:{fn.lineno}", fr, fn=qual, root=fn)
        try:
            sub.fell_off_end = self._block(fn.body, env, sub)
        finally:
            self.in_progress.discard((qual, memo_key))
        is_gen = any(isinstance(n, (ast.Yield, ast.YieldFrom)) for n in ast.walk(fn))
        if is_gen:
            res: V = Iter(mk_union(sub.yields))
        else:
            rets = list(sub.returns)
            if sub.fell_off_end:
                rets.append(NONE)
            res = mk_union(rets)
        if memo_key is not None:
            self.memo[memo_key] = res
        return res

    def annotation_summary(self, fn: ast.FunctionDef) -> V:
        """What a call that is not inlined (recursion, depth bound) may return, as far as its annotation says: only the
        None-ness of `ast.AST | None` style annotations is used; anything else is unknown."""
        return self.annotation_value(fn.returns) if fn.returns is not None else TOP

    def annotation_value(self, ann: ast.expr) -> V:
        txt = norm_stmt(ann)
        parts = [p.strip() for p in txt.split("|")]
        if len(parts) == 2 and "None" in parts:
            other = [p for p in parts if p != "None"][0]
            if other in ("ast.AST", "ast.expr"):
                return mk_union([Node("expr", located=True), NONE])
        if txt in ("ast.AST", "ast.expr"):
            return Node("expr", located=True)
        return TOP

    def file_of(self, qual: str) -> str:
        return repo.TOKENIZE if qual.startswith("TokenInfo.") else repo.SUBHEADER

    # ------------------------------------------------------------------ statements
    def _block(self, stmts, env: dict, fr: Frame) -> bool:
        """Returns True if control can reach the end of the block."""
        for st in stmts:
            if not self._stmt(st, env, fr):
                return False
        return True

    def _stmt(self, st, env: dict, fr: Frame) -> bool:
        if isinstance(st, ast.Expr):
            if isinstance(st.value, (ast.Yield, ast.YieldFrom)):
                self._yield(st.value, env, fr)
                return True
            v = self.eval(st.value, env, fr)
            if isinstance(v, _Bot) and isinstance(st.value, ast.Call):
                return False  # call that always raises
            return True
        if isinstance(st, ast.Return):
            v = self.eval(st.value, env, fr) if st.value is not None else NONE
            fr.returns.append(v)
            return False
        if isinstance(st, ast.Raise):
            if st.exc is not None:
                self.eval(st.exc, env, fr)
            return False
        if isinstance(st, ast.Assign):
            v = self.eval(st.value, env, fr)
            for t in st.targets:
                self.assign(t, v, env, fr, st.value)
            return True
        if isinstance(st, ast.AnnAssign):
            if st.value is not None:
                v = self.eval(st.value, env, fr)
                self.assign(st.target, v, env, fr)
            return True
        if isinstance(st, ast.AugAssign):
            cur = self.eval(st.target, env, fr)
            rhs = self.eval(st.value, env, fr)
            outs = []
            for a in members(cur) or [BOT]:
                for b in members(rhs) or [BOT]:
                    outs.append(self.binop(st.op, a, b, st, fr))
            self.assign(st.target, mk_union(outs), env, fr)
            return True
        if isinstance(st, ast.If):
            t = self.eval(st.test, env, fr)
            c = self.const_truth(t)
            envs = []
            if c is not False:
                e1 = self.refine(st.test, env, True, fr)
                if self.feasible(env, e1) and self._block(st.body, e1, fr):
                    envs.append(e1)
            if c is not True:
                e2 = self.refine(st.test, env, False, fr)
                if self.feasible(env, e2) and self._block(st.orelse, e2, fr):
                    envs.append(e2)
            if not envs:
                return False
            self.merge_into(env, envs)
            return True
        if isinstance(st, ast.For):
            it = self.eval(st.iter, env, fr)
            return self._loop(st, it, env, fr)
        if isinstance(st, ast.While):
            # bounded fixpoint
            exits: list[dict] = []
            infinite = isinstance(st.test, ast.Constant) and st.test.value is True
            for _ in range(5):
                before = dict(env)
                ctx = {"break": [], "continue": []}
                fr.loops.append(ctx)
                try:
                    e1 = self.refine(st.test, env, True, fr)
                    alive = self._block(st.body, e1, fr)
                finally:
                    fr.loops.pop()
                exits += ctx["break"]
                self.merge_into(env, [before] + ([e1] if alive else []) + ctx["continue"])
                if env == before:
                    break
            if infinite:
                if not exits:
                    return False
                self.merge_into(env, exits)
            else:
                self.merge_into(env, [self.refine(st.test, env, False, fr)] + exits)
            return True
        if isinstance(st, ast.Assert):
            self.eval(st.test, env, fr)
            t = st.test
            if isinstance(t, ast.Compare) and len(t.ops) == 1 and isinstance(t.ops[0], ast.IsNot) and isinstance(t.left, ast.Name) \
                    and isinstance(t.comparators[0], ast.Constant) and t.comparators[0].value is None:
                v = env.get(t.left.id)
                if v is not None and not isinstance(v, _Top):
                    if any(isinstance(m, NoneV) for m in members(v)):
                        self.emit("S0-assert-none", f"{fr.sitekey}:{norm_stmt(st)[:60]}", "fail", fr.where,
                                  f"`{norm_stmt(st)}` can fail: on this call path `{t.left.id}` can be None (AssertionError escapes)")
                    else:
                        self.emit("S0-assert-none", f"{fr.sitekey}:{norm_stmt(st)[:60]}", "ok", fr.where)
            new = self.refine(st.test, env, True, fr)
            env.clear()
            env.update(new)
            return True
        if isinstance(st, (ast.Pass, ast.Import, ast.ImportFrom, ast.Global, ast.Nonlocal)):
            return True
        if isinstance(st, (ast.Break, ast.Continue)):
            if fr.loops:
                fr.loops[-1]["break" if isinstance(st, ast.Break) else "continue"].append(dict(env))
            return False
        if isinstance(st, ast.Try):
            snapshot = dict(env)
            fr.try_depth += 1
            try:
                alive = self._block(st.body, env, fr)
            finally:
                fr.try_depth -= 1
            outs = [dict(env)] if alive else []
            for h in st.handlers:
                e2 = dict(snapshot)
                if h.name:
                    e2[h.name] = TOP
                if self._block(h.body, e2, fr):
                    outs.append(e2)
            if not outs:
                return False
            self.merge_into(env, outs)
            if st.finalbody:
                return self._block(st.finalbody, env, fr)
            return True
        if isinstance(st, ast.With):
            for w in st.items:
                v = self.eval(w.context_expr, env, fr)
                if w.optional_vars is not None:
                    self.assign(w.optional_vars, TOP, env, fr)
            return self._block(st.body, env, fr)
        if isinstance(st, (ast.FunctionDef, ast.ClassDef)):
            return True
        self.unsupp("stmt:" + type(st).__name__)
        return True

    def _block_loop(self, stmts, env, fr) -> bool:
        return self._block(stmts, env, fr)

    def _loop(self, st: ast.For, it: V, env: dict, fr: Frame) -> bool:
        # concrete unrolling of small constant sequences
        if isinstance(it, Const) and isinstance(it.value, tuple) and len(it.value) <= 8:
            exits: list[dict] = []
            alive_env: Optional[dict] = dict(env)
            for x in it.value:
                if alive_env is None:
                    break
                cur = alive_env
                self.assign(st.target, NONE if x is None else Const(x), cur, fr)
                ctx = {"break": [], "continue": []}
                fr.loops.append(ctx)
                try:
                    alive = self._block(st.body, cur, fr)
                finally:
                    fr.loops.pop()
                exits += ctx["break"]
                nxt = ([cur] if alive else []) + ctx["continue"]
                if nxt:
                    alive_env = {}
                    self.merge_into(alive_env, nxt)
                else:
                    alive_env = None
            outs = ([alive_env] if alive_env is not None else []) + exits
            if not outs:
                return False
            self.merge_into(env, outs)
            return True
        elems = []
        nonempty = False
        for m in members(it):
            if isinstance(m, (ListV, Iter)):
                elems.append(m.elem)
                nonempty = nonempty or (isinstance(m, ListV) and m.nonempty)
            elif isinstance(m, TupleV):
                elems.extend(m.elems)
            elif isinstance(m, Const) and isinstance(m.value, tuple):
                elems.extend(Const(x) if x is not None else NONE for x in m.value)
            elif isinstance(m, NoneV):
                self.note_none_iter(st.iter, fr)
            elif isinstance(m, DictV):
                elems.append(STR)
            else:
                elems.append(TOP)
        if isinstance(it, _Top):
            elems.append(TOP)
        el = mk_union(elems)
        if isinstance(el, _Bot):
            return True
        only_nonempty = nonempty and all(isinstance(m, ListV) and m.nonempty for m in members(it))
        exits = []
        iter_ends: list[dict] = []
        for rnd in range(6):
            before = dict(env)
            ends: list[dict] = []
            for em in (members(el) if not isinstance(el, _Top) else [TOP]):
                e1 = dict(env)
                if not self.bind_target(st.target, em, e1, fr):
                    continue
                ctx = {"break": [], "continue": []}
                fr.loops.append(ctx)
                try:
                    alive = self._block(st.body, e1, fr)
                finally:
                    fr.loops.pop()
                exits += ctx["break"]
                ends += ([e1] if alive else []) + ctx["continue"]
            iter_ends = ends
            # state at the head of the next iteration: what we had, joined with every way an iteration can end
            self.merge_into(env, [before] + ends)
            if env == before:
                break
        # after the loop: zero iterations (only if the iterable can be empty) or the end of some iteration, or a break
        outs = list(exits) + iter_ends
        if not only_nonempty:
            outs.append(dict(env))
        elif not outs:
            outs.append(dict(env))
        final: dict = {}
        self.merge_into(final, outs)
        env.clear()
        env.update(final)
        if st.orelse:
            self._block(st.orelse, env, fr)
        return True

    def _yield(self, y, env, fr):
        if isinstance(y, ast.Yield):
            fr.yields.append(self.eval(y.value, env, fr) if y.value is not None else NONE)
        else:
            v = self.eval(y.value, env, fr)
            for m in members(v):
                if isinstance(m, (ListV, Iter)):
                    fr.yields.append(m.elem)
                else:
                    fr.yields.append(TOP)

    def e_Yield(self, e, env, fr):
        self._yield(e, env, fr)
        return TOP

    e_YieldFrom = e_Yield

    def merge_into(self, env: dict, envs: list[dict]):
        keys = set()
        for e in envs:
            keys |= set(e)
        out = {}
        for k in keys:
            if k == "?or" or k.startswith("@"):
                vs = [e.get(k) for e in envs]
                if all(v == vs[0] for v in vs) and vs[0] is not None:
                    out[k] = vs[0]
                continue
            vals = [e[k] for e in envs if k in e]
            out[k] = mk_union(vals)
        env.clear()
        env.update(out)

    def assign(self, target, v: V, env: dict, fr: Frame, value_expr=None):
        if isinstance(target, ast.Name):
            self.drop_paths(env, target.id)
            env[target.id] = v
            if isinstance(value_expr, ast.Call) and isinstance(value_expr.func, ast.Name) and value_expr.func.id == "type" \
                    and len(value_expr.args) == 1 and isinstance(value_expr.args[0], ast.Name):
                env["@" + target.id] = value_expr.args[0].id
            return
        if isinstance(target, (ast.Tuple, ast.List)):
            outs_env = []
            for m in members(v) if not isinstance(v, _Top) else [TOP]:
                e1 = dict(env)
                if self.bind_target(target, m, e1, fr):
                    outs_env.append(e1)
            if outs_env:
                self.merge_into(env, outs_env)
            return
        if isinstance(target, ast.Attribute):
            if target.attr in LOC_EXPECT:
                want = LOC_EXPECT[target.attr]
                for m in members(v):
                    if isinstance(m, LocInt):
                        key = f"{fr.sitekey}:{norm_stmt(target)}="
                        if (m.which, m.idx) != want:
                            self.emit("A5-loc-key", key, "fail", fr.where,
                                      f"`{norm_stmt(target)}` is assigned {m!r} (expected a {want[0]} "
                                      f"{'line' if want[1] == 0 else 'column'})")
                        else:
                            self.emit("A5-loc-key", key, "ok", fr.where)
            self.attr_store(target, v, env, fr)
            return
        if isinstance(target, ast.Subscript):
            if isinstance(target.value, ast.Name) and target.value.id in env:
                cur = env[target.value.id]
                key = self.eval(target.slice, env, fr)
                outs = []
                for m in members(cur):
                    if isinstance(m, DictV) and isinstance(key, Const):
                        outs.append(m.with_item(key.value, v, True))
                    elif isinstance(m, ListV):
                        outs.append(ListV(join(m.elem, v), m.nonempty))
                    else:
                        outs.append(m)
                if not isinstance(cur, _Top):
                    env[target.value.id] = mk_union(outs)
                pk = self.path_key(target)
                if pk is not None:
                    env[pk] = v
            return

    def attr_store(self, target: ast.Attribute, v: V, env: dict, fr: Frame):
        """node.attr = v for nodes held in local variables (set_expr_context, set_decorators, ...)."""
        if isinstance(target.value, ast.Name) and target.value.id in env:
            cur = env[target.value.id]
            outs = []
            for m in members(cur):
                if isinstance(m, Node):
                    outs.append(self.node_store(m, target.attr, v, target, fr))
                elif isinstance(m, Ctx):
                    self.emit("S6-singleton-write", f"{fr.fn}:{norm_stmt(target)}", "fail", fr.where,
                              "attribute store on a shared context singleton")
                    outs.append(m)
                else:
                    outs.append(m)
            if not isinstance(cur, _Top):
                env[target.value.id] = mk_union(outs)

    def node_store(self, m: Node, attr: str, v: V, target, fr: Frame) -> Node:
        if attr == "ctx":
            ctxs = {c.name for c in members(v) if isinstance(c, Ctx)}
            if len(ctxs) == 1 and all(isinstance(c, Ctx) for c in members(v)):
                new = next(iter(ctxs))
                # S3: rewriting the context of a container does not rewrite its children
                if m.cls in asdl.CTX_CHILDREN and (m.sub - {new}):
                    self.emit("S3-ctx", f"{fr.chain().split(' <- ')[-1]}:set-ctx({m.cls})", "fail", fr.where,
                              f"context of ast.{m.cls} rewritten to {new} while its elements stay {sorted(m.sub)}")
                elif m.cls in asdl.CTX_CHILDREN or m.cls in ("Name", "Attribute", "Subscript"):
                    self.emit("S3-ctx", f"{fr.chain().split(' <- ')[-1]}:set-ctx({m.cls})", "ok", fr.where)
                elif asdl.is_node_class(m.cls) and asdl.signature(m.cls) is not None and "ctx" not in [
                        f.name for f in asdl.signature(m.cls)] and not asdl.concrete_subclasses(m.cls):
                    self.emit("S3-ctx", f"{fr.chain().split(' <- ')[-1]}:set-ctx({m.cls})", "fail", fr.where,
                              f"context stored on ast.{m.cls}, which has no ctx field")
                return replace(m, ctx=new)
            return replace(m, ctx=None, sub=m.sub | {"?"})
        if attr in m.missing:
            sig = asdl.signature(m.cls)
            f = next((x for x in sig if x.name == attr), None) if sig else None
            if f is not None:
                self.check_field(m.cls, f, v, f"{fr.fn}:{m.cls}.{attr}=", fr, norm_stmt(target))
            return replace(m, missing=m.missing - {attr})
        return m

    # ------------------------------------------------------------------ constructors
    def ctor(self, cls: str, pargs: list[V], kwargs: dict[str, V], kw_open: bool, kw_optional: set,
             star: bool, e: ast.Call, fr: Frame) -> V:
        sig = asdl.signature(cls)
        n = fr.ordinal(e, cls)
        site = f"{fr.sitekey}:ast.{cls}" + (f"@{n}" if n else "")
        where = fr.where if fr.parent is None else f"{fr.where} ({self.file_of(fr.fn) if fr.fn else ''} in {fr.chain()})"
        self.ctor_sites[site] = self.ctor_sites.get(site, 0) + 1
        if sig is None:
            self.emit("A1-schema", site, "undecided", where, f"no ASDL signature for ast.{cls}")
            return Node(cls)
        fields = {f.name: f for f in sig}
        attrs = asdl.attributes(cls)
        given: dict[str, V] = {}
        # positional
        if len(pargs) > len(sig):
            self.emit("A1-schema", site + ".positional", "fail", where,
                      f"ast.{cls} takes {len(sig)} positional arguments, {len(pargs)} given")
        for f, v in zip(sig, pargs):
            given[f.name] = v
        unknown = []
        for k, v in kwargs.items():
            if k in fields:
                if k in given:
                    self.emit("A1-schema", site + "." + k, "fail", where, f"field `{k}` given twice")
                given[k] = v
            elif k in attrs:
                pass
            else:
                unknown.append((k, v))
        for k, v in unknown:
            if all(isinstance(m, NoneV) for m in members(v)) and members(v):
                self.emit("A1-schema", site + "." + k, "ok", where, "unknown keyword carrying the constant None (inert)")
            else:
                self.emit("A1-schema", site + "." + k, "fail", where,
                          f"`{k}` is not a field of ast.{cls} (fields: {', '.join(fields)}); the value {v!r} is lost")
        missing = set()
        for f in sig:
            if f.name in given:
                if f.name in kw_optional:
                    self.emit("S2-required", site + "." + f.name, "fail" if not f.opt else "ok", where,
                              f"field `{f.name}` is supplied only on some paths")
                self.check_field(cls, f, given[f.name], site + "." + f.name, fr, where=where)
            elif f.opt:
                self.emit("S2-required", site + "." + f.name, "ok", where, "optional field omitted (defaults to None)")
            elif kw_open or star:
                self.emit("S2-required", site + "." + f.name, "undecided", where, "argument list not fully known")
            else:
                missing.add(f.name)
        # locations
        located: Optional[bool] = None
        if attrs:
            have = {k for k in attrs if k in kwargs}
            partial = {k for k in have if k in kw_optional}
            if have == set(attrs) and not partial:
                located = True
                self.emit("S4-location", site, "ok", where)
                self.check_loc_keywords(site, kwargs, where)
            elif kw_open:
                located = None
                self.emit("S4-location", site, "undecided", where, "location keywords come from an opaque mapping")
            else:
                located = False
                self.emit("S4-location", site, "fail", where,
                          f"ast.{cls} built without a complete location (missing {sorted(set(attrs) - have | partial)})")
        # ctx
        ctx = None
        sub: frozenset = frozenset()
        if "ctx" in fields and "ctx" in given:
            cs = {m.name for m in members(given["ctx"]) if isinstance(m, Ctx)}
            if len(cs) == 1 and all(isinstance(m, Ctx) for m in members(given["ctx"])):
                ctx = next(iter(cs))
            else:
                ctx = None
                sub = sub | {"?"}
        for child in asdl.CTX_CHILDREN.get(cls, ()):
            if child in given:
                sub = sub | self.deep_of(given[child])
        shape = self.shape_of(cls, sig, given)
        if cls == "JoinedStr" and "values" in given:
            risky = any(isinstance(m, Node) and m.cls == "Constant" and m.shape and "value=<PyConst>" in m.shape
                        for lv in members(given["values"]) if isinstance(lv, ListV) for m in members(lv.elem))
            if risky:
                self.emit("S1-joinedstr-bytes", site, "ok" if self.bytes_guarded(e, fr) else "fail", where,
                          "a constant evaluated from a string literal (possibly a bytes literal) becomes a part of a JoinedStr without "
                          "a preceding `isinstance(.., bytes)` rejection: `b'x' f'{a}'` is accepted and yields a tree compile() refuses")
        if self.ctor_hook is not None:
            self.ctor_hook(cls, given, kwargs, fr, e)
        locsrc = ()
        if attrs:
            def bases(k):
                return tuple(sorted({m.base for m in members(kwargs.get(k, BOT)) if isinstance(m, LocInt)}))
            locsrc = (bases("lineno"), bases("end_lineno"))
        return Node(cls, ctx, sub, frozenset(missing), shape, "", located, locsrc)

    def deep_of(self, v: V) -> frozenset:
        out: set = set()
        for m in members(v):
            if isinstance(m, Node):
                out |= m.deep()
                if m.cls in ("expr",):
                    out.add("?")
            elif isinstance(m, (ListV, Iter)):
                out |= self.deep_of(m.elem)
            elif isinstance(m, TupleV):
                for x in m.elems:
                    out |= self.deep_of(x)
            elif isinstance(m, _Top):
                out.add("?")
        if isinstance(v, _Top):
            out.add("?")
        return frozenset(out)

    def shape_of(self, cls, sig, given) -> Optional[str]:
        parts = []
        for f in sig:
            if f.name in given:
                parts.append(f"{f.name}={self.shape_val(given[f.name], 0)}")
        s = f"{cls}({', '.join(parts)})"
        return s if len(s) <= 400 else s[:397] + "..."

    def shape_val(self, v: V, depth: int) -> str:
        if depth > 4:
            return "…"
        if isinstance(v, Node):
            return v.shape or (f"<{v.label}:{v.cls}>" if v.label else f"<{v.cls}>")
        if isinstance(v, Const):
            return repr(v.value)
        if isinstance(v, Scalar):
            return f"<{v.origin}>" if v.origin else f"<{v.kind}>"
        if isinstance(v, Tok):
            return f"<tok {v.label}>"
        if isinstance(v, Ctx):
            return v.name
        if isinstance(v, NoneV):
            return "None"
        if isinstance(v, ListV):
            return f"[{self.shape_val(v.elem, depth + 1)}*]"
        if isinstance(v, TupleV):
            return "(" + ", ".join(self.shape_val(x, depth + 1) for x in v.elems) + ")"
        if isinstance(v, Union):
            return " | ".join(sorted(self.shape_val(m, depth + 1) for m in v.members))
        return repr(v)

    def check_loc_keywords(self, site: str, kwargs: dict, where: str):
        """A5: key/index agreement and pair coherence of explicit location values."""
        vals = {k: kwargs.get(k) for k in LOC_KEYS}
        bases: dict[str, set] = {"start": set(), "end": set()}
        perkey: dict[str, frozenset] = {}
        decided = True
        for k, v in vals.items():
            want = LOC_EXPECT[k]
            for m in members(v) if v is not None else []:
                if isinstance(m, LocInt):
                    if (m.which, m.idx) != want:
                        self.emit("A5-loc-key", f"{site}.{k}", "fail", where,
                                  f"`{k}` is fed from {m!r} (expected a {want[0]} {'line' if want[1] == 0 else 'column'})")
                    else:
                        self.emit("A5-loc-key", f"{site}.{k}", "ok", where)
                    bases[want[0]].add(m.base)
                    perkey[k] = perkey.get(k, frozenset()) | {m.base}
                elif isinstance(m, Const) and m.value == 0:
                    pass
                else:
                    decided = False
        for half, (k1, k2) in (("start", ("lineno", "col_offset")), ("end", ("end_lineno", "end_col_offset"))):
            if k1 in perkey and k2 in perkey and perkey[k1] != perkey[k2]:
                self.emit("A5-loc-pair", f"{site}.{half}", "fail", where,
                          f"{k1} comes from {sorted(perkey[k1])} but {k2} from {sorted(perkey[k2])}")
            elif bases[half]:
                self.emit("A5-loc-pair", f"{site}.{half}", "ok" if decided else "undecided", where)

        # order: a span whose two ends come from different sources needs a reason why start <= end
        s_b, e_b = bases["start"], bases["end"]
        if decided and s_b and e_b and s_b != e_b:
            fn = site.split(":", 1)[0]

            def first(x):
                return x.endswith("[0]")

            def last_or_first(x):
                return x.endswith("[-1]") or x.endswith("[0]")

            ok = s_b == {"peek()"} or \
                (all(first(x) or not x.endswith("]") for x in s_b) and all(last_or_first(x) or not x.endswith("]") for x in e_b)
                 and ({x.rsplit("[", 1)[0] for x in s_b if x.endswith("]")} <= {x.rsplit("[", 1)[0] for x in e_b if x.endswith("]")}
                      or {x.rsplit("[", 1)[0] for x in e_b if x.endswith("]")} <= {x.rsplit("[", 1)[0] for x in s_b if x.endswith("]")})
                 and {x for x in s_b if not x.endswith("]")} == {x for x in e_b if not x.endswith("]")}) or \
                fn in ORDERED_SPAN_IDIOMS
            self.emit("A5-loc-order", f"{site}", "ok" if ok else "fail", where,
                      "" if ok else f"the node starts where {sorted(s_b)} starts and ends where {sorted(e_b)} ends; nothing says the first "
                                    f"precedes the second (an inverted range is rejected by compile())")

    # field kind / list / optional / context obligations -------------------------------------
    def check_field(self, cls: str, f: asdl.Field, v: V, key: str, fr: Frame, where: str = ""):
        where = where or fr.where
        if isinstance(v, _Top):
            self.emit("S1-field-kind", key, "undecided", where, "value not typed (⊤)")
            return
        if isinstance(v, _Bot):
            return
        if f.seq:
            bad = [m for m in members(v) if not isinstance(m, ListV)]
            if bad:
                self.emit("S1-list-field", key, "fail", where,
                          f"list field `{f.name}` of ast.{cls} can receive {mk_union(bad)!r} (must always be a list)")
                ok_lists = [m for m in members(v) if isinstance(m, ListV)]
            else:
                self.emit("S1-list-field", key, "ok", where)
                ok_lists = members(v)
            for lv in ok_lists:
                self.check_elem(cls, f, lv.elem, key, where, in_list=True)
            return
        if can_be_none(v) and not f.opt and f.type != "constant":
            self.emit("S2-required", key, "fail", where,
                      f"required field `{f.name}` of ast.{cls} can receive None")
        else:
            self.emit("S2-required", key, "ok", where)
        self.check_elem(cls, f, without_none(v), key, where, in_list=False)

    def check_elem(self, cls: str, f: asdl.Field, v: V, key: str, where: str, in_list: bool):
        t = f.type
        ms = members(v)
        if isinstance(v, _Top):
            self.emit("S1-field-kind", key, "undecided", where, "element not typed (⊤)")
            return
        if not ms:
            return
        bad = []
        undec = False
        for m in ms:
            if isinstance(m, _Top):
                undec = True
                continue
            if t in ("identifier", "string"):
                ok = self.is_str(m)
            elif t == "int":
                ok = self.is_int(m)
            elif t == "constant":
                ok = not isinstance(m, (Tok, Node, ListV, TupleV, DictV, Obj, PosPair, Ctx))
            elif t == "expr_context":
                ok = isinstance(m, Ctx)
            elif asdl.is_node_class(t):
                if isinstance(m, Node):
                    if asdl.is_subclass(m.cls, t):
                        ok = True
                    elif asdl.is_subclass(t, m.cls):
                        ok = True
                        undec = True
                    else:
                        ok = False
                elif isinstance(m, NoneV) and in_list and cls in ("Dict",) and f.name == "keys":
                    ok = True  # `**d` entries of a dict display
                elif isinstance(m, NoneV) and in_list and cls in ("arguments",) and f.name == "kw_defaults":
                    ok = True  # kw-only parameter without default
                else:
                    ok = False
            else:
                ok = True
                undec = True
            if not ok:
                bad.append(m)
        kind_rule = "A6-scalar-kind" if t in ("identifier", "string", "int", "constant") else "S1-field-kind"
        # positions where CPython's own parser never puts a Starred (and its compiler rejects one)
        if t == "expr" and not in_list and (cls, f.name) in NO_STARRED_HERE:
            st = [m for m in ms if isinstance(m, Node) and m.cls == "Starred"]
            self.emit("S1-starred-position", key, "fail" if st else "ok", where,
                      f"`{cls}.{f.name}` can receive a Starred node: CPython builds a one-element Tuple there (`a[*b]` is `a[(*b,)]`) and "
                      f"compile() refuses a bare Starred (\"can't use starred expression here\")" if st else "")
        if bad:
            self.emit(kind_rule, key, "fail", where,
                      f"field `{f.name}` of ast.{cls} ({t}{'*' if f.seq else ''}) can receive {mk_union(bad)!r}")
        else:
            self.emit(kind_rule, key, "undecided" if undec else "ok", where)
        # nodes flowing into a tree must be complete
        for m in ms:
            if isinstance(m, Node) and m.missing:
                self.emit("S2-required", key + ":complete", "fail", where,
                          f"ast.{m.cls} reaches `{cls}.{f.name}` without its required field(s) {sorted(m.missing)}")
            if isinstance(m, Node) and m.located is False:
                pass  # already reported at the construction site
        # S3 context typestate
        if t == "expr":
            want = asdl.BINDING_FIELDS.get((cls, f.name))
            inherit = f.name in asdl.CTX_CHILDREN.get(cls, ())
            for m in ms:
                if not isinstance(m, Node):
                    continue
                deep = m.deep()
                if inherit:
                    continue  # checked by the parent's own position (deep set is propagated upwards)
                if want is None:
                    wantset = {"Load"}
                    if "?" in deep:
                        self.emit("S3-ctx", key, "undecided", where, "context of the value is not known")
                    elif deep - wantset:
                        self.emit("S3-ctx", key, "fail", where,
                                  f"`{cls}.{f.name}` is a Load position but can receive ast.{m.cls} with context {sorted(deep)}")
                    else:
                        self.emit("S3-ctx", key, "ok", where)
                else:
                    if "?" in deep:
                        self.emit("S3-ctx", key, "undecided", where, "context of the value is not known")
                    elif deep != {want}:
                        self.emit("S3-ctx", key, "fail", where,
                                  f"`{cls}.{f.name}` is a {want} position but can receive ast.{m.cls} with context "
                                  f"{sorted(deep) or 'none'}")
                    else:
                        self.emit("S3-ctx", key, "ok", where)


import operator as _op

_CMP = {ast.Eq: _op.eq, ast.NotEq: _op.ne, ast.Lt: _op.lt, ast.LtE: _op.le, ast.Gt: _op.gt, ast.GtE: _op.ge,
        ast.In: lambda a, b: a in b, ast.NotIn: lambda a, b: a not in b}
_BIN = {ast.Add: _op.add, ast.Sub: _op.sub, ast.Mult: _op.mul, ast.FloorDiv: _op.floordiv, ast.Mod: _op.mod}


class _Return(Exception):
    pass


class _LoopExit(Exception):
    def __init__(self, is_break: bool):
        self.is_break = is_break
