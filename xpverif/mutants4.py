"""C17 mutants: edits of the generator (tasks/generator.py, pegen/*.py) that leave both shipped parsers untouched but change
what would be generated for some grammar; plus behaviour-preserving spellings that must stay silent."""
from __future__ import annotations

from .mutants import M

GEN = "tasks/generator.py"
PYG = "pegen/python_generator.py"
PAG = "pegen/parser_generator.py"
GRA = "pegen/grammar.py"

MUTANTS4 = [
    # ------------------------------------------------------------------ T4 call text
    M("c17-lookaheads-swapped-xonsh", "C17",
      [(GEN, 'return None, f"self.positive_lookahead({args})"', 'return None, f"self.negative_lookahead({args})"')], mention="T4"),
    M("c17-lookaheads-swapped-stock", "C17",
      [(PYG, 'return None, f"self.negative_lookahead({head}, {tail})"', 'return None, f"self.positive_lookahead({head}, {tail})"')], mention="T4"),
    M("c17-gather-args-swapped", "C17",
      [(GEN, 'self.cache[node] = "gathered", f"self.gathered({func}, {sep})"', 'self.cache[node] = "gathered", f"self.gathered({sep}, {func})"')],
      mention="T4"),
    M("c17-gather-separator-from-element", "C17",
      [(GEN, 'sep = ", ".join(self._call_helper(node.separator, nested=False))', 'sep = ", ".join(self._call_helper(node.node, nested=False))')],
      mention="T4"),
    M("c17-repeat1-gets-comma", "C17",
      [(GEN, 'self.cache[node] = "one_or_more", self.get_repeated(node)', 'self.cache[node] = "one_or_more", self.get_repeated(node) + ","')]),
    M("c17-repeat0-loses-comma", "C17", [(GEN, 'func = self.get_repeated(node) + ","', 'func = self.get_repeated(node)')]),
    M("c17-cut-renamed", "C17", [(PYG, 'return "cut", "True"', 'return "cut_", "True"')], mention="T4"),
    M("c17-forced-becomes-expect", "C17",
      [(PYG, 'f"self.expect_forced(self.expect({node.node.value}), {node.node.value!r})"', 'f"self.expect({node.node.value})"')], mention="T4"),
    M("c17-stock-gather-loop-order", "C17",
      [(PAG, '[NamedItem(None, node.separator), NamedItem("elem", node.node)]', '[NamedItem("elem", node.node), NamedItem(None, node.separator)]')],
      mention="T4"),
    M("c17-stock-repeat-kind", "C17",
      [(PYG, "name = self.gen.artificial_rule_from_repeat(node.node, True)", "name = self.gen.artificial_rule_from_repeat(node.node, False)")],
      mention="T4"),
    M("c17-opt-bare", "C17", [(PYG, '            return "opt", f"{call},"', '            return "opt", f"{call}"')]),
    # ------------------------------------------------------------------ T3 emission order
    M("c17-no-reset-after-alt", "C17", [(PYG, '            self.print("self._reset(mark)")\n', '            pass\n')], mention="T3"),
    M("c17-reset-only-without-cut", "C17",
      [(PYG, '            self.print("self._reset(mark)")\n            # Skip remaining alternatives if a cut was reached.\n            if has_cut:\n',
        '            if not has_cut:\n                self.print("self._reset(mark)")\n            # Skip remaining alternatives if a cut was reached.\n            if has_cut:\n')],
      mention="T3"),
    M("c17-cut-exit-dropped", "C17",
      [(PYG, '            if has_cut:\n                self.print("if cut:")\n                with self.indent():\n                    self.add_return("None")\n',
        '            if has_cut and is_loop:\n                self.print("if cut:")\n                with self.indent():\n                    self.add_return("None")\n')],
      mention="T3"),
    M("c17-invalid-gate-dropped", "C17",
      [(PYG, '                if has_invalid:\n                    self.print("self.call_invalid_rules")\n                    first = False\n',
        '                if has_invalid and is_gather:\n                    self.print("self.call_invalid_rules")\n                    first = False\n')],
      mention="T3"),
    M("c17-has-cut-first-item-only", "C17",
      [(PYG, "has_cut = any(isinstance(item.item, Cut) for item in node.items)", "has_cut = bool(node.items) and isinstance(node.items[0].item, Cut)")],
      mention="T3"),
    M("c17-loop-no-remark", "C17",
      [(GEN, '            self.print(f"children.append({action})")\n            self.print("mark = self._mark()")\n',
        '            self.print(f"children.append({action})")\n')], mention="T3"),
    M("c17-rule-mark-after-visit", "C17",
      [(GEN, '            self.print("mark = self._mark()")\n            if self.alts_uses_locations(node.rhs.alts):',
        '            if self.alts_uses_locations(node.rhs.alts):')], mention="T3"),
    M("c17-default-action-first-only", "C17",
      [(GEN, '''                action = f"[{', '.join(self.local_variable_names)}]"''', '''                action = f"{self.local_variable_names[0]}"''')],
      mention="T3"),
    M("c17-rhs-stops-early", "C17",
      [(PYG, "        for alt in node.alts:\n            self.visit(alt, is_loop=is_loop, is_gather=is_gather)\n",
        "        for alt in node.alts[:8]:\n            self.visit(alt, is_loop=is_loop, is_gather=is_gather)\n")], mention="T3"),
    # ------------------------------------------------------------------ T5 / T6
    M("c17-nullable-alt-any", "C17",
      [(PAG, "        for item in alt.items:\n            if not self.visit(item):\n                return False\n        return True\n",
        "        for item in alt.items:\n            if self.visit(item):\n                return True\n        return False\n")], mention="T5"),
    M("c17-nullable-rhs-first-alt", "C17",
      [(PAG, "        for alt in rhs.alts:\n            if self.visit(alt):\n                return True\n        return False\n",
        "        for alt in rhs.alts:\n            return self.visit(alt)\n        return False\n")], mention="T5"),
    M("c17-nullable-opt-false", "C17",
      [(PAG, "    def visit_Opt(self, opt: Opt) -> bool:\n        return True\n", "    def visit_Opt(self, opt: Opt) -> bool:\n        return self.visit(opt.node)\n")],
      mention="T5"),
    M("c17-nullable-flag-not-recorded", "C17",
      [(PAG, "        if self.visit(item.item):\n            item.nullable = True\n        return item.nullable\n", "        return self.visit(item.item)\n")],
      mention="T5"),
    M("c17-initial-names-no-break", "C17",
      [(GRA, "            names |= item.initial_names()\n            if not item.nullable:\n                break\n",
        "            names |= item.initial_names()\n")], mention="T6"),
    M("c17-initial-names-break-first", "C17",
      [(GRA, "            names |= item.initial_names()\n            if not item.nullable:\n                break\n",
        "            if not item.nullable:\n                break\n            names |= item.initial_names()\n")], mention="T6"),
    M("c17-leader-any-cycle", "C17",
      [(PAG, "                    leaders -= scc - set(cycle)\n", "                    leaders |= set(cycle)\n")], mention="T6"),
    # ------------------------------------------------------------------ T1
    M("c17-handler-misnamed", "C17", [(GEN, "    def visit_Repeat1(self, node: Repeat1)", "    def visit_RepeatOne(self, node: Repeat1)")], mention="T1"),
    # ------------------------------------------------------------------ runtime combinators under C17
    M("c17-negative-lookahead-no-reset", "C17",
      [("peg_parser/subheader.py", "        ok = func(*args)\n        self._reset(mark)\n        return not ok\n", "        ok = func(*args)\n        return not ok\n")]),
    # ------------------------------------------------------------------ benign spellings (must stay silent)
    M("c17-benign-lookahead-local", "C17",
      [(GEN, '        args = ", ".join(self._call_helper(node))\n        return None, f"self.negative_lookahead({args})"',
        '        joined = ", ".join(self._call_helper(node))\n        call = f"self.negative_lookahead({joined})"\n        return None, call')], expect="silent"),
    M("c17-benign-nullable-any", "C17",
      [(PAG, "        for alt in rhs.alts:\n            if self.visit(alt):\n                return True\n        return False\n",
        "        return any([self.visit(alt) for alt in rhs.alts])\n")], expect="silent"),
    M("c17-benign-initial-names-guard", "C17",
      [(GRA, "            names |= item.initial_names()\n            if not item.nullable:\n                break\n",
        "            names = names | item.initial_names()\n            if item.nullable:\n                continue\n            break\n")], expect="silent"),
    M("c17-benign-cut-exit-guard", "C17",
      [(PYG, '            if has_cut:\n                self.print("if cut:")\n                with self.indent():\n                    self.add_return("None")\n',
        '            if not has_cut:\n                return\n            self.print("if cut:")\n            with self.indent():\n                self.add_return("None")\n')],
      expect="silent"),
]

SUBH = "peg_parser/subheader.py"
MUTANTS4 += [
    M("c01-seq-alts-no-reset", "C01", [(SUBH, "            if res:\n                return res\n            self._reset(mark)\n        return None\n",
                                        "            if res:\n                return res\n        self._reset(mark)\n        return None\n")], mention="R-combinators"),
    M("c01-seq-alts-none-only", "C01", [(SUBH, "            if res:\n                return res\n            self._reset(mark)\n",
                                         "            if res is not None:\n                return res\n            self._reset(mark)\n")], mention="R-combinators"),
    M("c01-seq-alts-drops-args", "C01", [(SUBH, "                method, *args = arg\n                res = method(*args)\n",
                                          "                method, *args = arg\n                res = method(*args[:0]) if not args else method(args[-1])\n")], mention="R-combinators"),
    M("c01-name-accepts-keywords-when-soft", "C01",
      [(SUBH, "        if tok.type == Token.NAME and tok.string not in self.KEYWORDS:\n", "        if tok.type == Token.NAME and (tok.string not in self.KEYWORDS or tok.string in self.SOFT_KEYWORDS):\n")],
      expect="silent"),
    M("c01-keyword-any-name", "C01",
      [(SUBH, "        if tok.type == Token.NAME and tok.string in self.KEYWORDS:\n", "        if tok.string in self.KEYWORDS:\n")], mention="R-combinators"),
    M("c17-seq-alts-no-reset", "C17", [(SUBH, "            if res:\n                return res\n            self._reset(mark)\n        return None\n",
                                        "            if res:\n                return res\n        self._reset(mark)\n        return None\n")], mention="R-combinators"),
]

MUTANTS4 += [
    # the D43 repair taken back in the generator only (the shipped parser keeps the long form)
    M("c17-compact-form-with-invalid", "C17",
      [(GEN, "                and not self.invalidvisitor.visit(node.rhs)\n", "")], mention="compact-form-without-invalid"),
]

TKZE = "peg_parser/tokenize.py"
MUTANTS4 += [
    # the three parts of the D44 repair taken back one by one
    M("c08-join-after-match", "C08",
      [(TKZE, "        if (yield from handle_fstring_progs(state, state.end_progs[-1])):\n"
              "            # what follows the delimiter is scanned by the next call: the rest of the line is not\n"
              "            # to be joined onto the text part that starts there\n"
              "            return\n",
        "        yield from handle_fstring_progs(state, state.end_progs[-1])\n")], mention="no-join-after-match"),
    M("c01-join-after-match", "C01",
      [(TKZE, "        if (yield from handle_fstring_progs(state, state.end_progs[-1])):\n"
              "            # what follows the delimiter is scanned by the next call: the rest of the line is not\n"
              "            # to be joined onto the text part that starts there\n"
              "            return\n",
        "        yield from handle_fstring_progs(state, state.end_progs[-1])\n")], mention="no-join-after-match"),
    M("c02-join-at-line-start", "C02",
      [(TKZE, "(state.pos == 0 and state.in_colon())  # a format spec that goes on at the start of a line", "(state.pos == 0)")],
      mention="join-only-when-continued"),
    M("c08-open-fstring-not-refused", "C08",
      [(TKZE, "    elif state.end_progs[-1].mode is None or state.in_fstring():\n", "    elif state.end_progs[-1].mode is None:\n")],
      mention="unterminated-string"),
    M("c08-benign-match-flag-local", "C08",
      [(TKZE, "        if (yield from handle_fstring_progs(state, state.end_progs[-1])):\n",
        "        found = yield from handle_fstring_progs(state, state.end_progs[-1])\n        if found:\n")], expect="silent"),
]
