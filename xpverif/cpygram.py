"""Sibling cross-check against CPython's own grammar (Grammar/python.gram of CPython 3.11, vendored under /verif/oracle/).

xonsh.gram is derived from CPython's grammar; on the pinned tree 190 of the 225 rules that exist in both are *structurally
identical* to CPython's (same alternatives in the same order, same items, look-aheads and cuts; actions, capture names and
invalid_ alternatives ignored).  Those rules are the frozen reference (`oracle/cpython311_equal_rules.txt`): if one of them
stops being CPython's rule, either something Python rejects is now accepted (C02) or something Python accepts is parsed
differently (C01).  Rules that already differ (xonsh alternatives, 3.12 syntax, speed-up look-aheads) are not compared."""
from __future__ import annotations

import os
import token as _token

from . import gramir, translate as T
from .common import VERIF, AnalysisError
from .ir import Forced, Gather, Group, Look, Opt, Ref, Rep, walk_alt_items

ORACLE = os.path.join(VERIF, "oracle", "python311.gram")
EQUAL = os.path.join(VERIF, "oracle", "cpython311_equal_rules.txt")


def sig_item(it):
    it = T.simplify_item(it)
    if isinstance(it, Group):
        return ("group", tuple(sig_alt(a) for a in it.alts))
    if isinstance(it, Opt):
        return ("opt", sig_item(it.item))
    if isinstance(it, Rep):
        return ("rep", it.min, sig_item(it.item))
    if isinstance(it, Gather):
        return ("gather", sig_item(it.sep), sig_item(it.item))
    if isinstance(it, Look):
        return ("look", it.positive, sig_item(it.item))
    if isinstance(it, Forced):
        return ("forced", sig_item(it.item))
    k = it.key()
    # CPython 3.11 still had ASYNC/AWAIT token kinds; from 3.12 on (and here) they are the keywords
    if k == ("tok", "ASYNC"):
        return ("lit", "async")
    if k == ("tok", "AWAIT"):
        return ("lit", "await")
    return k


def sig_alt(a):
    return tuple(sig_item(ni.item) for ni in a.items)


def has_invalid(a) -> bool:
    return any(isinstance(i, Ref) and i.name.startswith("invalid_") for i in walk_alt_items(a))


def rule_sig(r):
    return [sig_alt(a) for a in r.alts if not has_invalid(a)]


def cpython_grammar():
    if not os.path.exists(ORACLE):
        raise AnalysisError("vendored CPython grammar missing: oracle/python311.gram")
    toks = set(_token.tok_name.values()) | {"SOFT_KEYWORD", "FSTRING_START", "FSTRING_MIDDLE", "FSTRING_END", "TYPE_COMMENT"}
    return gramir.read_grammar(ORACLE, "oracle/python311.gram", toks)


def equal_rules() -> list[str]:
    if not os.path.exists(EQUAL):
        raise AnalysisError("reference list oracle/cpython311_equal_rules.txt missing")
    return [l.strip() for l in open(EQUAL) if l.strip() and not l.startswith("#")]


def describe_diff(a, b) -> str:
    """a: this repo's alternatives, b: CPython's."""
    if len(a) != len(b):
        return f"{len(a)} alternatives here, {len(b)} in CPython's rule"
    for i, (x, y) in enumerate(zip(a, b)):
        if x != y:
            if sorted(map(repr, a)) == sorted(map(repr, b)):
                return "the alternatives are the same but in a different order (ordered choice: a different one wins)"
            lx = [t for t in x if not (isinstance(t, tuple) and t and t[0] in ("look",))]
            ly = [t for t in y if not (isinstance(t, tuple) and t and t[0] in ("look",))]
            if lx == ly:
                return f"alternative {i}: look-ahead items differ (here {[t for t in x if t not in lx]}, CPython {[t for t in y if t not in ly]})"
            return f"alternative {i} differs: here {x}, CPython {y}"
    return "?"


EQUAL_ALTS = os.path.join(VERIF, "oracle", "cpython311_equal_alts.txt")


def equal_alts() -> list[tuple[str, int, int]]:
    """(rule, index of the alternative in CPython's rule) for rules that are *not* wholly CPython's but share alternatives
    with it on the pinned tree."""
    if not os.path.exists(EQUAL_ALTS):
        raise AnalysisError("reference list oracle/cpython311_equal_alts.txt missing")
    out = []
    for l in open(EQUAL_ALTS):
        l = l.strip()
        if l and not l.startswith("#"):
            r, j, i = l.split()
            out.append((r, int(j), int(i)))
    return out
