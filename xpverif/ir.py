"""Grammar IR shared by the .gram reader (gramir) and the generated-parser decompiler (pyir).

Item kinds
----------
Lit(value)            a quoted literal; `value` is the *string value* ("if", "(", ...);
                      `soft` is True for double-quoted (soft keyword) literals in the grammar.
                      In generated code both are `self.expect("x")` so `soft` is None there.
Tok(name)             a token-class match: NAME NUMBER STRING ... / KEYWORD SOFT_KEYWORD ANY_TOKEN
Ref(name)             reference to another rule
Group(alts)           parenthesised alternatives (helper rules `_tmp_N` are inlined as groups)
Opt(item)             [x] / x?
Rep(item, min)        x* (min=0), x+ (min=1)
Gather(sep, item)     sep.item+
Look(item, positive)  &x / !x
Forced(item, text)    &&x
Cut()                 ~
"""
from __future__ import annotations

import ast
from dataclasses import dataclass, field
from typing import Any, Iterator, Optional


@dataclass
class Pos:
    file: str
    line: int

    def __str__(self) -> str:
        return f"{self.file}:{self.line}"


class Item:
    pos: Optional[Pos] = None

    def children(self) -> list["Item"]:
        return []

    def key(self) -> Any:
        raise NotImplementedError


@dataclass
class Lit(Item):
    value: str
    soft: Optional[bool] = None
    pos: Optional[Pos] = None

    def key(self):
        return ("lit", self.value)

    def __str__(self):
        return repr(self.value)


@dataclass
class Tok(Item):
    name: str
    pos: Optional[Pos] = None

    def key(self):
        return ("tok", self.name)

    def __str__(self):
        return self.name


@dataclass
class Ref(Item):
    name: str
    pos: Optional[Pos] = None

    def key(self):
        return ("ref", self.name)

    def __str__(self):
        return self.name


@dataclass
class Group(Item):
    alts: list["Alt"]
    pos: Optional[Pos] = None
    helper: Optional[str] = None  # name of the _tmp_N helper this was inlined from (py side)

    def children(self):
        return [it.item for a in self.alts for it in a.items]

    def key(self):
        return ("group", tuple(a.key() for a in self.alts))

    def __str__(self):
        return "(" + " | ".join(str(a) for a in self.alts) + ")"


@dataclass
class Opt(Item):
    item: Item
    pos: Optional[Pos] = None

    def children(self):
        return [self.item]

    def key(self):
        return ("opt", self.item.key())

    def __str__(self):
        return f"[{self.item}]"


@dataclass
class Rep(Item):
    item: Item
    min: int
    pos: Optional[Pos] = None

    def children(self):
        return [self.item]

    def key(self):
        return ("rep", self.min, self.item.key())

    def __str__(self):
        return f"{self.item}{'+' if self.min else '*'}"


@dataclass
class Gather(Item):
    sep: Item
    item: Item
    pos: Optional[Pos] = None

    def children(self):
        return [self.sep, self.item]

    def key(self):
        return ("gather", self.sep.key(), self.item.key())

    def __str__(self):
        return f"{self.sep}.{self.item}+"


@dataclass
class Look(Item):
    item: Item
    positive: bool
    pos: Optional[Pos] = None

    def children(self):
        return [self.item]

    def key(self):
        return ("look", self.positive, self.item.key())

    def __str__(self):
        return f"{'&' if self.positive else '!'}{self.item}"


@dataclass
class Forced(Item):
    item: Item
    text: Optional[str] = None
    pos: Optional[Pos] = None

    def children(self):
        return [self.item]

    def key(self):
        return ("forced", self.item.key())

    def __str__(self):
        return f"&&{self.item}"


@dataclass
class Cut(Item):
    pos: Optional[Pos] = None

    def key(self):
        return ("cut",)

    def __str__(self):
        return "~"


@dataclass
class NamedItem:
    name: Optional[str]  # capture variable as visible to the action (None if not captured)
    item: Item

    def key(self):
        return self.item.key()

    def __str__(self):
        return (f"{self.name}=" if self.name else "") + str(self.item)


@dataclass
class Alt:
    items: list[NamedItem]
    action: Optional[ast.expr]  # normalised action expression (None only for UNREACHABLE default)
    action_src: str = ""
    uses_locations: bool = False
    invalid_guard: bool = False  # `self.call_invalid_rules and ...` (py) / contains invalid_ ref (gram)
    default_action: bool = False  # action synthesised by the generator
    pos: Optional[Pos] = None
    restores_invalid: bool = False  # py: `self.call_invalid_rules = _prev_call_invalid` before return

    def key(self):
        return tuple(it.key() for it in self.items)

    def has_cut(self):
        return any(isinstance(it.item, Cut) for it in self.items)

    def __str__(self):
        return " ".join(str(i) for i in self.items)


@dataclass
class Rule:
    name: str
    type: Optional[str]
    alts: list[Alt]
    memo: bool = False  # (memo) flag in grammar / @memoize in py
    decorator: Optional[str] = None  # py: memoize | memoize_left_rec | logger | None
    pos: Optional[Pos] = None
    whole_seq_alts: bool = False  # py: `return self.seq_alts(...)` whole-rule form
    brackets_invalid: bool = False  # py: the _without_invalid save/restore bracket present
    uses_locations: bool = False  # py: has the `_lnum, _col = peek().start` line
    helper: bool = False  # py: is a _tmp_N helper


@dataclass
class Grammar:
    rules: dict[str, Rule]
    keywords: Optional[tuple] = None
    soft_keywords: Optional[tuple] = None
    metas: dict = field(default_factory=dict)
    file: str = ""
    klass: str = ""
    bases: tuple = ()
    helpers: dict[str, Rule] = field(default_factory=dict)  # py: the _tmp_N rules (also inlined)


def walk_items(item: Item) -> Iterator[Item]:
    yield item
    for c in item.children():
        yield from walk_items(c)


def walk_alt_items(alt: Alt) -> Iterator[Item]:
    for ni in alt.items:
        yield from walk_items(ni.item)


def walk_alts(rule_or_alts, nested=True) -> Iterator[Alt]:
    """All alts of a rule, including alts of nested groups when nested=True."""
    alts = rule_or_alts.alts if isinstance(rule_or_alts, Rule) else rule_or_alts
    for a in alts:
        yield a
        if nested:
            for it in walk_alt_items(a):
                if isinstance(it, Group):
                    yield from it.alts


def refs_of_alt(alt: Alt) -> list[str]:
    return [it.name for it in walk_alt_items(alt) if isinstance(it, Ref)]
