"""Symbolic probing of helper functions with the abstract interpreter: call a builder with labelled abstract
arguments and look at the shape / provenance of what it returns."""
from __future__ import annotations

from typing import Optional

from . import repo
from .absint import Frame, Interp
from .absval import (BOT, NONE, SELF, Const, DictV, ListV, LocInt, Node, Tok, TupleV, V, members, mk_union)
from .common import AnalysisError

SPAN = {
    "lineno": LocInt("peek()", "start", 0), "col_offset": LocInt("peek()", "start", 1),
    "end_lineno": LocInt("last()", "end", 0), "end_col_offset": LocInt("last()", "end", 1),
}


def tok(label: str, kind: str = "") -> Tok:
    return Tok(label, kind)


def node(cls: str, label: str, ctx: Optional[str] = "Load") -> Node:
    return Node(cls, ctx if cls in ("Name", "Attribute", "Subscript", "Tuple", "List", "Starred") else None, frozenset(),
                frozenset(), None, label, True)


def call(I: Interp, qual: str, pargs: list, kwargs: Optional[dict] = None, with_span: bool = False, hook=None) -> V:
    fn = I.funcs.get(qual)
    if fn is None:
        raise AnalysisError(f"anchor function vanished: {qual}")
    kw = dict(kwargs or {})
    if with_span:
        kw.update(SPAN)
    was, washook = I.emitting, I.ctor_hook
    I.emitting = False
    I.ctor_hook = hook
    try:
        I.memo.clear()
        selfv = None if qual in I.static or "." not in qual else SELF
        return I.call_function(qual, fn, selfv, list(pargs), kw, False, [], None, Frame("probe", repo.SUBHEADER))
    finally:
        I.emitting = was
        I.ctor_hook = washook


def shapes(v: V) -> set[str]:
    return {m.shape or f"<{m.cls}>" for m in members(v) if isinstance(m, Node)}


CHAIN = "Attribute(value=Name(id='__xonsh__', ctx=Load), attr='%s', ctx=Load)"


def xonsh_attr(name: str) -> str:
    return CHAIN % name
