"""E3: graph analyses over the grammar IR (own implementations; nothing imported from /repo/pegen)."""
from __future__ import annotations

from typing import Callable, Iterable, Optional

from .ir import (Alt, Cut, Forced, Gather, Grammar, Group, Item, Lit, Look, NamedItem, Opt, Ref, Rep,
                 Rule, Tok, walk_alt_items)


# ------------------------------------------------------------------ nullable
def compute_nullable(rules: dict[str, Rule]) -> set[str]:
    """Least fixpoint: rules that can succeed without consuming a token."""
    nullable: set[str] = set()

    def item_n(it: Item) -> bool:
        if isinstance(it, Lit):
            return it.value == ""
        if isinstance(it, Tok):
            return False
        if isinstance(it, Ref):
            return it.name in nullable
        if isinstance(it, Group):
            return any(alt_n(a) for a in it.alts)
        if isinstance(it, (Opt, Look, Cut)):
            return True
        if isinstance(it, Rep):
            return it.min == 0 or item_n(it.item)
        if isinstance(it, Gather):
            return item_n(it.item)
        if isinstance(it, Forced):
            return item_n(it.item)
        raise TypeError(it)

    def alt_n(a: Alt) -> bool:
        return all(item_n(ni.item) for ni in a.items)

    changed = True
    while changed:
        changed = False
        for r in rules.values():
            if r.name not in nullable and any(alt_n(a) for a in r.alts):
                nullable.add(r.name)
                changed = True
    compute_nullable.item_n = item_n  # type: ignore[attr-defined]
    return nullable


def make_item_nullable(nullable: set[str]) -> Callable[[Item], bool]:
    def item_n(it: Item) -> bool:
        if isinstance(it, Lit):
            return it.value == ""
        if isinstance(it, Tok):
            return False
        if isinstance(it, Ref):
            return it.name in nullable
        if isinstance(it, Group):
            return any(all(item_n(ni.item) for ni in a.items) for a in it.alts)
        if isinstance(it, (Opt, Look, Cut)):
            return True
        if isinstance(it, Rep):
            return it.min == 0 or item_n(it.item)
        if isinstance(it, Gather):
            return item_n(it.item)
        if isinstance(it, Forced):
            return item_n(it.item)
        raise TypeError(it)
    return item_n


# ------------------------------------------------------------------ left recursion
def initial_refs(rules: dict[str, Rule], nullable: set[str], pegen_compat: bool = False) -> dict[str, set[str]]:
    """Graph of left-invocations: A -> B if A may invoke B at its start position.

    pegen_compat=True reproduces the repo generator's reading (lookaheads, cuts and forced items
    contribute no initial names; lookaheads and cuts stop the scan); the default is the semantic one
    (a rule called inside a lookahead at position 0 is still invoked at position 0).
    """
    item_n = make_item_nullable(nullable)

    def names(it: Item) -> set[str]:
        if isinstance(it, Ref):
            return {it.name}
        if isinstance(it, (Lit, Tok, Cut)):
            return set()
        if isinstance(it, Group):
            out: set[str] = set()
            for a in it.alts:
                out |= alt_names(a)
            return out
        if isinstance(it, (Opt, Rep)):
            return names(it.item)
        if isinstance(it, Gather):
            s = names(it.item)
            if item_n(it.item):
                s |= names(it.sep)
            return s
        if isinstance(it, Look):
            return set() if pegen_compat else names(it.item)
        if isinstance(it, Forced):
            return set() if pegen_compat else names(it.item)
        raise TypeError(it)

    def nul(it: Item) -> bool:
        if pegen_compat:
            if isinstance(it, (Look, Cut)):
                return False
            if isinstance(it, Forced):
                return True
            if isinstance(it, Rep):
                return it.min == 0
            if isinstance(it, Gather):
                return False
        return item_n(it)

    def alt_names(a: Alt) -> set[str]:
        out: set[str] = set()
        for ni in a.items:
            out |= names(ni.item)
            if not nul(ni.item):
                break
        return out

    g: dict[str, set[str]] = {}
    for r in rules.values():
        s: set[str] = set()
        for a in r.alts:
            s |= alt_names(a)
        g[r.name] = {n for n in s if n in rules}
    return g


def sccs(graph: dict[str, set[str]]) -> list[set[str]]:
    """Tarjan (iterative)."""
    index: dict[str, int] = {}
    low: dict[str, int] = {}
    onstack: set[str] = set()
    stack: list[str] = []
    out: list[set[str]] = []
    counter = [0]
    for root in graph:
        if root in index:
            continue
        work = [(root, iter(sorted(graph[root])))]
        index[root] = low[root] = counter[0]
        counter[0] += 1
        stack.append(root)
        onstack.add(root)
        while work:
            v, it = work[-1]
            advanced = False
            for w in it:
                if w not in graph:
                    continue
                if w not in index:
                    index[w] = low[w] = counter[0]
                    counter[0] += 1
                    stack.append(w)
                    onstack.add(w)
                    work.append((w, iter(sorted(graph[w]))))
                    advanced = True
                    break
                elif w in onstack:
                    low[v] = min(low[v], index[w])
            if advanced:
                continue
            work.pop()
            if work:
                u = work[-1][0]
                low[u] = min(low[u], low[v])
            if low[v] == index[v]:
                comp = set()
                while True:
                    w = stack.pop()
                    onstack.discard(w)
                    comp.add(w)
                    if w == v:
                        break
                out.append(comp)
    return out


def has_cycle(graph: dict[str, set[str]], nodes: set[str]) -> bool:
    color: dict[str, int] = {}

    def dfs(v) -> bool:
        color[v] = 1
        for w in graph.get(v, ()):
            if w not in nodes:
                continue
            c = color.get(w, 0)
            if c == 1:
                return True
            if c == 0 and dfs(w):
                return True
        color[v] = 2
        return False

    return any(color.get(v, 0) == 0 and dfs(v) for v in sorted(nodes))


def left_recursion(rules: dict[str, Rule], pegen_compat: bool = False):
    """Returns (left_recursive set, {scc_id: (members, leader_candidates)}, graph)."""
    nullable = compute_nullable(rules)
    graph = initial_refs(rules, nullable, pegen_compat)
    lr: set[str] = set()
    comps = []
    for comp in sccs(graph):
        if len(comp) > 1 or any(v in graph[v] for v in comp):
            lr |= comp
            cands = {v for v in comp if not has_cycle(graph, comp - {v})}
            comps.append((comp, cands))
    return lr, comps, graph


# ------------------------------------------------------------------ references / reachability
def ref_graph(rules: dict[str, Rule], include_invalid_alts: bool = True) -> dict[str, set[str]]:
    g: dict[str, set[str]] = {}
    for r in rules.values():
        s: set[str] = set()
        for a in r.alts:
            if not include_invalid_alts and a.invalid_guard:
                continue
            for it in walk_alt_items(a):
                if isinstance(it, Ref):
                    s.add(it.name)
        g[r.name] = s
    return g


def reachable(graph: dict[str, set[str]], roots: Iterable[str]) -> set[str]:
    seen: set[str] = set()
    todo = [r for r in roots if r in graph]
    while todo:
        v = todo.pop()
        if v in seen:
            continue
        seen.add(v)
        todo.extend(w for w in graph.get(v, ()) if w not in seen and w in graph)
    return seen
