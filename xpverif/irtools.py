"""E3: graph analyses over the grammar IR (own implementations; nothing imported from /repo/pegen)."""
from __future__ import annotations

from typing import Callable, Iterable, Optional

from .ir import (Alt, Cut, Forced, Gather, Grammar, Group, Item, Lit, Look, NamedItem, Opt, Ref, Rep,
                 Rule, Tok, walk_alt_items)


# ------------------------------------------------------------------ nullable
def compute_nullable(rules: dict[str, Rule]) -> set[str]:
    """Least fixpoint: rules that can succeed without consuming a token."""
    nullable: set[str] = set()

    def item_n(it: Item) -> bool:
        if isinstance(it, Lit):
            return it.value == ""
        if isinstance(it, Tok):
            return False
        if isinstance(it, Ref):
            return it.name in nullable
        if isinstance(it, Group):
            return any(alt_n(a) for a in it.alts)
        if isinstance(it, (Opt, Look, Cut)):
            return True
        if isinstance(it, Rep):
            return it.min == 0 or item_n(it.item)
        if isinstance(it, Gather):
            return item_n(it.item)
        if isinstance(it, Forced):
            return item_n(it.item)
        raise TypeError(it)

    def alt_n(a: Alt) -> bool:
        return all(item_n(ni.item) for ni in a.items)

    changed = True
    while changed:
        changed = False
        for r in rules.values():
            if r.name not in nullable and any(alt_n(a) for a in r.alts):
                nullable.add(r.name)
                changed = True
    compute_nullable.item_n = item_n  # type: ignore[attr-defined]
    return nullable


def make_item_nullable(nullable: set[str]) -> Callable[[Item], bool]:
    def item_n(it: Item) -> bool:
        if isinstance(it, Lit):
            return it.value == ""
        if isinstance(it, Tok):
            return False
        if isinstance(it, Ref):
            return it.name in nullable
        if isinstance(it, Group):
            return any(all(item_n(ni.item) for ni in a.items) for a in it.alts)
        if isinstance(it, (Opt, Look, Cut)):
            return True
        if isinstance(it, Rep):
            return it.min == 0 or item_n(it.item)
        if isinstance(it, Gather):
            return item_n(it.item)
        if isinstance(it, Forced):
            return item_n(it.item)
        raise TypeError(it)
    return item_n


# ------------------------------------------------------------------ left recursion
def initial_refs(rules: dict[str, Rule], nullable: set[str], pegen_compat: bool = False) -> dict[str, set[str]]:
    """Graph of left-invocations: A -> B if A may invoke B at its start position.

    pegen_compat=True reproduces the repo generator's reading (lookaheads, cuts and forced items
    contribute no initial names; lookaheads and cuts stop the scan); the default is the semantic one
    (a rule called inside a lookahead at position 0 is still invoked at position 0).
    """
    item_n = make_item_nullable(nullable)

    def names(it: Item) -> set[str]:
        if isinstance(it, Ref):
            return {it.name}
        if isinstance(it, (Lit, Tok, Cut)):
            return set()
        if isinstance(it, Group):
            out: set[str] = set()
            for a in it.alts:
                out |= alt_names(a)
            return out
        if isinstance(it, (Opt, Rep)):
            return names(it.item)
        if isinstance(it, Gather):
            s = names(it.item)
            if item_n(it.item):
                s |= names(it.sep)
            return s
        if isinstance(it, Look):
            return set() if pegen_compat else names(it.item)
        if isinstance(it, Forced):
            return set() if pegen_compat else names(it.item)
        raise TypeError(it)

    def nul(it: Item) -> bool:
        if pegen_compat:
            if isinstance(it, (Look, Cut)):
                return False
            if isinstance(it, Forced):
                return True
            if isinstance(it, Rep):
                return it.min == 0
            if isinstance(it, Gather):
                return False
        return item_n(it)

    def alt_names(a: Alt) -> set[str]:
        out: set[str] = set()
        for ni in a.items:
            out |= names(ni.item)
            if not nul(ni.item):
                break
        return out

    g: dict[str, set[str]] = {}
    for r in rules.values():
        s: set[str] = set()
        for a in r.alts:
            s |= alt_names(a)
        g[r.name] = {n for n in s if n in rules}
    return g


def sccs(graph: dict[str, set[str]]) -> list[set[str]]:
    """Tarjan (iterative)."""
    index: dict[str, int] = {}
    low: dict[str, int] = {}
    onstack: set[str] = set()
    stack: list[str] = []
    out: list[set[str]] = []
    counter = [0]
    for root in graph:
        if root in index:
            continue
        work = [(root, iter(sorted(graph[root])))]
        index[root] = low[root] = counter[0]
        counter[0] += 1
        stack.append(root)
        onstack.add(root)
        while work:
            v, it = work[-1]
            advanced = False
            for w in it:
                if w not in graph:
                    continue
                if w not in index:
                    index[w] = low[w] = counter[0]
                    counter[0] += 1
                    stack.append(w)
                    onstack.add(w)
                    work.append((w, iter(sorted(graph[w]))))
                    advanced = True
                    break
                elif w in onstack:
                    low[v] = min(low[v], index[w])
            if advanced:
                continue
            work.pop()
            if work:
                u = work[-1][0]
                low[u] = min(low[u], low[v])
            if low[v] == index[v]:
                comp = set()
                while True:
                    w = stack.pop()
                    onstack.discard(w)
                    comp.add(w)
                    if w == v:
                        break
                out.append(comp)
    return out


def has_cycle(graph: dict[str, set[str]], nodes: set[str]) -> bool:
    color: dict[str, int] = {}

    def dfs(v) -> bool:
        color[v] = 1
        for w in graph.get(v, ()):
            if w not in nodes:
                continue
            c = color.get(w, 0)
            if c == 1:
                return True
            if c == 0 and dfs(w):
                return True
        color[v] = 2
        return False

    return any(color.get(v, 0) == 0 and dfs(v) for v in sorted(nodes))


def left_recursion(rules: dict[str, Rule], pegen_compat: bool = False):
    """Returns (left_recursive set, {scc_id: (members, leader_candidates)}, graph)."""
    nullable = compute_nullable(rules)
    graph = initial_refs(rules, nullable, pegen_compat)
    lr: set[str] = set()
    comps = []
    for comp in sccs(graph):
        if len(comp) > 1 or any(v in graph[v] for v in comp):
            lr |= comp
            cands = {v for v in comp if not has_cycle(graph, comp - {v})}
            comps.append((comp, cands))
    return lr, comps, graph


# ------------------------------------------------------------------ references / reachability
def ref_graph(rules: dict[str, Rule], include_invalid_alts: bool = True) -> dict[str, set[str]]:
    g: dict[str, set[str]] = {}
    for r in rules.values():
        s: set[str] = set()
        for a in r.alts:
            if not include_invalid_alts and a.invalid_guard:
                continue
            for it in walk_alt_items(a):
                if isinstance(it, Ref):
                    s.add(it.name)
        g[r.name] = s
    return g


def reachable(graph: dict[str, set[str]], roots: Iterable[str]) -> set[str]:
    seen: set[str] = set()
    todo = [r for r in roots if r in graph]
    while todo:
        v = todo.pop()
        if v in seen:
            continue
        seen.add(v)
        todo.extend(w for w in graph.get(v, ()) if w not in seen and w in graph)
    return seen


# ------------------------------------------------------------------ must-consume, FIRST/LAST, adjacency
def term_key(it) -> str:
    if isinstance(it, Lit):
        return "'" + it.value + "'"
    if isinstance(it, Tok):
        return it.name
    raise TypeError(it)


def must_consume(rules: dict[str, Rule], alt_filter=None) -> tuple[dict[str, frozenset], Callable]:
    """Greatest fixpoint: terminals every successful match of a rule consumes (or positively looks ahead at).
    Returns (per-rule sets, function computing the set of an item list)."""
    UNIVERSE = None  # stands for "everything" during the iteration
    must: dict[str, Optional[frozenset]] = {n: UNIVERSE for n in rules}

    def of_item(it: Item) -> Optional[frozenset]:
        if isinstance(it, (Lit, Tok)):
            return frozenset([term_key(it)])
        if isinstance(it, Ref):
            return must.get(it.name, frozenset()) if it.name in rules else frozenset()
        if isinstance(it, Group):
            return inter([of_items(a.items) for a in it.alts if alt_filter is None or alt_filter(a)])
        if isinstance(it, (Opt, Cut)):
            return frozenset()
        if isinstance(it, Rep):
            return of_item(it.item) if it.min else frozenset()
        if isinstance(it, Gather):
            return of_item(it.item)
        if isinstance(it, Look):
            return of_item(it.item) if it.positive else frozenset()
        if isinstance(it, Forced):
            return of_item(it.item)
        raise TypeError(it)

    def of_items(items) -> Optional[frozenset]:
        out: set = set()
        for ni in items:
            s = of_item(ni.item)
            if s is UNIVERSE:
                return UNIVERSE
            out |= s
        return frozenset(out)

    def inter(sets) -> Optional[frozenset]:
        sets = [s for s in sets if s is not UNIVERSE]
        if not sets:
            return UNIVERSE
        out = set(sets[0])
        for s in sets[1:]:
            out &= s
        return frozenset(out)

    changed = True
    while changed:
        changed = False
        for r in rules.values():
            new = inter([of_items(a.items) for a in r.alts if alt_filter is None or alt_filter(a)])
            if new != must[r.name]:
                must[r.name] = new
                changed = True
    final = {n: (s if s is not None else frozenset()) for n, s in must.items()}
    for n in must:
        must[n] = final[n]
    return final, of_items


def first_last(rules: dict[str, Rule], alt_ok=None):
    """FIRST and LAST terminal sets under the CFG reading (lookaheads and cuts are transparent)."""
    nullable = compute_nullable(rules)
    item_n = make_item_nullable(nullable)
    first: dict[str, set] = {n: set() for n in rules}
    last: dict[str, set] = {n: set() for n in rules}

    def fl_item(it: Item, which: dict) -> set:
        if isinstance(it, (Lit, Tok)):
            return {term_key(it)}
        if isinstance(it, Ref):
            return which.get(it.name, set())
        if isinstance(it, Group):
            out: set = set()
            for a in it.alts:
                if alt_ok is None or alt_ok(a):
                    out |= fl_alt(a.items, which)
            return out
        if isinstance(it, (Opt, Rep, Forced)):
            return fl_item(it.item, which)
        if isinstance(it, Gather):
            return fl_item(it.item, which)
        return set()

    def consuming(items):
        return [ni.item for ni in items if not isinstance(ni.item, (Look, Cut))]

    def fl_alt(items, which) -> set:
        seq = consuming(items)
        if which is last:
            seq = list(reversed(seq))
        out: set = set()
        for it in seq:
            out |= fl_item(it, which)
            if not item_n(it):
                break
        return out

    changed = True
    while changed:
        changed = False
        for r in rules.values():
            for which in (first, last):
                new = set(which[r.name])
                for a in r.alts:
                    if alt_ok is None or alt_ok(a):
                        new |= fl_alt(a.items, which)
                if new != which[r.name]:
                    which[r.name] = new
                    changed = True
    return first, last, item_n, fl_item, consuming


def adjacency(rules: dict[str, Rule], alt_ok=None) -> set[tuple[str, str]]:
    """Pairs (a, b) of terminals that can be adjacent in a token sequence derived by the (filtered) grammar."""
    first, last, item_n, fl_item, consuming = first_last(rules, alt_ok)
    pairs: set[tuple[str, str]] = set()

    def seq_pairs(items):
        seq = consuming(items)
        for i, x in enumerate(seq):
            lx = fl_item(x, last)
            for y in seq[i + 1:]:
                fy = fl_item(y, first)
                for a in lx:
                    for b in fy:
                        pairs.add((a, b))
                if not item_n(y):
                    break
        for it in seq:
            inner(it)

    def inner(it: Item):
        if isinstance(it, Group):
            for a in it.alts:
                if alt_ok is None or alt_ok(a):
                    seq_pairs(a.items)
        elif isinstance(it, Rep):
            inner(it.item)
            for a in fl_item(it.item, last):
                for b in fl_item(it.item, first):
                    pairs.add((a, b))
        elif isinstance(it, Gather):
            inner(it.item)
            inner(it.sep)
            for a in fl_item(it.item, last):
                for b in fl_item(it.sep, first):
                    pairs.add((a, b))
            for a in fl_item(it.sep, last):
                for b in fl_item(it.item, first):
                    pairs.add((a, b))
        elif isinstance(it, (Opt, Forced)):
            inner(it.item)

    for r in rules.values():
        for a in r.alts:
            if alt_ok is None or alt_ok(a):
                seq_pairs(a.items)
    return pairs
