"""Self-test mutants: (file, old text, new text) edits applied to a scratch copy.  `G` builds a consistent
grammar + generated-parser edit (so C16 stays silent and the property's own check has to notice)."""
from __future__ import annotations

GRAM = "tasks/xonsh.gram"
PARS = "peg_parser/parser.py"
SUB = "peg_parser/subheader.py"
TKZ = "peg_parser/tokenize.py"
TKR = "peg_parser/tokenizer.py"
LOC = "**self.span(_lnum, _col)"


def G(gram_old, gram_new, py_old=None, py_new=None):
    """Consistent edit of an action/alternative in both files (py text derived by LOCATIONS expansion by default)."""
    if py_old is None:
        py_old = gram_old.replace("LOCATIONS", LOC)
        py_new = gram_new.replace("LOCATIONS", LOC)
    return [(GRAM, gram_old, gram_new), (PARS, py_old, py_new)]


def M(name, prop, edits, expect="violation", checks=None, mention=None, tier="quick"):
    d = {"name": name, "property": prop, "edits": edits, "expect": expect, "tier": tier}
    if checks:
        d["checks"] = checks
    if mention:
        d["mention"] = mention
    return d


MUTANTS = [
    # ------------------------------------------------------------------ C01
    M("c01-operator-class-swapped", "C01",
      G("ast.BinOp(left=a, op=ast.Sub(), right=b, LOCATIONS)", "ast.BinOp(left=a, op=ast.Add(), right=b, LOCATIONS)"), mention="A3"),
    M("c01-operands-swapped", "C01",
      G("ast.BinOp(left=a, op=ast.LShift(), right=b, LOCATIONS)", "ast.BinOp(left=b, op=ast.LShift(), right=a, LOCATIONS)"), mention="A4"),
    M("c01-ifexp-operands-swapped", "C01",
      G("ast.IfExp(body=a, test=b, orelse=c, LOCATIONS)", "ast.IfExp(body=b, test=a, orelse=c, LOCATIONS)",
        "return ast.IfExp(body=a, test=b, orelse=c, **self.span(_lnum, _col))", "return ast.IfExp(body=b, test=a, orelse=c, **self.span(_lnum, _col))"),
      mention="A4"),
    M("c01-lost-capture-assert-msg", "C01",
      G("ast.Assert(test=a, msg=b, LOCATIONS)", "ast.Assert(test=a, msg=None, LOCATIONS)"), mention="A2"),
    M("c01-wrong-field-name", "C01",
      G("ast.Raise(exc=a, cause=b, LOCATIONS)", "ast.Raise(exc=a, causes=b, LOCATIONS)"), mention="A1"),
    M("c01-token-instead-of-string", "C01",
      [(GRAM, "| a=NAME b=['as' z=NAME { z.string }] { ast.alias(name=a.string, asname=b, LOCATIONS) }",
        "| a=NAME b=['as' z=NAME { z }] { ast.alias(name=a.string, asname=b, LOCATIONS) }")],
      expect="violation", checks=["C16"]),
    M("c01-span-end-from-start", "C01",
      [(SUB, '"end_col_offset": end[1]}', '"end_col_offset": col}')], mention="A5"),
    M("c01-location-key-index", "C01",
      [(TKZ, '"col_offset": self.start[1],', '"col_offset": self.start[0],')], mention="A5"),
    M("c01-skip-set-loses-dedent", "C01",
      [(TKR, "{Token.ENDMARKER, Token.NEWLINE, Token.DEDENT, Token.INDENT}", "{Token.ENDMARKER, Token.NEWLINE, Token.INDENT}")], mention="A5"),
    M("c01-kw-defaults-filtered", "C01",
      [(SUB, "kw_defaults=[d for _, d in after_star[1]],", "kw_defaults=[d for _, d in after_star[1] if d is not None],")], mention="A9"),
    M("c01-kwonly-from-wrong-group", "C01",
      [(SUB, "kwonlyargs=[p for p, _ in after_star[1]],", "kwonlyargs=params,")], mention="A9"),
    M("c01-vararg-kwarg-swapped", "C01",
      [(SUB, "vararg=after_star[0],", "vararg=after_star[2],"), (SUB, "kwarg=after_star[2],", "kwarg=after_star[0],")], mention="A9"),
    M("c01-benign-rename-capture", "C01",
      [(GRAM, "| a=sum '-' b=term { ast.BinOp(left=a, op=ast.Sub(), right=b, LOCATIONS) }",
        "| x=sum '-' y=term { ast.BinOp(left=x, op=ast.Sub(), right=y, LOCATIONS) }")],
      expect="silent", checks=["C01", "C16", "C04"]),
    # ------------------------------------------------------------------ C04
    M("c04-or-empty-list-dropped", "C04",
      G("ast.While(test=a, body=b, orelse=c or [], LOCATIONS)", "ast.While(test=a, body=b, orelse=c, LOCATIONS)"), mention="S1-list-field"),
    M("c04-load-on-target", "C04",
      G("| a=NAME { ast.Name(id=a.string, ctx=Store, LOCATIONS) }\n    | '(' a=target_with_star_atom ')'",
        "| a=NAME { ast.Name(id=a.string, ctx=Load, LOCATIONS) }\n    | '(' a=target_with_star_atom ')'",
        "return ast.Name(id=a.string, ctx=Store, **self.span(_lnum, _col))\n        self._reset(mark)\n        if (self.expect(\"(\")) and (a := self.target_with_star_atom())",
        "return ast.Name(id=a.string, ctx=Load, **self.span(_lnum, _col))\n        self._reset(mark)\n        if (self.expect(\"(\")) and (a := self.target_with_star_atom())"),
      mention="S3"),
    M("c04-locations-dropped", "C04",
      G("ast.Yield(value=a, LOCATIONS)", "ast.Yield(value=a)"), mention="S4"),
    M("c04-env-name-store-ctx-lost", "C04",
      G("self.expand_env_name(a, ctx=Store, LOCATIONS)", "self.expand_env_name(a, LOCATIONS)"), mention="S3"),
    M("c04-partial-location-in-helper", "C04",
      [(SUB, "slice=ast.Constant(value=name.string, **locs),", "slice=ast.Constant(value=name.string, **name.loc_start()),")], mention="S4"),
    M("c04-required-field-none", "C04",
      G("ast.withitem(context_expr=e, optional_vars=None)", "ast.withitem(context_expr=None, optional_vars=e)"), mention="S2"),
    M("c04-singleton-write", "C04",
      [(SUB, "        node.ctx = context\n", "        node.ctx = context\n        Load.lineno = 0\n")], mention="S6"),
    M("c04-benign-a-if-a-else", "C04",
      G("ast.While(test=a, body=b, orelse=c or [], LOCATIONS)", "ast.While(test=a, body=b, orelse=c if c else [], LOCATIONS)"),
      expect="silent", checks=["C04", "C16", "C01"]),
    # ------------------------------------------------------------------ C03
    M("c03-stale-snapshot", "C03",
      [(TKZ, "        while state.pos < state.max:\n            pos = state.pos\n", "        pos = state.pos\n        while state.pos < state.max:\n")],
      mention="T1"),
    M("c03-fallback-no-increment", "C03",
      [(TKZ, "                    state.line,\n                )\n                state.pos += 1\n", "                    state.line,\n                )\n")],
      mention="T1"),
    M("c03-eof-raise-removed", "C03",
      [(TKZ, '            if not state.line:\n                raise TokenError("EOF in multi-line statement", (state.lnum, 0))\n', "")], mention="T2"),
    M("c03-bare-next", "C03",
      [(TKR, "            else:\n                tok = self._next_raw()\n", "            else:\n                tok = next(self._tokengen)\n")],
      mention="T3"),
    M("c03-valueerror-raised", "C03",
      [(SUB, "            self.raise_syntax_error_known_location(\n                f\"f-string: invalid conversion character",
        "            raise ValueError(\n                f\"f-string: invalid conversion character"),
       (SUB, "expected 's', 'r', or 'a'\",\n                name,\n            )", "expected 's', 'r', or 'a'\",\n                name,\n            )".replace("name,\n            )", "name,\n            )"))][:1],
      expect="silent"),  # placeholder kept silent: edit is a no-op guard (see c03-valueerror-raised-2)
    M("c03-valueerror-raised-2", "C03",
      [(SUB, '            raise SyntaxError(f"{error_msg} is only supported in Python {min_version} and above.")',
        '            raise ValueError(f"{error_msg} is only supported in Python {min_version} and above.")')], mention="E1"),
    M("c03-parse-returns-none", "C03",
      [(SUB, '            self.raise_raw_syntax_error("invalid syntax", last_token.start, last_token.end)\n', "            pass\n")], mention="E6"),
    M("c03-lines-lookup-partial", "C03",
      [(TKR, 'return [lines.get(n, "") for n in line_numbers]', "return [lines[n] for n in line_numbers]")], mention="E3"),
    M("c03-unknown-token-kind", "C03",
      [(PARS, 'if a := self.token("SEARCH_PATH"):', 'if a := self.token("SEARCHPATH"):')], checks=["C03"], mention="E3"),
    M("c03-help-guard-removed", "C03",
      [(SUB, "            if node is not None and not isinstance(atom, ast.Name):\n                self.raise_syntax_error_known_location(\"invalid syntax\", atom)\n", "")],
      mention="E7"),
    M("c03-mixed-literal-guard-removed", "C03",
      [(SUB, "        if isinstance(left, bytes) != isinstance(right, bytes):\n            self.raise_syntax_error_known_range(\"cannot mix bytes and nonbytes literals\", start, end)\n", "")],
      mention="E7"),
    # ------------------------------------------------------------------ C11
    M("c11-plus-one-dropped", "C11", [(SUB, "        args = (self.filename, start[0], start[1] + 1, line)\n        args += (end[0], end[1] + 1)",
                                      "        args = (self.filename, start[0], start[1], line)\n        args += (end[0], end[1] + 1)")], mention="Y2"),
    M("c11-end-plus-one-dropped-indent", "C11",
      [(SUB, "        args += (last_token.end[0], last_token.end[1] + 1)", "        args += (last_token.end[0], last_token.end[1])")], mention="Y2"),
    M("c11-direct-syntaxerror", "C11",
      [(SUB, "            self.raise_syntax_error_known_location(\"real number required in complex literal\", number)",
        "            raise SyntaxError(\"real number required in complex literal\")")], mention="Y1"),
    M("c11-text-from-wrong-line", "C11",
      [(SUB, "self._tokenizer.get_lines(list(range(start[0], end[0] + 1)))", "self._tokenizer.get_lines(list(range(end[0], end[0] + 1)))")], mention="Y3"),
    M("c11-mixed-span-source", "C11",
      [(SUB, "            start = node.lineno, node.col_offset\n            end = node.end_lineno or 0, node.end_col_offset or 0\n\n        raise self._build_syntax_error(message, start, end)\n\n    def raise_syntax_error_known_range",
        "            start = node.lineno, node.end_col_offset\n            end = node.end_lineno or 0, node.end_col_offset or 0\n\n        raise self._build_syntax_error(message, start, end)\n\n    def raise_syntax_error_known_range")],
      mention="Y4"),
    # ------------------------------------------------------------------ C12
    M("c12-encoding-removed", "C12", [(SUB, 'with open(path, encoding="utf-8") as f:', "with open(path) as f:")], mention="Z2"),
    M("c12-newline-mode", "C12", [(SUB, "io.StringIO(source, newline=None)", "io.StringIO(source)")], mention="Z3"),
    M("c12-verbose-not-forwarded", "C12",
      [(SUB, "            tokenizer = Tokenizer(tok_stream, verbose=verbose, path=str(path))", "            tokenizer = Tokenizer(tok_stream, path=str(path))")],
      mention="Z1"),
    M("c12-py-version-not-forwarded", "C12",
      [(SUB, "        parser = cls(tokenizer, verbose=verbose, py_version=py_version)", "        parser = cls(tokenizer, verbose=verbose)")], mention="Z1"),
    # ------------------------------------------------------------------ C13
    M("c13-module-level-cache", "C13",
      [(SUB, "    def ensure_real(self, number: TokenInfo) -> float | int:\n        value = self.literal_value(number)",
        "    def ensure_real(self, number: TokenInfo) -> float | int:\n        EXPR_NAME_MAPPING[number.string] = \"seen\"\n        value = self.literal_value(number)")],
      mention="U1"),
    M("c13-class-level-mutable", "C13",
      [(TKR, "    _tokens: list[TokenInfo]\n", "    _tokens: list[TokenInfo] = []\n")], mention="U2"),
    M("c13-new-side-channel", "C13",
      [(SUB, "        self._tokenizer._proc_macro = True\n        return a", "        self._tokenizer._proc_macro = True\n        self._last_macro = a\n        return a")],
      mention="U6"),
    M("c13-global-statement", "C13",
      [(TKZ, "def next_end_tokens(state: TokenizerState) -> Iterator[TokenInfo]:\n", "def next_end_tokens(state: TokenizerState) -> Iterator[TokenInfo]:\n    global tabsize\n    tabsize = 8\n")],
      mention="U1"),
    # ------------------------------------------------------------------ C14
    M("c14-flag-reset-removed", "C14",
      [(SUB, "        self._tokenizer._proc_macro = False\n        return ast.Constant(value=st, **locs)", "        return ast.Constant(value=st, **locs)")], mention="M3"),
    M("c14-cut-removed-after-macro-start", "C14",
      G("| proc_macro_start ~ a=(cmd_group | any_cmd )* { self.proc_macro_arg(a, LOCATIONS) }",
        "| proc_macro_start a=(cmd_group | any_cmd )* { self.proc_macro_arg(a, LOCATIONS) }",
        "        cut = False\n        if (self.proc_macro_start()) and (cut := True) and (a := self.repeated(self._tmp_38),):\n            return self.proc_macro_arg(a, **self.span(_lnum, _col))\n        self._reset(mark)\n        if cut:\n            return None\n",
        "        if (self.proc_macro_start()) and (a := self.repeated(self._tmp_38),):\n            return self.proc_macro_arg(a, **self.span(_lnum, _col))\n        self._reset(mark)\n"),
      mention="M3"),
    M("c14-path-token-not-cleared", "C14",
      [(SUB, "            node = xonsh_call(\"__xonsh__.path_literal\", node, **path_tok.loc())\n            self._path_token = None\n",
        "            node = xonsh_call(\"__xonsh__.path_literal\", node, **path_tok.loc())\n")], mention="N2"),
    M("c14-dedent-forwarded", "C14",
      [(TKR, "                if indent:\n                    indent -= 1\n                    continue\n", "                if indent:\n                    indent -= 1\n")],
      mention="M5"),
    # ------------------------------------------------------------------ C15
    M("c15-fast-path-ignores-verbose", "C15",
      [(SUB, "            if tree:\n                self._reset(endmark)\n        return tree\n\n    memoize_left_rec_wrapper", "            self._level += 0\n        return tree\n\n    memoize_left_rec_wrapper")],
      mention="V1"),
    M("c15-verbose-changes-index", "C15",
      [(TKR, "        if self._verbose:\n            self.report(cached, False)\n        return tok", "        if self._verbose:\n            self.report(cached, False)\n            self._index = Mark(self._index)\n        return tok")],
      mention="V1"),
    M("c15-version-gate-strict", "C15", [(SUB, "        if self.py_version >= min_version:", "        if self.py_version > min_version:")], mention="V3"),
    M("c15-wrong-floor", "C15",
      [(GRAM, "        (3, 12),\n        \"Type parameter lists are\",", "        (3, 11),\n        \"Type parameter lists are\","),
       (PARS, "return self.check_version((3, 12), \"Type parameter lists are\", t)", "return self.check_version((3, 11), \"Type parameter lists are\", t)")],
      mention="V3"),
    # ------------------------------------------------------------------ C16
    M("c16-grammar-edit-without-regeneration", "C16", [(GRAM, "| 'pass' { ast.Pass(LOCATIONS) }", "| 'pass' { ast.Pass(LOCATIONS) }\n    | 'skip' { ast.Pass(LOCATIONS) }")]),
    M("c16-hand-edit-of-generated", "C16", [(PARS, "            return ast.Break(**self.span(_lnum, _col))", "            return ast.Continue(**self.span(_lnum, _col))")]),
    M("c16-memo-removed-in-generated-only", "C16", [(PARS, "    @memoize\n    def star_expression(self)", "    def star_expression(self)")], mention="G3"),
    M("c16-keyword-table-stale", "C16", [(PARS, "'lambda', ", "")], mention="G6"),
    M("c16-benign-reformat", "C16", [(PARS, "        if a := self.statement_newline():\n            return ast.Interactive(body=a)",
                                      "        if (a := self.statement_newline()):\n            return ast.Interactive(\n                body=a\n            )")],
      expect="silent"),
    # ------------------------------------------------------------------ C18
    M("c18-memo-removed-closed-pattern", "C18",
      [(GRAM, "\nclosed_pattern (memo):\n", "\nclosed_pattern:\n"), (PARS, "    @memoize\n    def closed_pattern(self)", "    def closed_pattern(self)")], mention="W1"),
    M("c18-memo-removed-expression", "C18",
      [(GRAM, "\nexpression (memo):\n", "\nexpression:\n"), (PARS, "    @memoize\n    def expression(self)", "    def expression(self)")], mention="W1"),
    M("c18-cache-hit-reruns-rule", "C18",
      [(SUB, "            tree, endmark = self._cache[key]\n            if verbose:\n                print(f\"{fill}{method_name}({argsr}) -> {tree!s:.200}\")\n            self._reset(endmark)",
        "            tree = method(self, *args)\n            endmark = self._mark()\n            if verbose:\n                print(f\"{fill}{method_name}({argsr}) -> {tree!s:.200}\")\n            self._reset(endmark)")],
      mention="W2"),
    # ------------------------------------------------------------------ C02
    M("c02-help-suffix-optional", "C02",
      G("| a=atom b=('??' | '?') { (a, b) }", "| a=atom b=['??' | '?'] { (a, b) }",
        "if (a := self.atom()) and (b := self._tmp_35()):", "if (a := self.atom()) and (b := self._tmp_35(),):"), checks=["C02"], mention="X1"),
    M("c02-endmarker-dropped", "C02",
      G("eval[ast.Expression]: a=expressions NEWLINE* ENDMARKER { ast.Expression(body=a) }", "eval[ast.Expression]: a=expressions NEWLINE* { ast.Expression(body=a) }",
        "        if (\n            (a := self.expressions())\n            and (self.repeated(self.token, \"NEWLINE\"),)\n            and (self.token(\"ENDMARKER\"))\n        ):",
        "        if (\n            (a := self.expressions())\n            and (self.repeated(self.token, \"NEWLINE\"),)\n        ):"), mention="X2"),
    M("c02-errortoken-dropped-always", "C02",
      [(TKR, "        if tok.type == Token.ERRORTOKEN and tok.string.isspace():", "        if tok.type == Token.ERRORTOKEN:")], mention="X4"),
]
MUTANTS = [m for m in MUTANTS if m["name"] != "c03-valueerror-raised"]
